"""Shared machinery for /verif/bin/check: proof obligations (lake build + axiom audit),
harness build, model/implementation correspondence, evidence, known findings, violations."""
import atexit
import hashlib
import json
import os
import re
import shutil
import subprocess
import sys
import time

VERIF = "/verif"
REPO = "/repo"
LEAN = os.path.join(VERIF, "lean")
HARNESS = os.path.join(VERIF, "harness")
ALLOWED_AXIOMS = {"propext", "Classical.choice", "Quot.sound"}
FORBIDDEN = re.compile(
    r"\bsorry\b|\badmit\b|^\s*axiom\s|native_decide|bv_decide|implemented_by|\bunsafe\s|maxHeartbeats\s+0\b",
    re.M,
)
TRUSTED_BASE = [
    "Lean 4.33 kernel; axioms limited to propext, Classical.choice, Quot.sound (audited with #print axioms on every registered theorem)",
    "Lean compiler/runtime when lpm_* executes the model definitions the theorems are about",
    "the hand-written model is a model: tied to /repo by the correspondence run of this check (differential, bounded by the generator)",
    "the harness (/verif/harness) and hook module report what the code does",
]


def sh(cmd, cwd=None, env=None, timeout=None, input_bytes=None):
    e = dict(os.environ)
    e["CARGO_NET_OFFLINE"] = "true"
    if env:
        e.update(env)
    p = subprocess.run(cmd, cwd=cwd, env=e, stdout=subprocess.PIPE, stderr=subprocess.PIPE,
                       timeout=timeout, input=input_bytes)
    return p.returncode, p.stdout.decode("utf-8", "replace"), p.stderr.decode("utf-8", "replace")


def strip_lean_comments(src):
    # remove nested block comments and line comments (good enough for the forbidden-token scan)
    out = []
    i, depth, n = 0, 0, len(src)
    while i < n:
        if src.startswith("/-", i):
            depth += 1
            i += 2
        elif depth and src.startswith("-/", i):
            depth -= 1
            i += 2
        elif depth:
            i += 1
        elif src.startswith("--", i):
            while i < n and src[i] != "\n":
                i += 1
        else:
            out.append(src[i])
            i += 1
    return "".join(out)


class Ctx:
    def __init__(self, pid, tier, seed, level, replay=None):
        self.pid = pid
        self.tier = tier
        self.seed = seed
        self.level = level
        self.replay_in = replay
        self.t0 = time.time()
        self.scratch = f"/var/tmp/verif-scratch-{os.getpid()}"
        os.makedirs(self.scratch, exist_ok=True)
        atexit.register(lambda: shutil.rmtree(self.scratch, ignore_errors=True))
        self.obligations = []       # (name, ok, detail)
        self.violations = 0
        self.known_hits = []
        self.coverage = {"samples": []}
        self.assumptions = []
        self.broken = []            # names of obligations / correspondences that no longer check
        self.concrete_found = False
        try:
            self.known = json.load(open(os.path.join(VERIF, "known_findings.json")))
        except FileNotFoundError:
            self.known = {"findings": [], "fixed": []}
        self.log(f"check {pid} tier={tier} seed={seed}")

    # ------------------------------------------------------------------ utilities
    def log(self, msg):
        print(f"[{self.pid} +{time.time() - self.t0:6.1f}s] {msg}", flush=True)

    def quick(self):
        return self.tier == "quick"

    def vol(self, q, t):
        return q if self.tier == "quick" else t

    # ------------------------------------------------------------------ obligations
    def oblige(self, name, ok, detail=""):
        self.obligations.append((name, bool(ok), detail))
        if not ok:
            self.broken.append(name)
            self.log(f"OBLIGATION BROKEN: {name} {detail[:2000]}")
        return ok

    def lean_build(self, targets):
        """lake build of the given targets (modules and/or exes). One obligation."""
        t = time.time()
        rc, out, err = sh(["lake", "build"] + targets, cwd=LEAN, timeout=3600)
        ok = rc == 0
        self.oblige("lake build " + " ".join(targets), ok, (out + err)[-3000:])
        self.log(f"lake build {' '.join(targets)}: rc={rc} ({time.time() - t:.1f}s)")
        return ok

    def lean_audit(self, module, theorems):
        """#print axioms on every registered theorem; forbidden-token scan of the project."""
        src = f"import {module}\n" + "".join(f"#print axioms {t}\n" for t in theorems)
        path = os.path.join(self.scratch, "Audit.lean")
        open(path, "w").write(src)
        rc, out, err = sh(["lake", "env", "lean", path], cwd=LEAN, timeout=1800)
        text = out + err
        # parse "'name' depends on axioms: [a, b]" / "'name' does not depend on any axioms"
        found = {}
        for m in re.finditer(r"'([^']+)' depends on axioms: \[([^\]]*)\]", text, re.S):
            found[m.group(1)] = {a.strip() for a in m.group(2).replace("\n", " ").split(",") if a.strip()}
        for m in re.finditer(r"'([^']+)' does not depend on any axioms", text):
            found[m.group(1)] = set()
        allok = True
        for t in theorems:
            key = next((k for k in found if k == t or k.endswith("." + t) or t.endswith("." + k)), None)
            if key is None:
                allok &= self.oblige(f"theorem {t}", False, "not found / does not elaborate: " + text[-1500:])
            else:
                bad = found[key] - ALLOWED_AXIOMS
                allok &= self.oblige(f"theorem {t}", not bad, f"axioms {sorted(found[key])}")
        # forbidden tokens anywhere in the project sources
        hits = []
        for p in self._import_closure(module):
            body = strip_lean_comments(open(p).read())
            for m in FORBIDDEN.finditer(body):
                hits.append(f"{p}: {m.group(0).strip()}")
        allok &= self.oblige("no sorry/admit/axiom/native_decide/bv_decide/implemented_by/unsafe/maxHeartbeats 0",
                             not hits, "; ".join(hits[:10]))
        self.coverage.setdefault("theorems", []).extend(theorems)
        return allok

    def _import_closure(self, module):
        """source files of `module` and everything of this project it imports, transitively"""
        seen, todo, files = set(), [module], []
        while todo:
            m = todo.pop()
            if m in seen:
                continue
            seen.add(m)
            path = os.path.join(LEAN, m.replace(".", "/") + ".lean")
            if not os.path.exists(path):
                continue
            files.append(path)
            for imp in re.findall(r"^\s*(?:public\s+)?import\s+(LalrpopModel\.[A-Za-z0-9_.]+)", open(path).read(), re.M):
                todo.append(imp)
        return files

    def leanchecker(self, module):
        rc, out, err = sh(["lake", "env", "leanchecker", module], cwd=LEAN, timeout=3600)
        return self.oblige(f"leanchecker {module}", rc == 0, (out + err)[-1500:])

    # ------------------------------------------------------------------ harness
    def build_harness(self, bins, features=None):
        t = time.time()
        cmd = ["cargo", "build", "--offline"]
        for b in bins:
            cmd += ["--bin", b]
        rc, out, err = sh(cmd, cwd=HARNESS, timeout=3600)
        self.log(f"cargo build {' '.join(bins)}: rc={rc} ({time.time() - t:.1f}s)")
        if rc != 0:
            # /repo no longer compiles with the hooks: cannot decide anything
            print(err[-4000:])
            self.fatal("harness does not build against /repo's working tree")
        return [os.path.join(HARNESS, "target", "debug", b) for b in bins]

    def run_harness(self, binpath, args, timeout=3600, env=None):
        rc, out, err = sh([binpath] + [str(a) for a in args], timeout=timeout, env=env)
        if rc != 0:
            self.log(f"harness {binpath} rc={rc}: {err[-2000:]}")
        return rc, out, err

    def lpm(self, exe, req_path, out_path, timeout=3600):
        exe_path = os.path.join(LEAN, ".lake", "build", "bin", exe)
        with open(req_path, "rb") as fin, open(out_path, "wb") as fout:
            p = subprocess.run([exe_path], stdin=fin, stdout=fout, stderr=subprocess.PIPE, timeout=timeout)
        if p.returncode != 0:
            self.log(f"{exe} rc={p.returncode}: {p.stderr.decode()[-1000:]}")
        return p.returncode

    def correspond(self, name, exe, stem, outdir=None, max_report=5):
        """Pipe <stem>.req through the Lean driver and diff with <stem>.impl.
        Returns the list of disagreements as dicts (index, req, impl, model)."""
        outdir = outdir or self.scratch
        req = os.path.join(outdir, stem + ".req")
        imp = os.path.join(outdir, stem + ".impl")
        mod = os.path.join(outdir, stem + ".model")
        rc = self.lpm(exe, req, mod)
        reqs = open(req, encoding="utf-8", errors="replace").read().split("\n")
        imps = open(imp, encoding="utf-8", errors="replace").read().split("\n")
        mods = open(mod, encoding="utf-8", errors="replace").read().split("\n")
        if reqs and reqs[-1] == "":
            reqs.pop()
        if imps and imps[-1] == "":
            imps.pop()
        if mods and mods[-1] == "":
            mods.pop()
        dis = []
        n = len(reqs)
        for i in range(n):
            a = imps[i] if i < len(imps) else "<missing>"
            b = mods[i] if i < len(mods) else "<missing>"
            if a != b:
                dis.append({"index": i, "req": reqs[i], "impl": a, "model": b})
        badop = sum(1 for m in mods if m == "bad-op")
        self.coverage["traces_validated_against_impl"] = self.coverage.get("traces_validated_against_impl", 0) + n
        self.coverage.setdefault("correspondences", {})[name] = {
            "cases": n, "disagreements": len(dis), "model_bad_op": badop, "driver_rc": rc}
        ok = (rc == 0 and not dis and len(imps) == n and len(mods) == n)
        self.oblige(f"correspondence {name} ({n} cases)", ok,
                    json.dumps(dis[:max_report])[:3000])
        if n:
            self.coverage["samples"].append({"correspondence": name, "req": reqs[0], "impl": imps[0] if imps else None})
            if n > 1:
                self.coverage["samples"].append({"correspondence": name, "req": reqs[n // 2], "impl": imps[n // 2] if len(imps) > n // 2 else None})
        return dis

    # ------------------------------------------------------------------ results
    def _write_replay(self, obj):
        os.makedirs(os.path.join(VERIF, "replays"), exist_ok=True)
        blob = json.dumps(obj, indent=1, sort_keys=True, ensure_ascii=False)
        h = hashlib.sha256(blob.encode()).hexdigest()[:12]
        path = os.path.join(VERIF, "replays", f"{self.pid}-{h}.json")
        open(path, "w").write(blob + "\n")
        return path

    def is_known(self, fingerprint):
        for f in self.known.get("findings", []):
            if f.get("property") == self.pid and f.get("fingerprint") == fingerprint:
                return f
        return None

    def failing_input(self, fingerprint, what, replay):
        """A concrete input on which the PROPERTY fails on the implementation."""
        k = self.is_known(fingerprint)
        if k is None:
            # (a known finding does not excuse an obligation that broke for another reason)
            self.concrete_found = True
        if k is not None:
            if fingerprint not in self.known_hits:
                self.known_hits.append(fingerprint)
                print(f"KNOWN-FINDING: property={self.pid} {k.get('what', what)}", flush=True)
            return
        replay = dict(replay)
        replay.update({"property": self.pid, "kind": "property-fails-on-implementation",
                       "fingerprint": fingerprint, "what": what, "seed": self.seed, "tier": self.tier,
                       "rerun": f"/verif/bin/check {self.pid} --replay <this file>"})
        self.violations += 1
        if self.violations > 3:      # enough replays for one run; the count is in the evidence
            return
        path = self._write_replay(replay)
        print(f"VIOLATION property={self.pid} replay={path}", flush=True)

    def fatal(self, msg):
        path = self._write_replay({"property": self.pid, "kind": "infrastructure", "what": msg,
                                   "broken": self.broken})
        self.violations += 1
        print(f"VIOLATION property={self.pid} replay={path} no-failing-input-found", flush=True)
        self.finish()

    def finish(self):
        """Emit the no-failing-input-found violation if obligations broke and nothing concrete was
        found, write evidence, exit."""
        if self.broken and not self.concrete_found:
            details = [{"obligation": n, "detail": d} for (n, ok, d) in self.obligations if not ok]
            path = self._write_replay({"property": self.pid, "kind": "obligation-no-longer-checks",
                                       "what": "proof obligation / correspondence broken; search found no input on which the property itself fails",
                                       "broken": details, "seed": self.seed, "tier": self.tier})
            self.violations += 1
            print(f"VIOLATION property={self.pid} replay={path} no-failing-input-found", flush=True)
        elif self.broken and self.concrete_found and self.violations == 0:
            # obligations broke only through known findings: fine
            pass
        n_ob = len(self.obligations)
        n_ok = sum(1 for (_, ok, _) in self.obligations if ok)
        cov = self.coverage
        cov["obligations"] = n_ob
        cov["discharged"] = n_ok
        cov.setdefault("checker_cmd", f"cd /verif/lean && lake build && lake env lean <audit with #print axioms>; /verif/bin/check {self.pid}")
        cov.setdefault("trusted_base", TRUSTED_BASE)
        cov["obligation_list"] = [{"name": n, "ok": ok} for (n, ok, _) in self.obligations]
        cov["known_findings_hit"] = self.known_hits
        if not cov["samples"]:
            cov["samples"] = [{"obligation": n} for (n, _, _) in self.obligations[:3]] or ["none"]
        ev = {
            "property_id": self.pid, "tier": self.tier, "seed": self.seed, "level": self.level,
            "coverage": cov, "assumptions": self.assumptions,
            "wall_s": round(time.time() - self.t0, 2), "violations": self.violations,
        }
        os.makedirs(os.path.join(VERIF, "evidence"), exist_ok=True)
        json.dump(ev, open(os.path.join(VERIF, "evidence", f"{self.pid}.json"), "w"), indent=1, ensure_ascii=False)
        self.log(f"done: obligations {n_ok}/{n_ob}, violations {self.violations}, known {len(self.known_hits)}")
        sys.stdout.flush()
        sys.exit(1 if self.violations else 0)
