"""C12 — precedence and associativity annotations yield the documented operator grammar."""
import json
import os

LEVEL = "proof"
MANIFEST = {
    "category": "proof",
    "technique": "Lean 4 theorems over a hand model of normalize/precedence (expand_nonterm, replace_symbols) "
                 "+ differential correspondence with the real pass through the stage-dump hooks",
    "text": "The model mirrors expand_nonterm/replace_symbol control flow (attribute stripping, level/assoc fold, "
            "sort+dedup, partition per level, OneThen/Every plans forward and backward through groups, repeats, "
            "bindings and macro arguments, panics as explicit outcomes). Proved for all inputs: inherit_spec "
            "(effective level/associativity), replace_every/first/last (occurrence numbering spec), "
            "expand_eq_tiered_spec (expansion = the book's tiered grammar written declaratively), expand_items_spec. "
            "Every run feeds the real dump after `resolve` of random annotated nonterminals to the compiled model and "
            "compares with the real dump after `precedence` (validated pipeline and, for malformed attribute "
            "layers, the pass without prevalidation incl. panic kinds). The behavioural half (the tiers parse like a "
            "precedence-climbing parser) is exercised on compiled random operator grammars.",
    "note": "Trusted: Lean kernel (axioms propext/Classical.choice/Quot.sound only); the hand model's fidelity as far as "
            "the correspondence run exercises it; the S-expression printer of the hook; that the LR construction "
            "preserves the language of the expanded grammar (C01/C02) for the step from tiers to parse trees.",
}
MODULE = "LalrpopModel.Props.C12"
P = "LalrpopModel.Prec."
THEOREMS = [P + t for t in [
    "inherit_spec", "annotate_total_iff", "replace_every", "replace_first", "replace_last",
    "substAtL_self", "expand_eq_tiered_spec", "tierName_top", "tier_levels", "expand_items_spec",
]]


def run(ctx):
    ctx.lean_build([MODULE, "lpm_prec"])
    ctx.lean_audit(MODULE, THEOREMS)
    if not ctx.quick():
        ctx.leanchecker(MODULE)
    (exe,) = ctx.build_harness(["prec"])
    args = ["--seed", ctx.seed, "--out", ctx.scratch]
    if ctx.replay_in:
        rp = json.load(open(ctx.replay_in))
        gpath = os.path.join(ctx.scratch, "replay.lalrpop")
        open(gpath, "w").write(rp.get("grammar", ""))
        args += ["--replay", gpath]
    else:
        args += ["--n", ctx.vol(4000, 80000)]
    rc, out, err = ctx.run_harness(exe, args)
    if rc != 0:
        ctx.fatal("harness prec failed: " + err[-500:])
    stats = json.loads(out.strip().splitlines()[-1])
    ctx.coverage.update({
        "evaluations": stats["cases"],
        "distinct_nontrivial": stats["distinct_nontrivial"],
        "rule": "one evaluation = one grammar through one pass (expand or validate) on both sides; distinct = distinct "
                "request lines (FNV of the S-expression); non-trivial = expansions that produce at least one extra tier "
                "or a panic, and validator verdicts other than ok. Random annotated nonterminals: 1-7 alternatives; "
                "binary/prefix/postfix/ternary/paren/mixed/atomic shapes; recursive occurrences wrapped in ?,*,+, groups, "
                "<>, <n:>, <(a,b):>, macro arguments, nested; level values incl. +2, 007, 4294967295; interleaved "
                "order; inherited levels; own/missing assoc; every third grammar with malformed attribute layers "
                "(expanded without prevalidation); 1/12 annotated macro definitions",
        "exhaustive": False,
        "generator_distribution": stats["hist"],
        "validated_pipeline_panics_seen": stats["pipeline_panics"],
    })
    dis = ctx.correspond("precedence pass + validate_precedence vs Model.Prec", "lpm_prec", "prec")
    # expand_eq_tiered_spec: where the model answers `ok`, its answer IS the documented tiered grammar,
    # so a differing implementation answer is an input on which C12 fails.
    grammars = {}
    for d in dis[:50]:
        if d["req"].startswith("expand ") and d["model"].startswith("ok "):
            ctx.failing_input(
                "prec-expand:" + d["req"][:200],
                "expansion of an annotated nonterminal differs from the documented tiered grammar",
                {"request": d["req"], "implementation": d["impl"], "documented_tiers_by_model": d["model"],
                 "protocol": "S-expressions of verif_hooks::sexp (strings are x<hex>); request = grammar after resolve",
                 "how": "harness/target/debug/hook stage precedence <grammar>; lean/.lake/build/bin/lpm_prec < request"})
    # ---- behaviour: compiled random operator grammars vs the precedence-climbing oracle
    if not ctx.replay_in:
        k, m = ctx.vol(30, 300), 40
        rc, out, err = ctx.run_harness(exe, ["--seed", ctx.seed, "--out", ctx.scratch, "--e2e", k, m], timeout=7200)
        if rc != 0:
            ctx.fatal("harness prec --e2e failed: " + err[-500:])
        e2e = json.load(open(os.path.join(ctx.scratch, "prece2e.stats.json")))
        ctx.oblige("behavioural runs: the generated parsers compile (rustc)", not e2e["build_error"], e2e["build_error"][-1500:])
        ctx.oblige("behavioural runs: lalrpop accepts every one-kind-per-level operator grammar",
                   e2e["rejected"] == 0, json.dumps(e2e["hist"]))
        edis = ctx.correspond("compiled operator grammars vs precedence-climbing oracle", "lpm_prec", "prece2e")
        ctx.coverage["evaluations"] += e2e["compared"]
        ctx.coverage["behavioural_runs"] = {
            "grammars": e2e["grammars"], "accepted": e2e["accepted"], "inputs_parsed": e2e["compared"],
            "distribution": e2e["hist"],
            "rule": "random nonterminals: 1-4 operator levels above the atoms, arbitrary level numbers, each level one kind "
                    "(binary left/right/none, prefix all/left/right/none, postfix all/left/right/none) with 1-2 operators; "
                    "alternatives grouped per level with inherited level/assoc, or interleaved with explicit attributes; "
                    "`[ E ]` alternative on the lowest level, `( E )` through a separate nonterminal; inputs: random "
                    "expressions (depth <= 4) over the grammar's tokens, 1/8 damaged; parse tree rendered by the actions "
                    "must equal the oracle's tree, errors must coincide"}
        if edis:
            grammars = {g["spec"]: g["grammar"] for g in json.load(open(os.path.join(ctx.scratch, "prece2e.grammars.json")))}
            for d in edis[:5]:
                spec = d["req"].split(" ")[1]
                ctx.coverage["samples"].append({"behaviour_disagreement": d, "grammar": grammars.get(spec)})
    ctx.assumptions += [
        "the second `resolve` inside expand_precedence is the identity on an already resolved grammar (exercised: the "
        "model is fed the dump after `resolve` and must reproduce the dump after `precedence`)",
        "from tiers to parse trees: LR construction and driver are language preserving (C01/C02); exercised end to end "
        "by the behavioural runs, whose oracle (Model/PrecClimb.lean, descent by levels) is independent of the model of "
        "expand_nonterm but is itself not proved equal to the tiers' language",
    ]
