"""C20 — code generation is deterministic."""
import json
import os
import re

from checks import common

LEVEL = "proof"
MANIFEST = {
    "category": "proof",
    "technique": "Lean 4 theorem about an order-abstract hash container + source-fact table regenerated from "
                 "/repo/lalrpop/src on every run and closed by `decide` + multi-process / batch byte-equality runs",
    "text": "Model/HashOrder.lean: a hash container whose placement of new entries and rearrangement after every "
            "mutation are an arbitrary parameter (stands for RandomState, bucket layout, growth history); programs are "
            "interaction trees over its methods. Props/C20.lean proves lookup_only_program_order_independent: a "
            "program without order-exposing operations returns the same result under any two order parameters "
            "(order_safe_program_order_independent: also when it iterates but only through permutation-invariant consumers). "
            "checks/c20.py re-extracts from the current source every use of every HashMap/HashSet-typed binding (field, "
            "local, parameter) with file:line into Gen/HashOps.lean, where all_ops_lookup_only (decide) shows each use is "
            "in the lookup-only vocabulary or is the one reviewed exception (tyinfer: self.nonterminals.keys()), covered "
            "by infer_order_independent_partial; every mention of HashMap/HashSet in the code must be accounted for by "
            "the table. The run then generates a corpus of grammars in fresh processes (fresh RandomState each) and "
            "repeatedly in-process, alone and inside process_dir batches of different composition and file order, and "
            "compares the bytes.",
    "note": "The translator is lexical (regular expressions over rustfmt-formatted code): it is conservative — unknown "
            "methods, escapes to untracked code and unaccounted mentions of the types break the obligation — but it is "
            "trusted. Hash containers inside dependencies (regex, string_cache, petgraph, …) are covered only by the "
            "byte-equality runs. infer_order_independent_partial assumes that nonterminal_type computes an "
            "order-independent type and excludes runs that end in an error.",
}
MODULE = "LalrpopModel.Props.C20"
P = "LalrpopModel.HashOrder."
THEOREMS = [P + t for t in [
    "lookup_only_program_order_independent", "lookup_only_result_independent", "infer_order_independent_partial",
    "lookup_sim", "insert_sim", "remove_sim",
    "order_safe_program_order_independent", "Prog.LookupOnly.orderSafe",
]] + ["LalrpopModel.Gen.HashOps.all_ops_lookup_only", "LalrpopModel.Gen.HashOps.exceptions_reviewed"]

SRC = os.path.join(common.REPO, "lalrpop", "src")
GEN = os.path.join(common.LEAN, "LalrpopModel", "Gen", "HashOps.lean")

METHODS = {
    "new": "new", "with_capacity": "withCapacity", "default": "default",
    "insert": "insert", "get": "get", "get_mut": "getMut", "contains": "contains", "contains_key": "containsKey",
    "entry": "entry", "or_insert": "orInsert", "or_insert_with": "orInsertWith", "or_default": "orDefault",
    "remove": "remove", "len": "len", "is_empty": "isEmpty", "clear": "clear", "clone": "clone",
    "iter": "iter", "iter_mut": "iterMut", "keys": "keys", "values": "values", "values_mut": "valuesMut",
    "into_iter": "intoIter", "drain": "drain", "retain": "retain", "extend": "extendInto",
}
HASH_TY = r"(?:std::collections::)?Hash(?:Map|Set)\b"
# the one reviewed exception: (file suffix, binding, method, required text of the line)
EXCEPTION = ("normalize/tyinfer/mod.rs", "nonterminals", "keys",
             "let ids: Vec<NonterminalString> = self.nonterminals.keys().cloned().collect();")


def strip_comments(text):
    """blank out // comments, /* */ comments and string literals, keeping line structure"""
    out, i, n = [], 0, len(text)
    while i < n:
        if text.startswith("//", i):
            while i < n and text[i] != "\n":
                out.append(" ")
                i += 1
        elif text.startswith("/*", i):
            depth = 0
            while i < n:
                if text.startswith("/*", i):
                    depth += 1
                    out.append("  ")
                    i += 2
                elif text.startswith("*/", i):
                    depth -= 1
                    out.append("  ")
                    i += 2
                    if depth == 0:
                        break
                else:
                    out.append("\n" if text[i] == "\n" else " ")
                    i += 1
        elif text[i] == '"':
            out.append('"')
            i += 1
            while i < n and text[i] != '"':
                if text[i] == "\\":
                    out.append(" ")
                    i += 1
                out.append("\n" if i < n and text[i] == "\n" else " ")
                i += 1
            out.append('"')
            i += 1
        else:
            out.append(text[i])
            i += 1
    return "".join(out)


def source_files():
    res = []
    for root, _, files in os.walk(SRC):
        for f in sorted(files):
            if not f.endswith(".rs"):
                continue
            rel = os.path.relpath(os.path.join(root, f), SRC)
            base = os.path.basename(rel)
            if rel == "parser/lrgrammar.rs" or base.startswith("test") or "verif_hooks" in rel or "/test/" in "/" + rel:
                continue
            res.append(rel)
    return sorted(res)


def extract():
    """-> (files, bindings, ops) ; ops = (file idx, line, binding idx, Meth constructor, exception flag, text)"""
    files, bindings, ops = [], [], []
    def bidx(name):
        if name not in bindings:
            bindings.append(name)
        return bindings.index(name)
    for rel in source_files():
        raw = open(os.path.join(SRC, rel), encoding="utf-8").read()
        code = strip_comments(raw)
        if not re.search(r"Hash(?:Map|Set)\b", code):
            continue
        files.append(rel)
        fi = len(files) - 1
        lines = code.split("\n")
        raw_lines = raw.split("\n")
        # ---- bindings typed or constructed as hash containers in this file
        typed = {}      # name -> set of kinds: field / local / param
        owner = {}      # field name -> struct that declares it
        accounted = set()
        for ln, line in enumerate(lines, 1):
            if re.match(r"\s*use\s", line):
                accounted.add(ln)
                continue
            for m in re.finditer(r"\b(\w+)\s*:\s*&?\s*(?:'\w+\s+)?(?:mut\s+)?" + HASH_TY, line):
                name = m.group(1)
                before = line[:m.start()]
                if re.search(r"\blet\s+(?:mut\s+)?$", before):
                    kind = "local"
                elif re.search(r"[(,]\s*(?:mut\s+)?$", before) or re.match(r"^\s*(?:mut\s+)?$", before) and not line.rstrip().endswith(";") and "fn " not in line and re.search(r"^\s+\w+: &", line):
                    kind = "param"
                elif re.match(r"^\s*(?:pub(?:\([^)]*\))?\s+)?$", before):
                    # `name: Type,` on its own line: struct field or (multi-line) fn parameter
                    kind = "param" if re.search(r":\s*&", line[m.start():]) else "field"
                else:
                    kind = "param"
                typed.setdefault(name, set()).add(kind)
                if kind == "field":
                    # the struct whose body contains this line
                    for back in range(ln - 1, 0, -1):
                        sm = re.match(r"\s*(?:pub(?:\([^)]*\))?\s+)?struct\s+(\w+)", lines[back - 1])
                        if sm:
                            owner[name] = sm.group(1)
                            break
                ops.append((fi, ln, bidx(name), "decl", False, raw_lines[ln - 1].strip()))
                accounted.add(ln)
            for m in re.finditer(r"\blet\s+(?:mut\s+)?(\w+)\s*=\s*" + HASH_TY + r"::(\w+)", line):
                typed.setdefault(m.group(1), set()).add("local")
                ops.append((fi, ln, bidx(m.group(1)), METHODS.get(m.group(2), "unknown"), False, raw_lines[ln - 1].strip()))
                accounted.add(ln)
            # struct literal field initialised with a constructor: `name: HashSet::new(),`
            for m in re.finditer(r"\b(\w+)\s*:\s*" + HASH_TY + r"::(\w+)\s*\(", line):
                ops.append((fi, ln, bidx(m.group(1)), METHODS.get(m.group(2), "unknown"), False, raw_lines[ln - 1].strip()))
                accounted.add(ln)
        # ---- every remaining mention of the types must be accounted for
        for ln, line in enumerate(lines, 1):
            if re.search(r"Hash(?:Map|Set)\b", line) and ln not in accounted:
                ops.append((fi, ln, bidx("<type mention>"), "unaccounted", False, raw_lines[ln - 1].strip()))
        if re.search(r"->\s*" + HASH_TY, code) or re.search(r"\btype\s+\w+\s*(?:<[^>]*>)?\s*=\s*" + HASH_TY, code):
            ops.append((fi, 0, bidx("<returns or aliases a hash container>"), "unaccounted", False, ""))
        # ---- uses of the bindings
        def stmt_of(after):
            """text up to the `;` that ends the statement (depth 0)"""
            depth = 0
            for k, ch in enumerate(after):
                if ch in "([{":
                    depth += 1
                elif ch in ")]}":
                    depth -= 1
                    if depth < 0:
                        return after[:k]
                elif ch == ";" and depth == 0:
                    return after[:k]
            return after
        joined = code
        offsets = [0]
        for l in lines:
            offsets.append(offsets[-1] + len(l) + 1)
        def line_of(pos):
            lo, hi = 0, len(offsets) - 1
            while lo < hi:
                mid = (lo + hi) // 2
                if offsets[mid + 1] <= pos:
                    lo = mid + 1
                else:
                    hi = mid
            return lo + 1
        # declaration spans: for a typed `let`, the whole statement (occurrences of the same name in its
        # initialiser refer to the shadowed, earlier variable); for fields/params just the declaration itself
        decl_spans = {}
        for dm in re.finditer(r"\b(\w+)\s*:\s*&?\s*(?:'\w+\s+)?(?:mut\s+)?" + HASH_TY, joined):
            name = dm.group(1)
            end = dm.end()
            if re.search(r"\blet\s+(?:mut\s+)?$", joined[:dm.start()]):
                end = dm.end() + len(stmt_of(joined[dm.end():]))
            decl_spans.setdefault(name, []).append((dm.start(), end))
        for dm in re.finditer(r"\blet\s+(?:mut\s+)?(\w+)\s*=\s*" + HASH_TY + r"::\w+", joined):
            decl_spans.setdefault(dm.group(1), []).append((dm.start(1), dm.end()))
        # functions of this file that take a hash container, structs of this file that own one
        fn_hash_param = set()
        for fm in re.finditer(r"\bfn\s+(\w+)\s*(?:<[^>]*>)?\s*\(", joined):
            depth, k = 1, fm.end()
            while k < len(joined) and depth:
                depth += joined[k] == "("
                depth -= joined[k] == ")"
                k += 1
            if re.search(HASH_TY, joined[fm.end():k]):
                fn_hash_param.add(fm.group(1))
        def enclosing_call(pos):
            """name of the function / struct whose argument list / literal encloses pos, and the bracket"""
            depth = 0
            k = pos - 1
            while k >= 0:
                ch = joined[k]
                if ch in ")]}":
                    depth += 1
                elif ch in "([{":
                    if depth == 0:
                        nm = re.search(r"(\w+)\s*(?:::<[^>]*>)?\s*$", joined[:k])
                        return (nm.group(1) if nm else None), ch
                    depth -= 1
                k -= 1
            return None, None
        def stmt_of(after):
            """text up to the `;` that ends the statement (depth 0)"""
            depth = 0
            for k, ch in enumerate(after):
                if ch in "([{":
                    depth += 1
                elif ch in ")]}":
                    depth -= 1
                    if depth < 0:
                        return after[:k]
                elif ch == ";" and depth == 0:
                    return after[:k]
            return after
        def receiver_type(recv, pos):
            """declared type of a variable/parameter `recv` (last declaration before pos), if visible lexically"""
            best = None
            for dm in re.finditer(r"\b" + re.escape(recv) + r"\s*:\s*&?\s*(?:'\w+\s+)?(?:mut\s+)?(\w+)", joined[:pos]):
                best = dm.group(1)
            for dm in re.finditer(r"\blet\s+(?:mut\s+)?" + re.escape(recv) + r"\s*=\s*(\w+)\s*::", joined[:pos]):
                best = dm.group(1)
            return best
        for name, kinds in typed.items():
            for m in re.finditer(r"\b" + re.escape(name) + r"\b", joined):
                ln = line_of(m.start())
                if any(a <= m.start() < b for a, b in decl_spans.get(name, [])):
                    continue
                before = joined[:m.start()]
                after = joined[m.end():]
                text = raw_lines[ln - 1].strip()
                prev = re.search(r"(\w+)\s*\.\s*$", before)
                if prev:
                    recv = prev.group(1)
                    if "field" not in kinds:
                        continue       # `x.name`: a field of some other value that happens to share the name
                    if recv != "self":
                        rt = receiver_type(recv, m.start())
                        if rt is not None and rt != owner.get(name):
                            continue   # a field of a different struct (e.g. `grammar.type_parameters`, a Vec)
                elif re.search(r"\blet\s*\([^=;]*$", before):
                    continue           # introduced by a tuple pattern: a new (unannotated, non-hash) variable
                am = re.match(r"\s*\.\s*(\w+)\s*(?:::<[^>]*>)?\s*\(", after)
                if am:
                    meth = METHODS.get(am.group(1), "unknown")
                    exc = (rel.endswith(EXCEPTION[0]) and name == EXCEPTION[1] and am.group(1) == EXCEPTION[2]
                           and text == EXCEPTION[3])
                    ops.append((fi, ln, bidx(name), meth, exc, text))
                elif re.match(r"\s*\[", after):
                    ops.append((fi, ln, bidx(name), "index", False, text))
                elif re.search(r"\bin\s+(?:&\s*(?:mut\s+)?)?(?:self\s*\.\s*)?$", before):
                    ops.append((fi, ln, bidx(name), "forLoop", False, text))
                elif re.match(r"\s*:", after) and not re.match(r"\s*::", after):
                    continue       # `name: value` in a struct literal / pattern (not typed as a hash container)
                elif re.search(r"\blet\s+(?:mut\s+)?$", before) and re.match(r"\s*=", after):
                    # `let name = …;` without annotation, later moved into the typed field of that name:
                    # it must be built by collect() from an ordered source
                    ops.append((fi, ln, bidx(name), "collectInto" if re.search(r"\.\s*collect\s*(?:::<[^>]*>)?\s*\(\s*\)\s*$", stmt_of(after)) else "unknown", False, text))
                elif re.search(r"[(,{]\s*&?\s*(?:mut\s+)?(?:self\s*\.\s*)?$", before) and re.match(r"\s*[,)}]", after):
                    # passed to a function / moved into a struct literal: fine if this file declares a parameter
                    # or field of that name typed as a hash container (its uses are then in this table)
                    callee, bracket = enclosing_call(m.start())
                    tracked = ((bracket == "(" and callee in fn_hash_param) or
                               (bracket == "{" and callee is not None and owner.get(name) == callee) or
                               (bracket == "(" and callee == "new" and "field" in kinds))
                    ops.append((fi, ln, bidx(name), "passToTracked" if tracked else "escape", False, text))
                else:
                    ops.append((fi, ln, bidx(name), "escape", False, text))
        # typed lets built by collect(): `let x: HashMap<_, _> = … .collect();`
    return files, bindings, ops


def write_gen(files, bindings, ops):
    def s(x):
        return '"' + x.replace("\\", "\\\\").replace('"', '\\"') + '"'
    lines = ["import LalrpopModel.Model.HashOrder",
             "/-! GENERATED by checks/c20.py from /repo/lalrpop/src on every run — do not edit.",
             "Every use of every `HashMap`/`HashSet`-typed binding (and every mention of the types). -/",
             "namespace LalrpopModel.Gen.HashOps",
             "open LalrpopModel.HashOrder",
             "",
             "def files : List String := [" + ", ".join(s(f) for f in files) + "]",
             "def bindings : List String := [" + ", ".join(s(b) for b in bindings) + "]",
             "",
             "def ops : List SiteOp := ["]
    body = []
    for (fi, ln, bi, meth, exc, text) in ops:
        body.append(f"  ⟨{fi}, {ln}, {bi}, .{meth}, {'true' if exc else 'false'}⟩  -- {files[fi]}:{ln} {bindings[bi]}: {text[:90]}")
    lines.append(",\n".join(b.split("  --")[0] + ("" ) for b in body) if False else "")
    # keep the comments: one element per line, comma before the comment
    out = []
    for k, b in enumerate(body):
        code, comment = b.split("  --", 1)
        out.append(code + ("," if k + 1 < len(body) else "") + "  --" + comment)
    lines[-1] = "\n".join(out)
    lines += ["]",
              "",
              "/-- every use is in the lookup-only vocabulary, or is flagged as the reviewed exception -/",
              "theorem all_ops_lookup_only : ops.all (fun o => o.meth.lookupOnly || o.exception) = true := by decide",
              "",
              "/-- at most one exception, and it is a `keys()` call -/",
              "theorem exceptions_reviewed :",
              "    (ops.filter (·.exception)).length ≤ 1 ∧ (ops.filter (·.exception)).all (·.meth == .keys) = true := by decide",
              "",
              "end LalrpopModel.Gen.HashOps", ""]
    os.makedirs(os.path.dirname(GEN), exist_ok=True)
    open(GEN, "w").write("\n".join(lines))


def run(ctx):
    files, bindings, ops = extract()
    write_gen(files, bindings, ops)
    ctx.log(f"regenerated Gen/HashOps.lean: {len(ops)} uses of {len(bindings)} bindings in {len(files)} files")
    ctx.lean_build([MODULE])
    ctx.lean_audit(MODULE, THEOREMS)
    if not ctx.quick():
        ctx.leanchecker(MODULE)
    bad = [o for o in ops if o[3] in ("escape", "unknown", "unaccounted") or
           (o[3] in ("iter", "iterMut", "keys", "values", "valuesMut", "intoIter", "drain", "retain", "forLoop",
                     "extendInto", "debugFmt") and not o[4])]
    ctx.coverage["hash_container_uses"] = [
        {"site": f"{files[o[0]]}:{o[1]}", "binding": bindings[o[2]], "use": o[3], "exception": o[4], "text": o[5][:120]}
        for o in ops]
    ctx.coverage["order_exposing_or_unclassified_uses"] = [f"{files[o[0]]}:{o[1]} {bindings[o[2]]}.{o[3]}" for o in bad]
    ctx.oblige("the reviewed exception is still present as reviewed (tyinfer: self.nonterminals.keys())",
               sum(1 for o in ops if o[4]) <= 1, "")
    # ---------------------------------------------------------------- byte-equality runs
    (exe,) = ctx.build_harness(["determ"])
    args = ["--seed", ctx.seed, "--n", ctx.vol(40, 200), "--out", ctx.scratch, "--procs", ctx.vol(5, 20)]
    rc, out, err = ctx.run_harness(exe, args, timeout=3000)
    if rc != 0:
        ctx.fatal("harness determ failed: " + err[-500:])
    stats = json.loads(out.strip().splitlines()[-1])
    ctx.oblige("every generation of the same grammar produced the same bytes", stats["differences"] == 0,
               json.dumps(stats.get("first_difference"))[:1000])
    ctx.coverage.update({
        "evaluations": stats["generations"],
        "distinct_nontrivial": stats["distinct_outputs"],
        "rule": "corpus = seeded random grammars (macros, inferred types, several nonterminals, both lexer modes) + "
                "grammars shipped in /repo (lalrpop-test, doc); each generated in fresh processes (fresh RandomState), "
                "repeatedly in one process, alone, under another file name, and inside process_dir batches of different "
                "composition and file order; counted as distinct non-trivial: distinct successfully generated outputs "
                "(by content hash) that were produced at least twice and compared",
        "grammars": stats["grammars"], "processes_per_grammar": stats["procs"], "batches": stats["batches"],
        "failed_grammars_excluded": stats["failed"],
        "generator_distribution": stats["hist"],
    })
    for d in stats.get("difference_list", [])[:3]:
        ctx.failing_input("c20:nondeterministic-output:" + d["how"],
                          f"the same grammar text produced different bytes ({d['how']})", d)
    ctx.assumptions += [
        "the lexical translator finds every HashMap/HashSet-typed binding of lalrpop/src (types named through an alias or "
        "returned from functions are reported as unaccounted and break the obligation)",
        "hash containers inside dependencies are covered by the byte-equality runs only",
        "nonterminal_type computes a type that does not depend on the visiting order (hypotheses of "
        "infer_order_independent_partial)",
    ]
