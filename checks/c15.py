"""C15 — conditional compilation equals deleting the inactive declarations."""
import json
import os

LEVEL = "proof"
MANIFEST = {
    "category": "proof",
    "technique": "Lean 4 theorems over a hand model of cond_comp (cfg_active, remove_disabled_decls), validate_cfg_attr, "
                 "the lower-stage filter and the CARGO_FEATURE_* naming + differential correspondence through the "
                 "stage-dump hooks for every feature subset + model-free text differential (cfg vs textual deletion)",
    "text": "Proved for all predicates/attribute lists/grammars/feature sets: cfg_active_eq_rust_semantics (feature/not/"
            "all/any evaluate like Rust's cfg, features unset = all off), multiple_cfg_conjoined, remove_eq_delete "
            "(remove_disabled_decls = deletion of inactive nonterminals/alternatives/conversions, nothing else touched, "
            "order kept), filter_twice_idem (second filtering in lower), env_feature_names / env_feature_roundtrip / "
            "env_feature_chars / env_feature_not_injective (CARGO_FEATURE_X_Y -> x-y; never `_` or upper case). Every run: "
            "real dump after parse -> compiled model -> compared with the real dump after cond_comp for all 16 subsets of "
            "4 feature names and for features unset (valid and malformed cfg shapes), validate_cfg_attr verdicts, the "
            "environment route observed through process_dir, and real lalrpop on (grammar with cfg, features F) vs "
            "(grammar with inactive items textually deleted) comparing accept/reject and generated code modulo the 2 "
            "header lines, precedence nonterminals with cfg'd first alternatives included.",
    "note": "Trusted: Lean kernel (axioms propext/Classical.choice/Quot.sound only); hand model as far as the "
            "correspondence exercises it; the harness' own 20-line evaluator of cfg predicates used for the textual "
            "deletion. Behavioural equality of the generated parsers is reduced to equality of the generated source.",
}
MODULE = "LalrpopModel.Props.C15"
P = "LalrpopModel.Cfg."
THEOREMS = [P + t for t in [
    "cfg_active_eq_rust_semantics", "testFeat_toAttr", "multiple_cfg_conjoined", "non_cfg_ignored", "cfg_cons",
    "no_cfg_active", "remove_eq_delete", "surviving_alternatives", "surviving_alternatives_sublist",
    "filter_twice_idem", "lower_filter_eq_delete", "env_feature_names", "env_feature_chars", "env_feature_roundtrip",
    "env_feature_not_injective",
]]


def run(ctx):
    ctx.lean_build([MODULE, "lpm_cfg"])
    ctx.lean_audit(MODULE, THEOREMS)
    if not ctx.quick():
        ctx.leanchecker(MODULE)
    (exe,) = ctx.build_harness(["cfg"])
    args = ["--seed", ctx.seed, "--out", ctx.scratch]
    if ctx.replay_in:
        rp = json.load(open(ctx.replay_in))
        gpath = os.path.join(ctx.scratch, "replay.lalrpop")
        open(gpath, "w").write(rp.get("grammar_with_cfg") or rp.get("grammar", ""))
        args += ["--replay", gpath]
    else:
        args += ["--n", ctx.vol(1600, 40000)]
    rc, out, err = ctx.run_harness(exe, args, timeout=7200)
    if rc != 0:
        ctx.fatal("harness cfg failed: " + err[-500:])
    stats = json.load(open(os.path.join(ctx.scratch, "cfg.stats.json")))
    ctx.coverage.update({
        "evaluations": stats["cases"] + stats["differential_runs"],
        "distinct_nontrivial": stats["distinct_nontrivial"],
        "rule": "model tie: one evaluation = one (grammar, feature set) through remove_disabled_decls on both sides, "
                "feature sets = all 16 subsets of {a, b, c-d, e_f} and `unset` (exhaustive per grammar); distinct by FNV of "
                "the request; non-trivial = the pass deleted something (plus all validate_cfg_attr and environment-name "
                "cases). Differential: one run = real process_file on one text; 2 runs per (grammar, feature set)",
        "exhaustive": False,
        "exhaustive_dimension": "feature sets: every subset of the 4 names + unset, per grammar (grammars are random)",
        "generator_distribution": stats["hist"],
        "differential_runs": stats["differential_runs"],
    })
    dis = ctx.correspond("remove_disabled_decls / validate_cfg_attr / CARGO_FEATURE_* vs Model.Cfg", "lpm_cfg", "cfg")
    # remove_eq_delete + cfg_active_eq_rust_semantics: on well-formed predicates the model's answer is the grammar
    # with the inactive declarations deleted, so a different implementation answer is a failing input
    for d in dis[:20]:
        if d["req"].startswith("remove "):
            ctx.failing_input("cfg-remove:" + d["req"][:160],
                              "remove_disabled_decls differs from deleting the inactive declarations",
                              {"request": d["req"], "implementation": d["impl"], "deletion_by_model": d["model"],
                               "protocol": "remove <features: - unset, + empty, x<hex>,..> <S-expression of the parsed grammar>"})
    # model-free differential
    seen = {}
    for m in json.load(open(os.path.join(ctx.scratch, "cfg.diff.json"))):
        if m["with_cfg_stage"] == "error prevalidate" and m["several_cfg_on_nonterminal"] \
                and "duplicate attribute `cfg`" in m["with_cfg_result"]:
            fp = "several-cfg-on-nonterminal-rejected"
            what = ("several #[cfg] attributes on one NONTERMINAL are rejected (`duplicate attribute `cfg``) instead of "
                    "being conjoined (they are conjoined on alternatives and conversions)")
        elif m["verdict"] == "ENV-feature-not-activated":
            fp = "env-feature-mangling-lossy"
            what = ("a Cargo feature whose name contains `_` (here `e_f`, i.e. CARGO_FEATURE_E_F) cannot be matched through the "
                    "environment route: lalrpop turns the variable into `e-f`, so `#[cfg(feature = \"e_f\")]` stays off where "
                    "Rust's cfg(feature = \"e_f\") is on (theorems env_feature_chars / env_feature_not_injective)")
        elif m["with_cfg_stage"] == "error prevalidate":
            fp = "disabled-item-still-prevalidated"
            what = ("a grammar is rejected for an error inside a declaration that its cfg predicate disables "
                    "(prevalidation runs before conditional compilation); the grammar with that declaration deleted is accepted")
        else:
            fp = "diff:" + m["verdict"] + ":" + m["with_cfg_stage"]
            what = "grammar with cfg attributes and grammar with the inactive items deleted behave differently: " + m["verdict"]
        if seen.get(fp, 0) >= 2:
            continue
        seen[fp] = seen.get(fp, 0) + 1
        ctx.failing_input(fp, what, {
            "grammar_with_cfg": m["grammar_with_cfg"], "features": m["features"], "grammar_deleted": m["grammar_deleted"],
            "with_cfg_result": m["with_cfg_result"], "deleted_result": m["deleted_result"], "verdict": m["verdict"],
            "how": "features: - = unset, + = empty set, else comma separated x<hex utf-8>; run /repo/target/debug/lalrpop "
                   "--features <names> on grammar_with_cfg and without features on grammar_deleted; compare exit status and "
                   "generated .rs from line 3 on"})
    ctx.coverage["samples"].append({"differential_finding_kinds": sorted(seen)})
    ctx.assumptions += [
        "equal generated source (from line 3 on) implies equal parser behaviour",
        "`CARGO_FEATURE_*`: Cargo upper-cases feature names and turns `-` into `_`; lalrpop maps back to lower case with `-` "
        "(env_feature_not_injective: a Cargo feature with `_` or upper-case letters cannot be matched by `feature = \"..\"` "
        "through the environment route — known finding env-feature-mangling-lossy, demonstrated on process_dir each run; "
        "explicit set_features has no such limit)",
        "predicates outside Rust's shape (`not(a, b)`, `cfg(a, b)`, unknown keys) are modelled and tied, but the Rust-semantics "
        "theorem speaks about well-formed predicates only",
    ]
