"""C18 — lalrpop never panics: every grammar yields a parser or a diagnostic."""
import json
import os
import re
import subprocess

LEVEL = "proof"
MANIFEST = {
    "category": "proof",
    "technique": "Lean 4 theorem `validate_precedence ok => expand_nonterm does not panic` over hand models of both "
                 "functions (tied to the code by differential correspondence, panic kinds included) + crash-isolated "
                 "search (child processes, catch_unwind, per-case timeout) over mutated grammars and raw strings",
    "text": "Proved for all nonterminals: with the repaired validate_precedence (tracks alternatives that inherit the "
            "minimum level) every unwrap/expect/assert of expand_nonterm is unreachable after validation and the result "
            "is the documented tiered grammar (prevalidated_expand_total); the statement is false for the validator "
            "before the repair (witness kept as a theorem) and was false across #[cfg] removal, which happens after "
            "prevalidation (witness theorem); with the re-validation after conditional compilation now in "
            "lower_helper, re-validation + expand_precedence never panics for any grammar (cfg_then_precedence_total). "
            "file_text.rs: line_col is total and correct and highlight's usize arithmetic/indexing/slicing cannot fail for "
            "any text and any span lo <= hi (highlight_arith_safe), tied to FileText::line_col/highlight on random texts. "
            "Every run re-ties both models to the code on random "
            "annotated grammars and runs the real Configuration::process_file in child processes on mutated corpus "
            "grammars (token deletion/duplication/swap/insert, attribute shuffles, precedence/assoc/cfg layouts incl. "
            "cfg'd first alternatives, bad regexes, macro misuse, unterminated strings/comments, deep nesting) and raw "
            "byte/char strings, with features unset and set; every panic, abort or hang is a failing input.",
    "note": "Trusted: Lean kernel (axioms propext/Classical.choice/Quot.sound only); the hand models as far as the "
            "correspondence exercises them. Passes that are not modelled (parser, resolve, macro_expand, tyinfer, "
            "lower, lr1, code generation) are explored by the search, not proven panic-free.",
}
MODULE = "LalrpopModel.Props.C18"
P = "LalrpopModel.Prec."
THEOREMS = [P + t for t in [
    "prevalidated_expand_total", "prevalidated_expand_no_panic", "prevalidated_expand_total_false_before_fix",
    "fixed_validator_rejects_witness", "cfg_then_precedence_not_total", "cfg_then_precedence_silently_skipped",
    "revalidation_rejects_cfg_witness", "cfg_then_precedence_total", "parseU32_bound",
]] + ["LalrpopModel.FileText.highlight_arith_safe", "LalrpopModel.FileText.line_col_spec"]
STAGES = ["parse", "prevalidate", "cond_comp", "resolve", "precedence", "macro_expand", "token_check", "tyinfer",
          "lower", "inline"]


def norm_panic(detail):
    """`message @ /repo/path/file.rs:LINE` -> stable fingerprint (no line number, no quoted payload)"""
    msg, _, loc = detail.rpartition(" @ ")
    path = loc.rsplit(":", 1)[0].replace("/repo/", "")
    msg = re.sub(r"`[^`]*`", "`_`", msg)
    msg = re.sub(r"\d+", "N", msg)
    return f"panic:{path}:{msg[:120]}"


def crash_stage(ctx, hook, text_bytes, feats, timeout=40):
    """first normalization stage at which the hook process dies or hangs on this input"""
    p = os.path.join(ctx.scratch, "crash_probe.lalrpop")
    open(p, "wb").write(text_bytes)
    for st in STAGES:
        try:
            r = subprocess.run([hook, "stage", st, p] + feats, stdout=subprocess.PIPE, stderr=subprocess.PIPE,
                               timeout=timeout)
        except subprocess.TimeoutExpired:
            return st, "timeout"
        if r.returncode < 0 or r.returncode == 134:
            kind = "stack-overflow" if b"overflowed its stack" in r.stderr else f"signal{-r.returncode}"
            return st, kind
        if r.returncode != 0:
            return st, "panic"
        if r.stdout.startswith(b"error"):
            return st, "diagnostic"
    return "after-normalize", "unknown"


def run(ctx):
    ctx.lean_build([MODULE, "lpm_prec"])
    ctx.lean_audit(MODULE, THEOREMS)
    if not ctx.quick():
        ctx.leanchecker(MODULE)
    prec, panic, hook = ctx.build_harness(["prec", "panic", "hook"])

    # ---- (1) the models behind the theorem are the code: validator verdicts and expansion/panic kinds
    rc, out, err = ctx.run_harness(prec, ["--seed", ctx.seed, "--n", ctx.vol(2500, 40000), "--out", ctx.scratch])
    if rc != 0:
        ctx.fatal("harness prec failed: " + err[-500:])
    pstats = json.loads(out.strip().splitlines()[-1])
    ctx.correspond("validate_precedence + expand_nonterm (panic kinds) vs Model.Prec", "lpm_prec", "prec")
    # panics of the validated pipeline seen by that run (prevalidated_expand_total says: none)
    for entry in json.load(open(os.path.join(ctx.scratch, "prec.panics.json")))[:20]:
        msg, _, grammar = entry.partition("\u0001")
        fp = "panic:lalrpop/src/normalize/precedence/mod.rs:" + re.sub(r"`[^`]*`", "`_`", msg)[:120]
        ctx.failing_input(fp, f"validated grammar panics in the precedence pass: {msg}",
                          {"grammar": grammar, "panic": msg, "features": None,
                           "how": "harness/target/debug/hook stage precedence <grammar file>"})

    # ---- (2) search: real process_file in child processes
    args = ["--seed", ctx.seed, "--out", ctx.scratch, "--case-timeout", 30 if ctx.quick() else 60]
    if ctx.replay_in:
        rp = json.load(open(ctx.replay_in))
        gpath = os.path.join(ctx.scratch, "replay.lalrpop")
        data = bytes.fromhex(rp["input_hex"][1:]) if rp.get("input_hex") else rp.get("grammar", "").encode()
        open(gpath, "wb").write(data)
        args += ["--replay", gpath]
    else:
        args += ["--n", ctx.vol(1800, 40000)]
    rc, out, err = ctx.run_harness(panic, args, timeout=7200)
    if rc != 0:
        ctx.fatal("harness panic failed: " + err[-500:])
    stats = json.loads(out.strip().splitlines()[-1])
    findings = json.load(open(os.path.join(ctx.scratch, "panic.findings.json")))
    seen = {}
    for f in findings:
        data = bytes.fromhex(f["input_hex"][1:])
        feats = ["f"] if f["features"] else []
        if f["kind"] == "panic":
            fp = norm_panic(f["detail"])
            what = "lalrpop panics: " + f["detail"]
        elif f["kind"] in ("crash", "hang"):
            if f["class"] == "deep-nesting":
                fp, what = f"{f['kind']}:deep-nesting", f"lalrpop {f['kind']}s on nesting depth in the thousands"
            else:
                st, kind = crash_stage(ctx, hook, data, feats)
                fp = f"{f['kind']}:{kind}:stage={st}"
                what = f"lalrpop {'aborts' if f['kind'] == 'crash' else 'hangs'} ({kind}) in stage {st}: {f['detail']}"
        else:
            fp, what = f["kind"], f["detail"]
        if fp in seen and seen[fp] >= 2:
            continue
        seen[fp] = seen.get(fp, 0) + 1
        ctx.failing_input(fp, what, {
            "grammar": f["input_text"], "input_hex": f["input_hex"], "features": feats, "class": f["class"],
            "observed": f["kind"] + ": " + f["detail"],
            "how": "write input_hex (x<hex>) to g.lalrpop; /repo/target/debug/lalrpop [--features f] g.lalrpop, or "
                   "/verif/bin/check C18 --replay <this file>"})
    ctx.coverage.update({
        "evaluations": stats["runs"] + pstats["cases"],
        "distinct_nontrivial": stats["inputs"] + pstats["distinct_nontrivial"],
        "rule": "search: one evaluation = process_file on one input with one feature setting (unset, {f}); inputs are "
                "distinct by construction (seed corpus files unchanged, then mutants/layouts/raw strings drawn from the "
                "seeded PRNG; counted as inputs, all non-trivial in the sense that each reaches at least the tokenizer); "
                "model tie: as in C12 (validator verdicts + expansions/panic kinds)",
        "exhaustive": False,
        "generator_distribution": {"search": stats["hist"], "model_tie": pstats["hist"]},
        "search_findings_total": stats["findings"], "child_restarts": stats["restarts"],
        "seed_corpus": "every .lalrpop file <= 4000 bytes under /repo/lalrpop-test/src and /repo/doc",
    })
    ctx.coverage["samples"].append({"search_finding_kinds": sorted(seen)})
    ctx.assumptions += [
        "panics are observed through catch_unwind in a child process; aborts/hangs through the death/silence of that child",
        "a hang is no answer within the per-case timeout (30 s quick / 60 s thorough) on this machine",
        "unmodelled passes are explored, not proven panic-free",
    ]
