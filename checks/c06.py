"""C06 — Location tracking follows token positions identically in both backends."""
from checks import lrfamily

LEVEL = "proof"
MODULE = "LalrpopModel.Props.C06"
THEOREMS = ['LalrpopModel.LR.GenericThms.error_spans_ordered', 'LalrpopModel.LR.GenericThms.token_accounting', 'LalrpopModel.LR.drive_sound']
MANIFEST = {
    "category": "proof",
    "technique": 'Lean 4 proof of span invariants + compiled-parser correspondence on gapped spans (both code generators)',
    "text": 'The span rule of __reduce is part of the driver model; error_spans_ordered/token_accounting prove spans on the stack are ordered, disjoint and contain their tokens under monotone token spans. @L/@R and the recursive-ascent backend are tied by compiled parsers whose actions render @L/@R on gapped, strictly increasing spans, compared with the model and with each other.',
    "note": '@L/@R selection (emit_inline_action_code) is modelled (Props/C06Look: lookaround_spec per emitted function; the rule does not compose across inlining steps: known finding c06:lookaround-next-to-later-inlined-empty); the start-state defect of the ascent backend was repaired (fa25893).',
}


def run(ctx):
    lrfamily.obligations(ctx, MODULE, THEOREMS)
    from checks import lowerpart
    lowerpart.run_lookaround_part(ctx)
    lrfamily.driver_layer(ctx, "C06")
    lrfamily.compiled_layer(ctx, "C06", grammars=ctx.vol(60, 400), inputs=ctx.vol(30, 60))
    ctx.coverage.setdefault("trusted_base", []).extend(lrfamily.TRUST_LR)
    ctx.coverage["rule"] = ("grammars from LR-biased templates, mutations and random CFGs x {lane-table, canonical LR(1), LALR}; "
                            "inputs = sampled sentences, single-token mutations, random strings, injected errors, all short strings")
    ctx.coverage["evaluations"] = ctx.coverage.get("traces_validated_against_impl", 0)
    ctx.coverage["distinct_nontrivial"] = ctx.coverage.get("driver_layer", {}).get("distinct_tables", 0) + ctx.coverage.get("compiled_layer", {}).get("grammars", 0)
    ctx.assumptions += ["token kinds handed to the driver are terminal indices (< nTerm): what __token_to_integer answers"]
