"""Lowering part of C02 (default actions, `<>`, bindings) and `@L`/`@R` part of C06.

`run_lower_part(ctx)` is called from checks/c02.py, `run_lookaround_part(ctx)` from checks/c06.py.
Both follow the contract of a check: proof obligations (lake build + axiom audit of the theorem
module), correspondence of the Lean model with /repo's current code (harness `lower`, driver
`lpm_lower`), property-level search with replays.

The model follows one of the source variants of the anchored functions (`Lower.Variant`); which
one is read off /repo's source here on every run, the theorems are stated for every variant.
"""
import hashlib
import json
import os

MODULE_LOWER = "LalrpopModel.Props.C02Lower"
THEOREMS_LOWER = [
    "LalrpopModel.Lower.analyze_expr_spec",
    "LalrpopModel.Lower.analyze_expr_class_perm",
    "LalrpopModel.Lower.IsSelection.unique",
    "LalrpopModel.Lower.patterns_spec",
    "LalrpopModel.Lower.arg_patterns_spec",
    "LalrpopModel.Lower.selPatterns_anon",
    "LalrpopModel.Lower.selPatterns_named",
    "LalrpopModel.Lower.default_action_spec",
    "LalrpopModel.Lower.angle_subst_spec",
    "LalrpopModel.Lower.splitAngle_spec",
    "LalrpopModel.Lower.named_subst_presence_irrelevant",
    "LalrpopModel.Lower.action_fn_no_assert",
    "LalrpopModel.Lower.action_fn_panic_iff",
]
MODULE_LOOK = "LalrpopModel.Props.C06Look"
THEOREMS_LOOK = [
    "LalrpopModel.Lower.lookaround_spec",
    "LalrpopModel.Lower.neighbours_skip_empty",
    "LalrpopModel.Lower.adjacent_lookarounds_agree",
    "LalrpopModel.Lower.nonempty_inlined_span",
    "LalrpopModel.Lower.empty_host_passthrough",
    "LalrpopModel.Lower.nested_lookaround",
    "LalrpopModel.Lower.expand_lookaround_symbol_spec",
    "LalrpopModel.Lower.lookaround_composition_counterexample",
]

FP_LATER_EMPTY = "c06:lookaround-next-to-later-inlined-empty"
WHAT_LATER_EMPTY = (
    "`@L` (`@R`) that is followed (preceded) by a symbol which derives nothing and is inlined by a later inlining step "
    "(`@R` after `@L`, an empty `N?`/`N*`, an `#[inline]` nonterminal with an empty alternative) does not yield the start "
    "of the next (end of the previous) token: every inlining step generates its own action function, and the function "
    "generated for `@L` receives the later-inlined symbol as an ordinary argument whose span is "
    "(end of the previous symbol, start of the next symbol). `pub S: String = <a:\"c\"> <l:@L> <r:@R> <b:\"d\"> => …` on "
    "`c   d` gives l = 1 (documented: 4, the start of the token to its right); `<l:@L> <o:N?> <r:@R>` with `N` absent gives "
    "l = 1, r = 4. Both code generators agree with each other and with the composed model of emit_inline_action_code "
    "(Lean: lookaround_composition_counterexample); the order of `@R @L` is not affected.")


def _hash(s):
    return hashlib.sha256((s or "").encode()).hexdigest()[:10]


def detect_variant():
    """(emptyAnonUnwrap, tupleNamesFixed) of Lower.Variant, from /repo's current source"""
    lower_src = open("/repo/lalrpop/src/normalize/lower/mod.rs", encoding="utf-8").read()
    pt_src = open("/repo/lalrpop/src/grammar/parse_tree.rs", encoding="utf-8").read()
    unwrap = "anon_symbols.first().unwrap()" in lower_src
    tuple_fixed = ("fn names(&self)" in pt_src) and ("name.names()" in lower_src)
    return ("1" if unwrap else "0") + ("1" if tuple_fixed else "0")


def _stats(ctx, exe, args, what):
    rc, out, err = ctx.run_harness(exe, args)
    if rc != 0:
        ctx.fatal(f"harness lower ({what}) failed: " + err[-800:])
    lines = [l for l in out.strip().splitlines() if l.startswith("{\"part\"")]
    if not lines:
        ctx.fatal(f"harness lower ({what}) printed no statistics")
    return json.loads(lines[-1])


def _lines(path):
    ls = open(path, encoding="utf-8", errors="replace").read().split("\n")
    if ls and ls[-1] == "":
        ls.pop()
    return ls


def run_lower_part(ctx):
    ctx.lean_build([MODULE_LOWER, "lpm_lower"])
    ctx.lean_audit(MODULE_LOWER, THEOREMS_LOWER)
    if not ctx.quick():
        ctx.leanchecker(MODULE_LOWER)
    (exe,) = ctx.build_harness(["lower"])
    variant = detect_variant()
    outdir = os.path.join(ctx.scratch, "lowerpart")
    stats = _stats(ctx, exe, ["--seed", ctx.seed, "--part", "lower", "--variant", variant, "--out", outdir,
                              "--n", ctx.vol(1500, 15000), "--braces", ctx.vol(400, 4000), "--vals", ctx.vol(22, 60)],
                   "lowering")
    ctx.correspond("lowering: stage_dump(tyinfer) -> Model.Lower.lowerGrammar -> action fns of stage_dump(lower)",
                   "lpm_lower", "lower", outdir=outdir)
    ctx.correspond("check_between_braces (through the prevalidation verdict) vs Model.Lower.checkBetweenBraces",
                   "lpm_lower", "braces", outdir=outdir)
    dis = ctx.correspond("values of compiled parsers (both code generators) vs the model's lowered action functions "
                         "evaluated over the derivation", "lpm_lower", "lowval", outdir=outdir)
    # a value disagreement is a concrete (grammar, input) on which the parse result is not the actions
    # evaluated over the derivation as the lowering theorems describe them
    index = []          # stream index -> (grammar index, input index or None)
    for gi, inputs in enumerate(stats.get("val_inputs_texts", [])):
        index.append((gi, None))
        index += [(gi, ii) for ii in range(len(inputs))]
    for d in dis[:5]:
        i = d["index"]
        if i >= len(index):
            continue
        gi, ii = index[i]
        g = stats["val_grammar_texts"][gi]
        inp = None if ii is None else stats["val_inputs_texts"][gi][ii]
        ctx.failing_input(f"c02:lowered-value:{_hash(g)}:{_hash(inp)}",
                          "the value returned by the generated parser differs from the lowered action functions "
                          "(default action / `<>` / patterns as proved for Model.Lower) evaluated over the derivation",
                          {"grammar": g, "input": inp, "parser": d["impl"], "model": d["model"],
                           "how": "generate the grammar with lalrpop, compile with the prelude of harness/src/bin/lower.rs "
                                  "(VAL_PRELUDE), print V0Parser::new().parse(input).sh()"})
    for f in stats.get("findings", []):
        if f.get("kind") == "rustc-error":
            first = next((l for l in f.get("stderr", "").splitlines() if l.startswith("error")), "error")
            ctx.oblige("compiled value grammars build", False, f.get("stderr", "")[:1500])
            ctx.failing_input("c02:lower-part:rustc:" + first[:80],
                              "a module generated for a grammar lalrpop accepted (well-typed user code) is rejected by rustc",
                              {"rustc": f.get("stderr", "")[:3000], "grammars": f.get("grammars", [])[:30]})
    ctx.coverage["lower_part"] = {
        "variant(emptyAnonUnwrap,tupleNamesFixed)": variant,
        "stage_grammars": stats["stage_cases"], "alternatives_lowered": stats["alternatives"],
        "distinct_alternative_shapes": stats["distinct_alt_shapes"], "brace_cases": stats["brace_cases"],
        "compiled_grammars": stats["val_grammars"], "compiled_inputs": stats["val_inputs"],
        "generator_distribution": stats["hist"],
        "rule": "stage tie: every alternative of every accepted random surface grammar (all binding forms, explicit/"
                "default/fallible actions, random action code with `<>` in strings/braces/counted, empty alternatives, "
                "tuple patterns, growing prefixes) — distinct shapes = (wrapper kinds, action kind, number of `<>`); "
                "value leg: derivations generated from the dumped grammar (lalrpop accepted it as LR(1), so the derivation "
                "is the parser's), values predicted by evaluating the model's lowered (patterns, code) bottom-up",
    }
    ctx.coverage["samples"].append({"lower_part_grammar": stats.get("sample_grammar", "")[:1200]})
    ctx.coverage["samples"].append({"lower_part_value_grammar": stats.get("val_sample_grammar", "")[:1200]})
    ctx.assumptions += [
        "lowering theorems: the grammar prefix contains no `<`/`>` (it consists of underscores: parser/mod.rs) and "
        "`symbols.len() == expr.symbols.len()` (what LowerState::symbols returns)",
        "value leg: the derivation generated from stage_dump(tyinfer) is the one the parser finds (unambiguity of accepted "
        "grammars: C01/C03); action code is limited to a small expression language the driver evaluates",
    ]


def run_lookaround_part(ctx):
    ctx.lean_build([MODULE_LOOK, "lpm_lower", "lpm_inline"])
    ctx.lean_audit(MODULE_LOOK, THEOREMS_LOOK)
    if not ctx.quick():
        ctx.leanchecker(MODULE_LOOK)
    (exe,) = ctx.build_harness(["lower"])
    outdir = os.path.join(ctx.scratch, "lookpart")
    stats = _stats(ctx, exe, ["--seed", ctx.seed, "--part", "look", "--out", outdir,
                              "--emit", ctx.vol(50, 400), "--comp", ctx.vol(10, 40),
                              "--lpm-inline", "/verif/lean/.lake/build/bin/lpm_inline"], "lookaround")
    ctx.correspond("start/end/value sources in generated inline __actionN bodies vs Model (startSrc/endSrc, lookaroundAction)",
                   "lpm_lower", "look", outdir=outdir)
    dis_t = ctx.correspond("compiled table-driven parsers: every @L/@R value vs the composed model of the generated functions",
                           "lpm_lower", "lookc_t", outdir=outdir)
    dis_a = ctx.correspond("compiled recursive-ascent parsers: every @L/@R value vs the composed model",
                           "lpm_lower", "lookc_a", outdir=outdir)
    # ---- the property itself: the C06 rule evaluated on the derivation vs what the real parser printed
    ctx.lpm("lpm_lower", os.path.join(outdir, "lookrule.req"), os.path.join(outdir, "lookrule.model"))
    imp = _lines(os.path.join(outdir, "lookrule.impl"))
    rule = _lines(os.path.join(outdir, "lookrule.model"))
    index = [(gi, ii) for gi, inputs in enumerate(stats.get("comp_inputs_texts", [])) for ii in range(len(inputs))]
    bad_model = {d["index"] for d in dis_t} | {d["index"] for d in dis_a}
    explained, other = [], []
    for i, (a, b) in enumerate(zip(imp, rule)):
        if a != b:
            (other if i in bad_model else explained).append(i)
    if len(rule) != len(imp):
        ctx.oblige("rule evaluation answered every compiled case", False, f"{len(rule)} answers for {len(imp)} cases")

    def replay_of(i):
        gi, ii = index[i] if i < len(index) else (None, None)
        return {"grammar": stats["comp_grammar_texts"][gi] if gi is not None else None,
                "input": stats["comp_inputs_texts"][gi][ii] if gi is not None else None,
                "parser(both code generators)": imp[i], "C06 rule on the derivation": rule[i],
                "how": "generate with lalrpop (with and without #[recursive_ascent]), compile with LOOK_PRELUDE of "
                       "harness/src/bin/lower.rs, print N0Parser::new().parse(input); numbers are the @L/@R values"}
    if explained:
        # smallest instance; the composed model explains the parser's answer on all of them
        i = min(explained, key=lambda k: len(replay_of(k)["grammar"] or "") + len(imp[k]))
        rep = replay_of(i)
        rep["instances_this_run"] = len(explained)
        ctx.failing_input(FP_LATER_EMPTY, WHAT_LATER_EMPTY, rep)
    for i in other[:3]:
        rep = replay_of(i)
        ctx.failing_input(f"c06:lookaround:{_hash(rep['grammar'])}:{_hash(rep['input'])}",
                          "an @L/@R value printed by the generated parser differs from the C06 rule and from the composed model",
                          rep)
    for f in stats.get("findings", []):
        if f.get("kind") == "rustc-error":
            first = next((l for l in f.get("stderr", "").splitlines() if l.startswith("error")), "error")
            ctx.oblige("compiled lookaround grammars build", False, f.get("stderr", "")[:1500])
            ctx.failing_input("c06:look-part:rustc:" + first[:80],
                              "a module generated for a grammar lalrpop accepted is rejected by rustc",
                              {"rustc": f.get("stderr", "")[:3000], "grammars": f.get("grammars", [])[:30]})
    ctx.coverage["lookaround_part"] = {
        "emit_grammars": stats["emit_grammars"], "inline_action_fns_compared": stats["look_cases"],
        "distinct_symbol_shapes": stats["distinct_symbol_shapes"],
        "compiled_grammars(x2 code generators)": stats["comp_grammars"], "compiled_inputs": stats["comp_inputs"],
        "rule_vs_parser_differences": len(explained) + len(other),
        "of_which_explained_by_composed_model": len(explained),
        "generator_distribution": stats["hist"],
        "rule": "emitted tie: every inline action function with at least one inlined symbol without symbols, of random "
                "grammars with @L/@R at front/middle/end, runs of several, next to `\"t\"?`/`\"t\"*` and next to #[inline] "
                "nonterminals with empty alternatives, nested inlining — shape = sequence of o(riginal)/L/R/z(other empty)/"
                "n(on-empty inlined); compiled leg: built-in lexer, random gaps before/between/after tokens, both code "
                "generators, every alternative prints all its @L/@R",
    }
    ctx.coverage["samples"].append({"lookaround_part_grammar": stats.get("sample_grammar", "")[:1200]})
    ctx.assumptions += [
        "lookaround_spec speaks about one generated action function: its arguments are the symbols not yet inlined at "
        "the time it was generated (see the known finding for what that means across several inlining steps)",
        "compiled leg: inline order taken from the model of inline_order (lpm_inline, tied by C14)",
    ]
