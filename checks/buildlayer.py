"""Shared by the build-layer checks (C20–C23): facts re-read from /repo's source on every run."""
import os
import re

REPO = "/repo"
BUILD_RS = os.path.join(REPO, "lalrpop/src/build/mod.rs")


def fn_body(src, name):
    """text of `fn name(...) { ... }` (brace matching; good enough for rustfmt-formatted code)"""
    m = re.search(r"\bfn\s+" + re.escape(name) + r"\b", src)
    if not m:
        return None
    i = src.index("{", m.end())
    depth, j = 0, i
    while j < len(src):
        if src[j] == "{":
            depth += 1
        elif src[j] == "}":
            depth -= 1
            if depth == 0:
                return src[m.start():j + 1]
        j += 1
    return None


def write_sequence_variant():
    """Which of the repairs does the current source of build/mod.rs contain?  Returns (variant string for the
    harness/driver, ordered list of the file-system relevant calls of process_file_into with line numbers).
    tmp: the output is written to a temporary sibling and moved into place with fs::rename;
    rmfirst: remove_old_file comes before FileText::from_path;
    utf8: needs_rebuild maps an InvalidData read error to Ok(true);
    exact: needs_rebuild compares the header lines without trim()."""
    src = open(BUILD_RS).read()
    body = fn_body(src, "process_file_into") or ""
    start = src.find(body) if body else 0
    line0 = src.count("\n", 0, start) + 1
    calls = []
    pat = re.compile(r"needs_rebuild\(|FileText::from_path\(|remove_old_file\(|emit_recursive_ascent\(|"
                     r"fs::File::create\(|writeln!\(|write_all\(|fs::rename\(|sync_all\(")
    for k, line in enumerate(body.split("\n")):
        if line.strip().startswith("//"):
            continue
        for m in pat.finditer(line):
            calls.append((m.group(0).rstrip("("), line0 + k))
    names = [c for c, _ in calls]
    nr = fn_body(src, "needs_rebuild") or ""
    nr_code = "\n".join(l for l in nr.split("\n") if not l.strip().startswith("//"))
    flags = {
        "tmp": "fs::rename" in names,
        "rmfirst": ("remove_old_file" in names and "FileText::from_path" in names
                    and names.index("remove_old_file") < names.index("FileText::from_path")),
        "utf8": "InvalidData" in nr_code,
        "exact": ".trim()" not in nr_code,
    }
    # how is the output (temporary) file opened?  fs::File::create truncates; an OpenOptions chain only with
    # .truncate(true)
    code = "\n".join(l for l in body.split("\n") if not l.strip().startswith("//"))
    om = re.search(r"let\s+mut\s+output_file\s*=\s*(.*?);", code, re.S)
    opener = om.group(1) if om else ""
    flags["trunc"] = ("File::create" in opener) or ("truncate(true)" in opener.replace(" ", ""))
    variant = ",".join(f"{k}={1 if v else 0}" for k, v in flags.items())
    return variant, calls


def strip_prefix_fallback():
    """Does gen_resolve_file fall back to an empty relative path when the file is not under in_dir
    (instead of `.ok().unwrap()`)?"""
    src = open(BUILD_RS).read()
    body = fn_body(src, "gen_resolve_file") or ""
    code = "\n".join(l for l in body.split("\n") if not l.strip().startswith("//"))
    return "strip_prefix(in_dir).ok().unwrap()" not in code and "strip_prefix(in_dir).unwrap_or(" in code
