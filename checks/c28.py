"""C28 — ParseError helpers transform and display errors as documented."""
LEVEL = "proof"
MANIFEST = {
    "category": "proof",
    "technique": "Lean 4 theorems over a hand model of ParseError + differential correspondence with lalrpop_util",
    "text": "All helper laws (map_location incl. FnMut call order, map_token, map_error, From, Display incl. the "
            "'Expected one of a, b or c' format for lists of any length) are Lean theorems about Model/Err.lean for all "
            "values; the model is tied to lalrpop-util by an exhaustive small-domain + random differential run each check.",
    "note": "Trusted: Lean kernel (axioms propext/Classical.choice/Quot.sound only), the hand model's fidelity as far as the "
            "correspondence run exercises it, Rust's integer Display for locations.",
}
MODULE = "LalrpopModel.Props.C28"
THEOREMS = [
    "LalrpopModel.Err.map_location_spec", "LalrpopModel.Err.map_location_fnmut_order",
    "LalrpopModel.Err.map_location_fnmut_shape", "LalrpopModel.Err.map_location_id",
    "LalrpopModel.Err.map_location_comp", "LalrpopModel.Err.map_token_spec",
    "LalrpopModel.Err.map_error_spec", "LalrpopModel.Err.map_token_id", "LalrpopModel.Err.map_error_id",
    "LalrpopModel.Err.map_token_location_comm", "LalrpopModel.Err.map_error_location_comm",
    "LalrpopModel.Err.from_spec", "LalrpopModel.Err.fmt_expected_spec", "LalrpopModel.Err.display_spec",
]


def run(ctx):
    ctx.lean_build([MODULE, "lpm_err"])
    ctx.lean_audit(MODULE, THEOREMS)
    if not ctx.quick():
        ctx.leanchecker(MODULE)
    (exe,) = ctx.build_harness(["err"])
    n = ctx.vol(10000, 300000)
    rc, out, err = ctx.run_harness(exe, ["--seed", ctx.seed, "--n", n, "--out", ctx.scratch])
    if rc != 0:
        ctx.fatal("harness err failed: " + err[-500:])
    import json
    stats = json.loads(out.strip().splitlines()[-1])
    ctx.coverage.update({
        "evaluations": stats["cases"],
        "distinct_nontrivial": stats["exhaustive_cases"],
        "rule": "exhaustive: every ParseError over locations 0..2, tokens/errors in {a,b}, expected lists of "
                "length 0..4 over {a,b}, times 7 operations (all distinct; counted as the non-trivial ones); "
                "plus random values with large locations, unicode/meta-character strings, expected lists up to 11",
        "exhaustive": True,
        "generator_distribution": stats["hist"],
    })
    dis = ctx.correspond("ParseError helpers vs Model.Err", "lpm_err", "err")
    # The model is proved equal to the documented behaviour (display_spec, map_*_spec), so an input on
    # which the implementation differs from the model is an input on which the property fails.
    for d in dis[:20]:
        ctx.failing_input("err:" + d["req"], f"ParseError helper deviates from documented behaviour on `{d['req']}`",
                          {"request": d["req"], "implementation": d["impl"], "expected_by_model": d["model"],
                           "protocol": "strings are x<hex of utf-8>; see lean/LalrpopModel/Drivers/Err.lean"})
    ctx.assumptions += ["Display of locations is the decimal rendering of the integer; tokens/errors display as themselves"]
