"""C08 — Generated parsers always terminate and never panic."""
from checks import lrfamily

LEVEL = "proof"
MODULE = "LalrpopModel.Props.C08"
THEOREMS = ['LalrpopModel.LR.driver_no_panic', 'LalrpopModel.LR.drive_complete', 'LalrpopModel.LR.actions_postorder_once', 'LalrpopModel.LR.GenericThms.run_done_stable', 'LalrpopModel.LR.GenericThms.pulled_le', 'LalrpopModel.LR.driver_terminates', 'LalrpopModel.LR.driver_terminates_under_V7', 'LalrpopModel.LR.parse_decides', 'LalrpopModel.LR.driver_terminates_recovery', 'LalrpopModel.LR.driver_terminates_recovery_validated', 'LalrpopModel.LR.eof_recovery_no_found_token', 'LalrpopModel.LR.accepts_answers_on_run', 'LalrpopModel.LR.recovery_progress', 'LalrpopModel.LR.accept_steps_exact']
MANIFEST = {
    "category": "proof",
    "technique": 'Lean 4 proof (panic-freedom invariant, termination with a linear step bound under a per-table certificate V7, lexer progress) + certificates per automaton + step-budget search on the real code',
    "text": 'driver_no_panic: for validated tables no Rust panic site of the driver/generated reduce is reachable on any input, with or without recovery; driver_terminates / driver_terminates_recovery: every run ends within a number of steps linear in the input length for tables passing the executable check V7 (run on every automaton lalrpop builds, `validate3`); accept_steps_exact: accepted inputs take exactly 2|w|+nodes+2 steps; lexer_progress/no_empty_token (Props/C08Lex) bound the built-in lexer. Hang/panic search under a step budget on the real driver and compiled parsers.',
    "note": 'Termination with a step bound linear in the input length is proved for every table passing the executable check V7 (checkTerm: the reduce loop halts from every reachable two-state stack under every lookahead), recovery on or off (driver_terminates_recovery); V7 is run on every automaton (`validate3`). Termination from `validate` alone (without V7) is not proved (driver_terminates_of_validate kept as a comment).',
}


def run(ctx):
    lrfamily.obligations(ctx, MODULE, THEOREMS)
    from checks import lexpart
    lexpart.run_lexer_part(ctx)
    lrfamily.driver_layer(ctx, "C08")
    lrfamily.driver_layer(ctx, "C08", grammars=ctx.vol(40, 400), inputs=ctx.vol(50, 100), exh=0, extra=["bang=always"], tag="recovery_focus")
    lrfamily.compiled_layer(ctx, "C08")
    ctx.coverage.setdefault("trusted_base", []).extend(lrfamily.TRUST_LR)
    ctx.coverage["rule"] = ("grammars from LR-biased templates, mutations and random CFGs x {lane-table, canonical LR(1), LALR}; "
                            "inputs = sampled sentences, single-token mutations, random strings, injected errors, all short strings")
    ctx.coverage["evaluations"] = ctx.coverage.get("traces_validated_against_impl", 0)
    ctx.coverage["distinct_nontrivial"] = ctx.coverage.get("driver_layer", {}).get("distinct_tables", 0) + ctx.coverage.get("compiled_layer", {}).get("grammars", 0)
    ctx.assumptions += ["token kinds handed to the driver are terminal indices (< nTerm): what __token_to_integer answers"]
