"""Shared machinery of the LR-family checks (C01–C08, C16, C17): proof obligations over M-LR,
per-automaton certificates (the proven validator applied to what the real lalrpop builds and emits),
driver correspondence (real state_machine::Parser vs model), compiled-parser correspondence
(table-driven and recursive-ascent output of rustc vs model), and the classification of a
disagreement into the properties it is a concrete failing input for."""
import hashlib
import json
import os
import re

from checks import common

def sh(x):
    """stable short hash (fingerprints must not depend on PYTHONHASHSEED)"""
    return hashlib.sha256((x or "").encode()).hexdigest()[:10]


SOUND = "LalrpopModel.Props.LRSoundThms"
COMPLETE = "LalrpopModel.Props.LRCompleteThms"
GENERIC = "LalrpopModel.Props.LRGenericThms"

TRUST_LR = [
    "hand model of lalrpop-util/src/state_machine.rs and of the generated __reduce/__accepts (Model/LR/Driver.lean): "
    "tied to the code by the driver correspondence (real Parser::drive over tables extracted from generated source) "
    "and by compiled generated parsers, both run by this check",
    "table extractor (harness/src/lr.rs::extract_tables) and the export_automaton hook report what lalrpop emits/builds",
    "the validator is proven once for all grammars/tables/inputs; each `valid` answer is computed by compiled Lean code "
    "(lpm_lr) for one automaton lalrpop built in this run",
    "semantic values are free terms (production, span, children); user action code is not interpreted",
]


def parse_line(line):
    """parse an outcome line of lpm_lr / harness into a dict"""
    d = {"raw": line, "kind": line.split(" ", 1)[0] if line else ""}
    if d["kind"] in ("ok", "err"):
        m = re.match(r"^(ok|err) (.*?) pulled=(\d+) (?:acts=(\d+) trace=([\d.]*)|log=([\d.]*))$", line)
        if m:
            d["body"] = m.group(2)
            d["pulled"] = int(m.group(3))
            d["acts"] = m.group(4)
            d["trace"] = m.group(5) if m.group(5) is not None else m.group(6)
        else:
            d["body"] = line[len(d["kind"]) + 1:]
        if d["kind"] == "err":
            em = re.match(r"^(UT|UE|ET|US|IT)\((.*)\)$", d.get("body", ""))
            if em:
                d["variant"] = em.group(1)
                inner = em.group(2)
                if ";" in inner:
                    d["site"], d["expected"] = inner.split(";", 1)
                else:
                    d["site"], d["expected"] = inner, None
        else:
            # shape of the tree with spans erased: (p l r kids) -> (p kids)
            d["shape"] = re.sub(r"\((\d+) -?\d+ -?\d+", r"(\1", d.get("body", ""))
    return d


def classify(req, impl, model, recovery):
    """properties for which impl != model on this request is a concrete failing input (the model is
    proven to have the property on validated tables, so the implementation does not)"""
    a, b = parse_line(impl), parse_line(model)
    props = set()
    if a["kind"] in ("panic", "budget", "crash"):
        props.add("C08")
    if a["kind"] in ("ok", "err") and b["kind"] in ("ok", "err"):
        if (a["kind"] == "ok") != (b["kind"] == "ok"):
            props.add("C01")
        if a["kind"] == "ok" and b["kind"] == "ok":
            if a.get("shape") != b.get("shape") or a.get("trace") != b.get("trace"):
                props.add("C02")
            elif a.get("body") != b.get("body"):
                props.add("C06")
            if recovery and a.get("body") != b.get("body"):
                props.add("C16")
        if a["kind"] == "err" and b["kind"] == "err":
            if a.get("variant") != b.get("variant") or a.get("site") != b.get("site") or a.get("pulled") != b.get("pulled"):
                props.add("C04")
            elif a.get("expected") != b.get("expected"):
                props.add("C05")
            if "US" in (a.get("variant"), b.get("variant")) and a.get("raw") != b.get("raw"):
                props.add("C17")
        if (",E" in req or "input=E" in req or "fail=-" not in req) and a["raw"] != b["raw"]:
            props.add("C17")
        if recovery and a["raw"] != b["raw"]:
            props.add("C16")
    return props


def load_ctx(path):
    out = []
    if os.path.exists(path):
        for l in open(path):
            f = l.rstrip("\n").split("\t")
            if len(f) == 4:
                out.append((int(f[0]), f[1], f[2], bytes.fromhex(f[3][1:]).decode("utf-8", "replace")))
    return out


def ctx_for(ctxs, index):
    best = None
    for c in ctxs:
        if c[0] <= index:
            best = c
    return best


def obligations(ctx, module, theorems, extra_modules=()):
    ctx.lean_build([module] + list(extra_modules) + ["lpm_lr"])
    ctx.lean_audit(module, theorems)
    if not ctx.quick():
        ctx.leanchecker(module)


def tables_recovery(reqs, index):
    for i in range(index, -1, -1):
        if reqs[i].startswith("tables "):
            return "recovery=1" in reqs[i]
    return False


def driver_layer(ctx, pid, grammars=None, inputs=None, exh=None, extra=(), tag="lrdrive"):
    """layers 1–3: certificates + driver correspondence + exhaustive membership cross-check"""
    (exe,) = ctx.build_harness(["lrdrive"])
    n = grammars or ctx.vol(40, 500)
    k = inputs or ctx.vol(30, 80)
    e = exh if exh is not None else ctx.vol(4, 6)
    out = os.path.join(ctx.scratch, tag)
    rc, so, se = ctx.run_harness(exe, ["--seed", ctx.seed, "--n", n, "--out", out, f"inputs={k}", f"exh={e}"] + list(extra), timeout=3000)
    if rc != 0:
        ctx.fatal("lrdrive failed: " + se[-500:])
    stats = json.loads(so.strip().splitlines()[-1])
    ctx.coverage.setdefault("driver_layer" if tag == "lrdrive" else tag, {}).update({
        "grammars": stats["grammars"], "cases": stats["cases"], "distinct_tables": stats["distinct_tables"],
        "membership_checks": stats["members"], "membership_yes": stats["members_yes"],
        "generator_distribution": stats["hist"]})
    ctx.coverage["samples"].extend({"grammar": g} for g in stats["samples"][:2])
    for vm in stats["verdict_mismatch"][:3]:
        ctx.oblige("process_file verdict agrees with export_automaton conflicts", False, vm[:1500])
    for ef in stats["extract_fail"][:3]:
        ctx.oblige("table extraction from generated source", False, ef[:1500])
    dis = ctx.correspond(f"driver+certificates (real Parser::drive, validate, member) [{tag}]", "lpm_lr", "lr", outdir=out, max_report=3)
    reqs = open(os.path.join(out, "lr.req")).read().split("\n")
    ctxs = load_ctx(os.path.join(out, "lr.ctx"))
    certs = sum(1 for r in reqs if r == "validate")
    ctx.coverage["driver_layer" if tag == "lrdrive" else tag]["certificates"] = certs
    ctx.coverage["programs"] = ctx.coverage.get("programs", 0) + certs
    # hangs/panics on valid tables and in-range inputs are C08 failing inputs by themselves
    if pid == "C08":
        for hcase in stats["hangs"][:3]:
            ctx.failing_input("driver-hang:" + hcase[:200], "the real driver exceeds its step budget on generated tables", {"case": hcase})
        for pcase in stats["panics"][:3]:
            ctx.failing_input("driver-panic:" + pcase[:200], "the real driver panics on generated tables", {"case": pcase})
    n_concrete = 0
    if pid == "C04":
        # property-level rule that needs no model: a parser without error recovery never returns ExtraToken
        imps_all = open(os.path.join(out, "lr.impl")).read().split("\n")
        for i, (req, imp) in enumerate(zip(reqs, imps_all)):
            if req.startswith("run ") and imp.startswith("err ET(") and not tables_recovery(reqs, i) and n_concrete < 2:
                cx = ctx_for(ctxs, i)
                if cx and "corrupt" not in cx[1]:
                    n_concrete += 1
                    ctx.failing_input(f"extra-token:{cx[1]}:{sh(cx[3])}", f"real driver returns ExtraToken on `{req}` (algorithm {cx[1]})",
                                      {"grammar": cx[3], "algorithm": cx[1], "request": req, "implementation": imp})
    for d in dis:
        i = d["index"]
        req = d["req"]
        cx = ctx_for(ctxs, i)
        gtext = cx[3] if cx else None
        algo = cx[1] if cx else None
        if req == "validate":
            # certificate fails: search happens through the other streams (member / run); keep as broken obligation
            continue
        if req.startswith("member "):
            if pid in ("C01", "C03") and n_concrete < 3:
                n_concrete += 1
                ctx.failing_input(
                    f"membership:{algo}:{req}:{sh(gtext)}",
                    f"real parser verdict `{d['impl']}` but the string is {'a' if d['model']=='yes' else 'not a'} sentence ({req}, algorithm {algo})",
                    {"grammar": gtext, "algorithm": algo, "request": req, "implementation": d["impl"], "oracle": d["model"]})
            continue
        if req.startswith("run "):
            props = classify(req, d["impl"], d["model"], tables_recovery(reqs, i))
            if pid in props and n_concrete < 3:
                n_concrete += 1
                ctx.failing_input(
                    f"driver:{algo}:{req}:{sh(gtext)}",
                    f"real driver deviates from the proven behaviour on `{req}` ({sorted(props)})",
                    {"grammar": gtext, "algorithm": algo, "request": req, "implementation": d["impl"], "proven_model": d["model"],
                     "tables_request_index": cx[0] if cx else None})
    return stats, dis


def compiled_layer(ctx, pid, grammars=None, inputs=None, extra=(), tag="lrcompiled"):
    """layer 4: rustc-compiled generated parsers, both code generators"""
    (exe,) = ctx.build_harness(["lrcompiled"])
    n = grammars or ctx.vol(32, 250)
    k = inputs or ctx.vol(25, 60)
    out = os.path.join(ctx.scratch, tag)
    rc, so, se = ctx.run_harness(exe, ["--seed", ctx.seed + 1000, "--n", n, "--out", out, f"inputs={k}"] + list(extra), timeout=3000)
    if rc != 0:
        ctx.fatal("lrcompiled failed: " + se[-500:])
    stats = json.loads(so.strip().splitlines()[-1])
    ctx.coverage.setdefault("compiled_layer", {}).update({
        "grammars": stats["grammars"], "cases": stats["cases"], "compile_s": stats["compile_s"],
        "generator_distribution": stats["hist"]})
    if stats["rustc_error"]:
        # an accepted grammar whose generated module does not compile
        ctx.oblige("generated parsers compile (rustc)", False, stats["rustc_error"][:2000])
        if pid in ("C19",):
            ctx.failing_input("rustc:" + stats["rustc_error"][:120], "generated module rejected by rustc", {"rustc": stats["rustc_error"]})
        return stats, [], []
    ctx.coverage["samples"].append({"compiled_grammar": stats["sample_grammar"]})
    dis = ctx.correspond("compiled table-driven parsers vs model (+ ascent expected-list model)", "lpm_lr", "lrc", outdir=out, max_report=3)
    reqs = open(os.path.join(out, "lrc.req")).read().split("\n")
    imps = open(os.path.join(out, "lrc.impl")).read().split("\n")
    mods = open(os.path.join(out, "lrc.model")).read().split("\n")
    asc = open(os.path.join(out, "lrc.ascent")).read().split("\n")
    ctxs = load_ctx(os.path.join(out, "lrc.ctx"))
    n_concrete = 0
    for d in dis:
        i, req = d["index"], d["req"]
        cx = ctx_for(ctxs, i)
        gtext = cx[3] if cx else None
        if req.startswith("runc "):
            props = classify(req, d["impl"], d["model"], tables_recovery(reqs, i))
            if pid in props and n_concrete < 3:
                n_concrete += 1
                ctx.failing_input(f"compiled-td:{req}:{sh(gtext)}",
                                  f"compiled table-driven parser deviates from the proven behaviour on `{req}` ({sorted(props)})",
                                  {"grammar": gtext, "request": req, "implementation": d["impl"], "proven_model": d["model"]})
        elif req.startswith("runx ") and pid == "C05" and n_concrete < 3:
            n_concrete += 1
            ctx.failing_input(f"ascent-expected-model:{req}:{sh(gtext)}",
                              "recursive-ascent expected list differs from its model (action row of the error state)",
                              {"grammar": gtext, "request": req, "implementation": d["impl"], "model": d["model"]})
    # ascent vs table-driven (C07: equal modulo expected lists; C05: ascent list soundness)
    asc_cmp = {"compared": 0, "differ_modulo_expected": 0, "expected_overbroad": 0}
    for i, req in enumerate(reqs):
        if not req.startswith("runc ") or i >= len(asc) or asc[i] in ("-", ""):
            continue
        td, ra = parse_line(imps[i]), parse_line(asc[i])
        asc_cmp["compared"] += 1
        same = td["kind"] == ra["kind"] and td.get("pulled") == ra.get("pulled") and td.get("trace") == ra.get("trace")
        if same and td["kind"] == "ok":
            same = td.get("body") == ra.get("body")
        if same and td["kind"] == "err":
            same = td.get("variant") == ra.get("variant") and td.get("site") == ra.get("site")
        if not same:
            asc_cmp["differ_modulo_expected"] += 1
            if pid in ("C07", "C06", "C04", "C02", "C17") and n_concrete < 3:
                cx = ctx_for(ctxs, i)
                # which property: spans only -> C06/C07; otherwise C07 (+ the specific one)
                only_spans = td["kind"] == "ok" and ra["kind"] == "ok" and td.get("shape") == ra.get("shape") and td.get("trace") == ra.get("trace")
                relevant = {"C07"} | ({"C06"} if only_spans else set())
                if not only_spans:
                    relevant |= classify(req, asc[i], imps[i], False)
                if pid in relevant:
                    n_concrete += 1
                    ctx.failing_input(f"backends-differ:{req}:{sh(cx[3] if cx else '')}",
                                      f"table-driven and recursive-ascent parsers disagree on `{req}`",
                                      {"grammar": cx[3] if cx else None, "request": req, "table_driven": imps[i], "recursive_ascent": asc[i]})
        elif td["kind"] == "err" and td.get("expected") != ra.get("expected"):
            asc_cmp["expected_overbroad"] += 1
            if pid == "C05":
                # the table-driven list is the proven-sound one (accepts simulation); the ascent list is the
                # action row of the error state, which includes terminals that only lead to an error after reductions
                tdset = set((td.get("expected") or "").split(",")) - {""}
                raset = set((ra.get("expected") or "").split(",")) - {""}
                cx = ctx_for(ctxs, i)
                if tdset <= raset:
                    ctx.failing_input("ascent-expected-is-state-action-row",
                                      "recursive-ascent expected list names terminals that cannot continue the input",
                                      {"grammar": cx[3] if cx else None, "request": req, "table_driven": imps[i], "recursive_ascent": asc[i]})
                elif n_concrete < 3:
                    n_concrete += 1
                    ctx.failing_input(f"ascent-expected-missing:{req}", "recursive-ascent expected list misses a terminal the table-driven parser lists",
                                      {"grammar": cx[3] if cx else None, "request": req, "table_driven": imps[i], "recursive_ascent": asc[i]})
    ctx.coverage["compiled_layer"]["ascent_vs_table"] = asc_cmp
    return stats, dis, asc_cmp


def replay(ctx, data):
    """re-run one recorded failing input (grammar + request) on the real code and on the model"""
    import tempfile
    (exe,) = ctx.build_harness(["lrreplay"])
    ctx.lean_build(["lpm_lr"])
    out = os.path.join(ctx.scratch, "replay")
    os.makedirs(out, exist_ok=True)
    gfile = os.path.join(out, "g.lalrpop")
    open(gfile, "w").write(data.get("grammar") or "")
    req = data.get("request") or ""
    rc, so, se = ctx.run_harness(exe, [gfile, data.get("algorithm") or "lane", data.get("start") or "N0", req, out])
    print(so.strip())
    if os.path.exists(os.path.join(out, "lrr.req")):
        dis = ctx.correspond("replay", "lpm_lr", "lrr", outdir=out)
        mod = open(os.path.join(out, "lrr.model")).read().strip().split("\n")
        print("model / oracle:", mod[-1] if mod else None)
        for d in dis:
            ctx.failing_input(data.get("fingerprint", "replay"), f"replayed input still fails: {d['req']}",
                              {"grammar": data.get("grammar"), "request": d["req"], "implementation": d["impl"], "proven_model": d["model"]})
