"""C10 — literal and regex terminals match exactly their own language."""
import json
import os

LEVEL = "proof"
MANIFEST = {
    "category": "proof",
    "technique": "Lean 4 theorems over models of regex_syntax::escape + the literal fragment of the regex parser, UTF-8 "
                 "encode/decode, Rust `{:?}` quoting + rustc's string-literal lexer; differential correspondence with the real "
                 "crates and rustc; 3-way differential for general regexes (partial)",
    "text": "literal_roundtrip (the HIR of a quoted terminal \"s\" denotes exactly {s}, for every string of scalar values, via "
            "escape_parse and utf8_roundtrip) and debug_quote_roundtrip (the {:?} quoting of any string, for any choice of "
            "\\u{…}-escaped characters, is read back by the string-literal lexer as that string and ends at the closing quote; "
            "hex_roundtrip) are Lean theorems. The models are compared every run with regex_syntax::escape, parse_literal's HIR, "
            "format!(\"{:?}\") and rustc itself (a scratch crate of quoted constants). General regexes: "
            "rerender_preserves_language is NOT a theorem (regex-syntax's printer/parser are third-party) — it is checked "
            "differentially: regex crate on r == regex crate on format!(\"{hir}\") == runtime MatcherBuilder == the Lean NFA matcher "
            "(proved equal to the HIR's denotation) on all strings <= 4 over an alphabet from the regex's own classes plus samples; "
            "every generated literal must match itself and none of its one-edit neighbours in the runtime matcher.",
    "note": "Partial: the re-rendering of general regexes is explored, not proved. Trusted: Lean kernel; which characters the "
            "standard library renders as \\u{…} is a universally quantified parameter of the theorem; regex-syntax as parser.",
}
MODULE = "LalrpopModel.Props.C10"
NS = "LalrpopModel.ReLit."
THEOREMS = [NS + t for t in ["utf8_roundtrip", "escape_parse", "literal_roundtrip", "hex_roundtrip", "debug_quote_roundtrip",
                                "escape_injective", "debug_quote_injective", "literal_languages_disjoint"]]

FINDING_WHAT = {
    "literal-does-not-parse": "parse_literal fails on a quoted terminal",
    "literal-matches-wrong-string": "a quoted terminal's pattern matches a string other than itself (or not itself)",
    "rerender-changes-language": "format!(\"{hir}\") of a regex terminal matches a different set of strings than the regex",
    "rerender:repetition-of-repetition-printed-without-group":
        "intern_token::compile writes format!(\"{hir}\") into the generated lexer; regex-syntax's HIR printer prints a repetition "
        "of a repetition without a group (`(?:b+){0,1}` -> the lazy `b+?`), so the generated lexer matches a different language",
    "runtime-matcher-deviates": "the runtime MatcherBuilder disagrees with the regex crate on the re-rendered pattern",
    "debug-quote-not-read-back": "rustc reads the {:?}-quoted pattern text back as a different string",
    "quoted-constants-do-not-compile": "{:?}-quoted pattern text is not a valid Rust string literal",
}


def run(ctx):
    ctx.lean_build([MODULE, "lpm_relit"])
    ctx.lean_audit(MODULE, THEOREMS)
    if not ctx.quick():
        ctx.leanchecker(MODULE)
    (exe,) = ctx.build_harness(["relit"])
    n = ctx.vol(6000, 40000)
    out = os.path.join(ctx.scratch, "relit")
    rc, so, se = ctx.run_harness(exe, ["--seed", ctx.seed, "--n", n, "--out", out, "--rustc"], timeout=3000)
    if rc != 0:
        ctx.fatal("harness relit failed: " + se[-800:])
    stats = json.loads(so.strip().splitlines()[-1])
    ctx.correspond("regex_syntax::escape vs ReLit.escape", "lpm_relit", "esc", outdir=out)
    ctx.correspond("parse_literal HIR vs ReLit.parseLiteral", "lpm_relit", "plit", outdir=out)
    ctx.correspond("format!(\"{:?}\") vs ReLit.escDebug", "lpm_relit", "dbg", outdir=out)
    ctx.correspond("rustc string literal vs ReLit.readStrLit", "lpm_relit", "readstr", outdir=out)
    dis = ctx.correspond("regex crate on the regex text vs Lean NFA matcher on its HIR", "lpm_relit", "rer", outdir=out)
    # direct property evaluation on the implementation
    fpath = os.path.join(out, "findings.jsonl")
    findings = [json.loads(l) for l in open(fpath, encoding="utf-8") if l.strip()]
    fresh = 0
    seen_known = set()
    for f in findings:
        if ctx.is_known(f["kind"]) is not None:
            if f["kind"] in seen_known:
                continue
            seen_known.add(f["kind"])
        else:
            fresh += 1
            if fresh > 10:
                continue
        ctx.failing_input(f["kind"], FINDING_WHAT.get(f["kind"], f["kind"]), f)
    ctx.oblige("quoted constants compile and run (rustc)", stats["rustc"].startswith("compiled"), stats["rustc"])
    ctx.coverage.update({
        "evaluations": stats["esc_cases"] + stats["plit_cases"] + stats["dbg_cases"] + stats["readstr_cases"] + stats["rer_words"]
                       + stats["neighbour_checks"],
        "distinct_nontrivial": stats["literal_nontrivial"] + stats["dbg_nontrivial"] + stats["rer_nontrivial"],
        "rule": "distinct literals containing a regex meta character or non-ASCII text; distinct strings whose {:?} form differs "
                "from the string; distinct regexes whose re-rendered text differs from the source and that match some but not "
                "all of the enumerated strings",
        "by_stream": {k: stats[k] for k in stats if k != "hist"},
        "rerender_partial": {"regexes": stats["rer_regexes"], "strings_evaluated": stats["rer_words"],
                             "not_parsable": stats["rer_unparsable"], "unsupported_by_lalrpop_nfa": stats["rer_lean_unsupported"],
                             "hir_semantics_disagreements": len(dis)},
        "generator_distribution": stats["hist"],
        "findings_by_kind": {k: sum(1 for f in findings if f["kind"] == k) for k in sorted({f["kind"] for f in findings})},
    })
    ctx.assumptions += [
        "regex-syntax's parser/printer (third-party): general re-rendering is explored, not proved (rerender_preserves_language_partial)",
        "the characters core::fmt renders as \\u{…} are a parameter of debug_quote_roundtrip (any set works)",
        "generated lexers are compiled by the rustc that read the quoted constants in this run",
    ]
