"""C03 — a grammar is accepted exactly when it is deterministic for the chosen algorithm."""
import hashlib
import json
import os
import re

LEVEL = "proof"
MANIFEST = {
    "category": "proof",
    "technique": "Lean 4 theorems over an executable reference (canonical LR(1) construction, TokenSet::conflicts, LALR "
                 "collapse) + per-grammar certificates (every conflict-free reference automaton and every automaton "
                 "lalrpop accepts is put through the proved LR validator) + verdict correspondence with the real "
                 "lalrpop under {lane table, canonical LR(1), LALR(1)}",
    "text": "Proved for all grammars/states: the model of TokenSet::conflicts answers [] iff the state induces a function "
            "token -> action (conflicts_iff), so the reference verdicts are 'every state deterministic' "
            "(lr1/lalr_accept_iff_deterministic); the LALR collapse merges exactly states of equal LR(0) kernel and unions "
            "lookaheads (lalr_collapse_spec); an ambiguous grammar has no validator-passing tables (no_parser_for_ambiguous); "
            "a reference automaton passing selfCheck is a sound, complete, unambiguous parser (reference_is_correct_parser). "
            "Each run: generated grammars (LR(1)-not-LALR and lane-table-paper families, eps productions, left/right "
            "recursion, unreachable/unproductive nonterminals, ?/*/+ and #[inline]) through the real lalrpop in the three "
            "configurations vs lpm_canon: verdicts, state counts and automata up to renaming (lr1, lalr modes), validation "
            "of every emitted table set. A verdict disagreement is a failing input with a witness.",
    "note": "Not proved: completeness/soundness of the lane-table construction for all grammars (not modelled; "
            "lane_table_exact is kept as a comment, lane_table_sound_partial is the half that follows from the validator). "
            "The canonical construction's general correctness is replaced by per-instance validation (selfcheck lines). "
            "Known findings: the default lane-table construction rejects some LR(1) grammars (two causes).",
}
MODULE = "LalrpopModel.Props.C03"
P = "LalrpopModel.LR.Canon."
THEOREMS = [P + t for t in [
    "no_parser_for_ambiguous", "conflicts_iff", "conflicts_iff_sets", "lr1_accept_iff_deterministic",
    "lalr_accept_iff_deterministic", "lalr_collapse_spec", "reference_is_correct_parser",
    "ambiguous_not_accepted_by_reference", "lane_table_sound_partial", "exAmbig_ambiguous",
]]

ALGO_TEXT = {"lane": "default (lane table)", "lr1": "LALRPOP_LANE_TABLE=disabled (canonical LR(1))",
             "lalr": "#[LALR] + LALRPOP_LANE_TABLE=disabled (LALR(1))"}
REF_OF = {"lane": "lr1", "lr1": "lr1", "lalr": "lalr"}
REF_TEXT = {"lr1": "canonical LR(1) automaton", "lalr": "LALR(1) automaton"}


def sha(s):
    return hashlib.sha256(s.encode()).hexdigest()[:12]


def ask_canon(ctx, grammar_line, questions, tag):
    """one-off questions to lpm_canon about one grammar; returns the answers"""
    req = os.path.join(ctx.scratch, f"q-{tag}.req")
    out = os.path.join(ctx.scratch, f"q-{tag}.model")
    open(req, "w").write("\n".join([grammar_line] + questions) + "\n")
    ctx.lpm("lpm_canon", req, out)
    ans = open(out).read().split("\n")
    return ans[1:1 + len(questions)]


def lane_failure_cause(ctx, exe, text, tag):
    """which step of lalrpop's lane-table construction gave up (from lalrpop's own debug log)"""
    path = os.path.join(ctx.scratch, f"lanelog-{tag}.lalrpop")
    open(path, "w").write(text)
    rc, out, err = ctx.run_harness(exe, ["lanelog", path, os.path.join(ctx.scratch, "lanelog")], timeout=600)
    if "LANELOG-RESULT rejected" not in out:
        return "not-reproduced", ""
    lines = out.splitlines()
    intra = [l for l in lines if l.startswith("rows: intra-row conflict")]
    merge = [l for l in lines if l.startswith("Merge::walk: failed to union")]
    if intra and not merge:
        return "intra-row-overlap", intra[0][:300]
    if merge and not intra:
        return "merge-walk-failed", merge[0][:300]
    return "unclassified", (intra + merge + [""])[0][:300]


def run(ctx):
    ctx.lean_build([MODULE, "lpm_canon"])
    ctx.lean_audit(MODULE, THEOREMS)
    if not ctx.quick():
        ctx.leanchecker(MODULE)
    (exe,) = ctx.build_harness(["lrverdict"])
    args = ["--seed", ctx.seed, "--out", ctx.scratch]
    if ctx.replay_in:
        rp = json.load(open(ctx.replay_in))
        gpath = os.path.join(ctx.scratch, "replay.lalrpop")
        open(gpath, "w").write(rp.get("grammar", ""))
        args += ["--replay", gpath]
    else:
        args += ["--n", ctx.vol(8000, 100000)]
    rc, out, err = ctx.run_harness(exe, args, timeout=7200)
    if rc != 0:
        ctx.fatal("harness lrverdict failed: " + err[-500:])
    stats = json.loads(out.strip().splitlines()[-1])
    hist = stats["hist"]

    # ---- the real API and the hook agree; the three configurations see the same normalized grammar
    ctx.oblige("Configuration::process_file fails exactly when export_automaton reports conflicts",
               not stats["api_mismatch"], json.dumps(stats["api_mismatch"][:2])[:2000])
    ctx.oblige("tables of every accepted grammar can be extracted from the generated parser",
               not stats["extract_fail"], json.dumps(stats["extract_fail"][:2])[:2000])
    ctx.oblige("the normalized grammar does not depend on the construction algorithm",
               not stats["grammar_differs"], json.dumps(stats["grammar_differs"][:2])[:2000])

    # ---- model side
    req_p, imp_p, mod_p = (os.path.join(ctx.scratch, "lrverdict." + e) for e in ("req", "impl", "model"))
    rc = ctx.lpm("lpm_canon", req_p, mod_p, timeout=7200)
    reqs = open(req_p).read().split("\n")[:-1]
    imps = open(imp_p).read().split("\n")[:-1]
    mods = open(mod_p).read().split("\n")[:-1]
    metas = [l.split("\t") for l in open(os.path.join(ctx.scratch, "lrverdict.meta")).read().split("\n")[:-1]]
    grammars = [json.loads(l) for l in open(os.path.join(ctx.scratch, "lrverdict.grammars")).read().split("\n")[:-1]]
    ctx.oblige("lpm_canon answered every request", rc == 0 and len(mods) == len(reqs) == len(imps) == len(metas),
               f"rc={rc} req={len(reqs)} impl={len(imps)} model={len(mods)} meta={len(metas)}")
    n = min(len(reqs), len(imps), len(mods), len(metas))
    by_kind = {}
    dis = {}
    last_grammar_line = {}
    cur_gline = None
    for i in range(n):
        gi, start, algo, kind = metas[i]
        if kind == "grammar":
            cur_gline = reqs[i]
        last_grammar_line[i] = cur_gline
        key = kind if kind != "verdict" else f"verdict:{algo}"
        by_kind[key] = by_kind.get(key, 0) + 1
        if imps[i] != mods[i]:
            dis.setdefault(key, []).append(i)
    ctx.coverage["traces_validated_against_impl"] = n
    certificates = sum(1 for i in range(n) if metas[i][3] == "selfcheck" and mods[i] == "valid")
    validated_out = sum(1 for i in range(n) if metas[i][3] == "validate" and mods[i] == "valid")
    fuel = sum(1 for i in range(n) if metas[i][3] == "verdict" and mods[i] in ("fuel", "panic", "bad-op"))

    def show(idx):
        return json.dumps([{"grammar": grammars[int(metas[i][0])], "start": metas[i][1], "algo": metas[i][2],
                            "req": reqs[i][:200], "impl": imps[i], "model": mods[i]} for i in idx[:2]])[:3000]

    # protocol lines
    bad_proto = dis.get("grammar", []) + dis.get("load", [])
    ctx.oblige(f"protocol: grammars/automata/tables load in lpm_canon ({by_kind.get('grammar', 0)} grammars)",
               not bad_proto, show(bad_proto))
    ctx.oblige("the reference constructions end within their fuel on every generated grammar", fuel == 0, f"{fuel} verdicts")
    # the reference automata are validated parsers (selfcheck): `invalid ..` answers break the oracle;
    # `valid` vs `-` mismatches are the shadow of a verdict disagreement, reported there
    bad_self = [i for i in dis.get("selfcheck", []) if mods[i].startswith("invalid") or mods[i] == "bad-op"]
    ctx.oblige(f"every conflict-free reference automaton passes validateSound && validateComplete ({certificates} certificates)",
               not bad_self, show(bad_self))
    # model fidelity: same construction => same number of states, same automaton up to renaming
    ctx.oblige(f"model fidelity: number of states of lalrpop's lr1/lalr automata = reference ({by_kind.get('states', 0)} automata)",
               not dis.get("states"), show(dis.get("states", [])))
    ctx.oblige(f"model fidelity: lalrpop's lr1/lalr automata = reference up to state renaming, items with lookahead sets "
               f"({by_kind.get('iso', 0)} automata)", not dis.get("iso"), show(dis.get("iso", [])))
    # everything lalrpop accepted validates (per-instance `no parser for a non-deterministic grammar`)
    ctx.oblige(f"tables lalrpop emitted for accepted grammars pass the validator ({validated_out} table sets)",
               not dis.get("validate"), show(dis.get("validate", [])))
    # the legacy constructions are what the reference defines
    for algo in ("lr1", "lalr"):
        k = f"verdict:{algo}"
        ctx.oblige(f"correspondence: verdict of lalrpop [{ALGO_TEXT[algo]}] = reference {REF_TEXT[REF_OF[algo]]} "
                   f"conflict-free ({by_kind.get(k, 0)} grammars x start symbols)", not dis.get(k), show(dis.get(k, [])))
    ctx.coverage["correspondences"] = {
        k: {"cases": by_kind.get(k, 0), "disagreements": len(dis.get(k, []))} for k in sorted(by_kind)}

    # ---- property-level: every verdict disagreement is a failing input (grammar + algorithm)
    lane_known = {}
    verdict_dis = [i for k in ("verdict:lane", "verdict:lr1", "verdict:lalr") for i in dis.get(k, [])]
    for i in verdict_dis[:250]:
        gi, start, algo, _ = metas[i]
        text = grammars[int(gi)]
        if algo == "lalr":
            text = "#[LALR]\n" + text
        ref = REF_OF[algo]
        gline = last_grammar_line[i]
        tag = f"{gi}-{algo}"
        replay = {"grammar": grammars[int(gi)], "grammar_as_built": text, "algorithm": algo,
                  "configuration": ALGO_TEXT[algo], "start_symbol": start,
                  "lalrpop_verdict": imps[i], f"reference_{ref}_verdict": mods[i], "normalized_grammar": gline,
                  "how": "write grammar_as_built to g.lalrpop; `lalrpop -f g.lalrpop` with the environment of "
                         "`configuration`; reference: printf '<normalized_grammar>\\nverdict " + ref +
                         "\\nwitness " + ref + "\\n' | /verif/lean/.lake/build/bin/lpm_canon"}
        if imps[i] == "ok" and mods[i] == "conflict":
            # lalrpop accepts, the reference automaton has a conflict: conflicting items; ambiguous sentence if any
            (w,) = ask_canon(ctx, gline, [f"witness {ref}"], tag)
            replay["reference_conflicts"] = w[:6000]
            gp = os.path.join(ctx.scratch, f"amb-{tag}.lalrpop")
            open(gp, "w").write(grammars[int(gi)])
            rc2, out2, _ = ctx.run_harness(exe, ["ambig", gp], timeout=600)
            try:
                amb = json.loads(out2.strip().splitlines()[-1])
            except Exception:
                amb = []
            if amb:
                replay["sentence_with_two_derivations"] = amb
            what = (f"lalrpop [{ALGO_TEXT[algo]}] accepts a grammar whose {REF_TEXT[ref]} has a conflict"
                    + (" (ambiguous: a sentence with two derivations is attached)" if amb else ""))
            fp = f"accepts-nondeterministic:{algo}:{sha(text)}"
        elif imps[i] == "conflict" and mods[i] == "ok":
            (d, sc) = ask_canon(ctx, gline, [f"dump {ref}", f"selfcheck {ref}"], tag)
            replay["reference_automaton"] = d[:20000]
            replay["reference_automaton_validates"] = sc
            if algo == "lane":
                # (only the start symbol in question stays `pub`: lalrpop stops at the first failing one)
                single = re.sub(r"^pub (N\d+:)", r"\1", text, flags=re.M)
                single = re.sub(r"^(%s:)" % re.escape(start), r"pub \1", single, flags=re.M)
                cause, line = lane_failure_cause(ctx, exe, single, tag)
                replay["lane_table_gave_up_at"] = {"cause": cause, "log_line": line}
                fp = f"lane-table-rejects-LR1-grammar:{cause}"
                lane_known.setdefault(cause, []).append(grammars[int(gi)])
                what = (f"the default lane-table construction reports a conflict for an LR(1) grammar "
                        f"(canonical LR(1) automaton conflict-free and validated; lalrpop itself accepts it with "
                        f"LALRPOP_LANE_TABLE=disabled); construction step that gave up: {cause}")
            else:
                fp = f"rejects-deterministic:{algo}:{sha(text)}"
                what = f"lalrpop [{ALGO_TEXT[algo]}] reports a conflict although the {REF_TEXT[ref]} has none"
        else:
            fp = f"verdict:{algo}:{imps[i]}-vs-{mods[i]}:{sha(text)}"
            what = f"lalrpop [{ALGO_TEXT[algo]}] answers {imps[i]}, reference answers {mods[i]}"
        ctx.failing_input(fp, what, replay)
    # a lalrpop output that fails validation on a grammar the reference rejects is covered above; one that fails
    # on a grammar the reference accepts is reported as a broken obligation (C01's failing input, not C03's)

    # ---- coverage
    def split(algo):
        return {"accepted": hist.get(f"verdict:{algo}:ok", 0), "rejected": hist.get(f"verdict:{algo}:conflict", 0)}
    classes = {k.split(":", 1)[1]: v for k, v in hist.items() if k.startswith("class:")}
    ctx.coverage.update({
        "evaluations": stats["evaluations"],
        "distinct_nontrivial": stats["distinct_nontrivial"],
        "rule": "one evaluation = one generated grammar built by the real lalrpop under one of the three configurations "
                "(export_automaton + Configuration::process_file); distinct = distinct normalized grammars (production "
                "lists after macro expansion/inlining, per start symbol); non-trivial = rejected by some configuration, or "
                "the canonical automaton has a state that needs its lookahead (a reduction next to another action). "
                "Generator: shared CFG generator (templates, mutated templates, random), parametric LR(1)-not-LALR family "
                "(prefix x reducer x suffix with 7 body shapes incl. eps/left/right recursion/nesting), the grammars of "
                "lalrpop's lane-table tests (G0, G1, G2, large) with 0-4 mutations (add/drop/replace symbol or "
                "alternative, eps alternative, terminal swap), plus unreachable / unproductive nonterminals (1/5), "
                "?/*/+ on symbols (1/7), #[inline] (1/10), second pub start (1/10), `!` recovery (some templates)",
        "exhaustive": False,
        "grammars_generated": stats["grammars"],
        "grammar_x_start_cases": by_kind.get("grammar", 0),
        "accept_reject_split_per_algorithm": {a: split(a) for a in ("lane", "lr1", "lalr")},
        "grammar_classes_by_lalrpop_verdicts": classes,
        "lr1_but_not_lalr_grammars": classes.get("LR(1)-not-LALR(1)", 0),
        "features_of_normalized_grammars": {k.split(":", 1)[1]: v for k, v in hist.items() if k.startswith("feature:")},
        "reference_certificates": certificates,
        "lalrpop_outputs_validated": validated_out,
        "lane_table_state_counts_vs_canonical": {k.split(":", 1)[1]: v for k, v in hist.items() if k.startswith("lane-states:")},
        "verdict_disagreements": {k: len(v) for k, v in dis.items() if k.startswith("verdict")},
        "verdict_disagreements_examined": min(len(verdict_dis), 250),
        "lane_table_rejections_of_LR1_grammars_by_cause": {k: len(v) for k, v in lane_known.items()},
        "generator_distribution": {k: v for k, v in hist.items()
                                   if k.startswith(("origin:", "decoration:", "export:", "grammar-verdict:"))},
    })
    for s in stats["samples"][:2] + stats["lr1_not_lalr_samples"][:1]:
        ctx.coverage["samples"].append({"grammar": s})
    for cause, gs in lane_known.items():
        ctx.coverage["samples"].append({"lane_table_rejects_LR1_grammar": gs[0], "cause": cause})
    ctx.assumptions += [
        "the Lean functions buildStates / collapse are taken as the DEFINITION of the canonical LR(1) / LALR(1) automaton; "
        "their agreement with lalrpop's legacy constructions is checked per grammar (verdict, state count, isomorphism), and "
        "every conflict-free reference automaton is certified by the proved validator (so a reference 'accept' is never wrong; "
        "a reference 'conflict' is canonical-LR(1)-by-definition)",
        "export_automaton (verif hook) reports the automaton/conflicts the code generators receive; cross-checked against "
        "Configuration::process_file on every grammar",
        "classification of lane-table rejections reads lalrpop's own debug log (rows: intra-row conflict / Merge::walk: failed to union)",
        "Nil::conflicts (LR(0) conflict detection) is not modelled: in the lane-table construction both of its outcomes hand the "
        "same LR(0) states on; permit_early_stop (stop after max_errors conflicts) is not modelled: it cannot change a verdict",
    ]
