"""C14 — inlining a nonterminal preserves language and parse results."""
import json

LEVEL = "proof"
MANIFEST = {
    "category": "proof",
    "technique": "Lean 4 theorems over a model of the lowered grammar, inline_order (DFS with cycle detection), "
                 "Inliner::inline (cross product) and the composed action functions; model tied to lalrpop by "
                 "differential runs of the real pass (stage dumps), of the emitted action code, and by compiled parser pairs",
    "text": "For every grammar and every #[inline] nonterminal that does not occur in its own productions the inlined "
            "grammar derives the same words with the same values from every nonterminal (substitution lemma, by induction "
            "on derivations; values for arbitrary interpretations of the user actions), the new productions are exactly "
            "the cross product of choices per occurrence in emission order, inline_order rejects exactly the cyclic "
            "inline graphs and otherwise returns a topological order, and a composed action runs its inlined actions "
            "left to right before the host action. The literal claim about user errors is refuted by a proved "
            "counterexample (error order), reproduced on compiled parsers.",
    "note": "Trusted: Lean kernel (axioms propext/Classical.choice/Quot.sound only); the hand model's fidelity, "
            "exercised each run by the stage-dump correspondence on random grammars (nested inlining, several occurrences, "
            "empty/fallible productions, cycles), the emitted-code correspondence and compiled pairs; rustc; the harness.",
}
MODULE = "LalrpopModel.Props.C14"
THEOREMS = [
    "LalrpopModel.Inline.cross_product_complete",
    "LalrpopModel.Inline.inline_nt_productions",
    "LalrpopModel.Inline.inline_language_eq",
    "LalrpopModel.Inline.inline_value_eq_when_no_failure",
    "LalrpopModel.Inline.inline_all_value_eq",
    "LalrpopModel.Inline.inline_grammar_value_eq",
    "LalrpopModel.Inline.inline_order_spec",
    "LalrpopModel.Inline.inline_order_leftmost_failure",
    "LalrpopModel.Inline.choices_length",
    "LalrpopModel.Inline.inline_order_topological",
    "LalrpopModel.Inline.cycle_rejected",
    "LalrpopModel.Inline.cycle_error_is_cycle",
    "LalrpopModel.Inline.inlineOrder_no_outOfFuel",
    "LalrpopModel.Inline.inline_error_order_counterexample",
    "LalrpopModel.Inline.inline_order_not_left_to_right",
]

FP_ERROR_ORDER = "inline-error-order"
FP_ACTION_ORDER = "inline-action-order-not-left-to-right"


def run(ctx):
    ctx.lean_build([MODULE, "lpm_inline"])
    ctx.lean_audit(MODULE, THEOREMS)
    if not ctx.quick():
        ctx.leanchecker(MODULE)
    (exe,) = ctx.build_harness(["inline"])
    import os
    runs = ctx.vol(1, 8)           # thorough: several batches (one scratch crate of compiled pairs each)
    n = ctx.vol(1500, 2500)
    pairs = ctx.vol(40, 50)
    emit = ctx.vol(25, 40)
    base_seed = ctx.seed
    if ctx.replay_in:
        # a replay file carries the seed of the run that produced it
        try:
            base_seed = json.load(open(ctx.replay_in)).get("seed", ctx.seed)
        except Exception:
            pass
    tot = {"stage_cases": 0, "stage_distinct_nontrivial": 0, "emit_cases": 0, "pairs": 0,
           "pair_inputs_compared": 0, "logs_checked": 0}
    hist, pair_hist, findings, sample = {}, {}, [], ""
    for i in range(runs):
        outdir = os.path.join(ctx.scratch, f"run{i}")
        args = ["--seed", base_seed + 1000003 * i, "--n", n, "--out", outdir, "--pairs", pairs, "--emit", emit,
                "--lpm", "/verif/lean/.lake/build/bin/lpm_inline"]
        rc, out, err = ctx.run_harness(exe, args)
        if rc != 0:
            ctx.fatal("harness inline failed: " + err[-800:])
        stats = json.loads(out.strip().splitlines()[-1])
        for k in tot:
            tot[k] += stats[k]
        for k, v in stats["hist"].items():
            hist[k] = hist.get(k, 0) + v
        for k, v in stats["pair_hist"].items():
            pair_hist[k] = pair_hist.get(k, 0) + v
        findings += stats["findings"]
        sample = sample or stats.get("sample_grammar", "")
        # The pass is internal: a disagreement is a broken correspondence (the theorems no longer
        # speak about the code), not by itself an input on which C14 fails; the compiled pairs are
        # the property-level search.
        ctx.correspond(f"inline pass (stage_dump lower -> inline) vs Model.Inline [batch {i}]", "lpm_inline",
                       "inline", outdir=outdir)
        ctx.correspond(f"emit_inline_action_code bodies vs Model.Inline plan [batch {i}]", "lpm_inline",
                       "inlemit", outdir=outdir)
    stats = dict(tot, hist=hist, pair_hist=pair_hist, findings=findings, sample_grammar=sample)
    ctx.coverage.update({
        "evaluations": stats["stage_cases"] + stats["emit_cases"] + stats["pair_inputs_compared"],
        "distinct_nontrivial": stats["stage_distinct_nontrivial"],
        "rule": "stage tie: distinct lowered grammars on which the inline pass changes the grammar (measured by the harness, "
                "per batch); additionally emitted inline action functions compared line by line, and (grammar pair, input) "
                "runs of compiled parsers with/without #[inline]",
        "generator_distribution": {"stage": stats["hist"], "pairs": stats["pair_hist"]},
        "stage_cases": stats["stage_cases"],
        "emit_action_fns_compared": stats["emit_cases"],
        "compiled_pairs": stats["pairs"],
        "pair_inputs_compared": stats["pair_inputs_compared"],
        "action_order_logs_checked": stats["logs_checked"],
    })
    ctx.coverage["samples"].append({"compiled_pair_grammar": stats.get("sample_grammar", "")[:1500]})

    # one report per fingerprint: the fixed witnesses come first in the harness output
    seen = set()
    counts = {}
    for f in stats["findings"]:
        counts[f.get("kind")] = counts.get(f.get("kind"), 0) + 1
    ctx.coverage["finding_instances"] = counts
    for f in stats["findings"]:
        kind = f.get("kind")
        if kind in ("error-order", "inlined-action-order-not-left-to-right"):
            if kind in seen:
                continue
            seen.add(kind)
        replay = {k: f.get(k) for k in ("input", "plain", "inlined", "plain_log", "inlined_log",
                                        "grammar_plain", "grammar_inlined", "stderr")}
        replay["how"] = ("generate both grammars with lalrpop, compile, parse `input` with SParser (grammar parameter "
                         "log: &RefCell<Vec<usize>>); harness/src/bin/inline.rs does this for --pairs")
        if kind == "error-order":
            ctx.failing_input(FP_ERROR_ORDER,
                              "inlining changes which error is returned: the inlined action runs at the host's reduction, "
                              "after later reductions / after a later syntax error is detected (inherent to inlining; "
                              "Lean: inline_error_order_counterexample)", replay)
        elif kind == "inlined-action-order-not-left-to-right":
            ctx.failing_input(FP_ACTION_ORDER,
                              "actions of different #[inline] nonterminals in one production run in reverse inline order "
                              "(the nonterminal inlined last runs first), not left to right "
                              "(Lean: inline_order_not_left_to_right)", replay)
        else:
            # result-mismatch, plain-action-order, inlined-action-order-unexplained, rustc-error, missing-output
            ctx.failing_input(f"{kind}:{f.get('input')}:{hash_text(f.get('grammar_inlined'))}",
                              f"compiled parsers with and without #[inline] disagree ({kind})", replay)
    ctx.assumptions += [
        "well-formed lowered grammar (WF, Filed): every production's action index is in range, names are distinct, productions "
        "are filed under their own nonterminal — checked by the driver on every dump it reads (a violation answers "
        "`hypothesis-WF-violated`, i.e. a disagreement)",
        "value semantics: user actions are arbitrary functions of their arguments (Except-valued), locations are excluded (C06)",
        "compiled pairs use String-valued actions rendering the parse tree and a log parameter for the order of execution",
    ]


def hash_text(s):
    import hashlib
    return hashlib.sha256((s or "").encode()).hexdigest()[:10]
