"""C16 — Error recovery yields a well-formed tree and accounts for every token."""
from checks import lrfamily

LEVEL = "proof"
MODULE = "LalrpopModel.Props.C16"
THEOREMS = ['LalrpopModel.LR.drive_sound', 'LalrpopModel.LR.drive_yield_sublist', 'LalrpopModel.LR.GenericThms.dropped_in_order', 'LalrpopModel.LR.GenericThms.covered_subsequence', 'LalrpopModel.LR.GenericThms.leaves_subsequence', 'LalrpopModel.LR.GenericThms.no_recovery_without_error_action', 'LalrpopModel.LR.GenericThms.error_spans_ordered', 'LalrpopModel.LR.GenericThms.token_accounting', 'LalrpopModel.LR.GenericThms.recovery_entered_only_on_error_action']
MANIFEST = {
    "category": "proof",
    "technique": 'Lean 4 proof (recovery invariants over the driver model) + certificates + correspondence',
    "text": 'With recovery on, drive_sound gives a WF derivation with error nodes as the `!` terminal; leaves are a subsequence of the input; dropped tokens are contiguous input runs in order; token_accounting splits the consumed input into one segment per stack symbol inside its span; error spans ordered and disjoint; no recovery without an error action. Real driver and compiled recovery grammars compared with the model on corrupted sentences.',
    "note": 'Recursive ascent does not support `!`; only the table-driven backend is exercised.',
}


def run(ctx):
    lrfamily.obligations(ctx, MODULE, THEOREMS)
    lrfamily.driver_layer(ctx, "C16")
    # recovery-focused run: every grammar uses `!`, inputs with bursts of junk and truncations
    lrfamily.driver_layer(ctx, "C16", grammars=ctx.vol(60, 600), inputs=ctx.vol(60, 120), exh=0, extra=["bang=always"], tag="recovery_focus")
    lrfamily.compiled_layer(ctx, "C16")
    ctx.coverage.setdefault("trusted_base", []).extend(lrfamily.TRUST_LR)
    ctx.coverage["rule"] = ("grammars from LR-biased templates, mutations and random CFGs x {lane-table, canonical LR(1), LALR}; "
                            "inputs = sampled sentences, single-token mutations, random strings, injected errors, all short strings")
    ctx.coverage["evaluations"] = ctx.coverage.get("traces_validated_against_impl", 0)
    ctx.coverage["distinct_nontrivial"] = ctx.coverage.get("driver_layer", {}).get("distinct_tables", 0) + ctx.coverage.get("compiled_layer", {}).get("grammars", 0)
    ctx.assumptions += ["token kinds handed to the driver are terminal indices (< nTerm): what __token_to_integer answers"]
