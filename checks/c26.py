"""C26 — grammar layout is insignificant, embedded Rust is transferred verbatim."""
import json
import os
import re

from checks import common

LEVEL = "proof"
MANIFEST = {
    "category": "proof",
    "technique": "Lean 4 theorems over a function-by-function model of tok::Tokenizer + source-fact extraction + "
                 "differential correspondence with the real tokenizer + property search on the real code",
    "text": "Model/Tok.lean mirrors Tokenizer (next_unshifted, code, block_comment, regex_literal, string_literal, "
            "lifetimeish, identifierish, shebang_attribute, right_arrow) over List Char with byte offsets. Theorems: "
            "block_comment_matches_rustc, code_scan_ends_at_terminator, tokens_of_render / layout_invariance for "
            "token-tree specifications of grammar files under any two layouts that respect the stated hypotheses, "
            "witnesses for the hypotheses that are real restrictions. Two facts of tok/mod.rs (how `code` treats `r`, "
            "the second bump in shebang_attribute) are re-extracted from the source on every run and select the model "
            "variant. The model is tied to the code by tokenizing every corpus grammar, mutated corpus windows, random "
            "strings, rendered token trees and generated Rust snippets with both, and by comparing the character "
            "classes over all code points; the property itself is evaluated on the real tokenizer (spec tokens of "
            "rendered token trees; code ends at the terminator) and on the real Configuration (layout-perturbed corpus "
            "grammars generate the same parser).",
    "note": "Trusted: Lean kernel (propext/Classical.choice/Quot.sound only), the model's fidelity as far as the "
            "correspondence exercises it, the harness' reference scanner for Rust literal boundaries. Layout inside "
            "action code is only covered by the verbatim-transfer argument (code token text = source text).",
}
MODULE = "LalrpopModel.Props.C26"
T = "LalrpopModel.Tok."
THEOREMS = [T + n for n in [
    "tokenizer_total", "block_comment_matches_rustc", "regex_scan", "code_scan_ends_at_terminator", "rawOK_fixed",
    "skip_layout", "atom_step", "tokens_of_render", "layout_invariance",
    "raw_string_no_hash_witness", "raw_string_hash_count_witness", "macro_id_layout_witness", "shebang_next_char_witness",
]]

TOK_RS = os.path.join(common.REPO, "lalrpop/src/tok/mod.rs")
FACTS = os.path.join(common.LEAN, "LalrpopModel/Gen/TokFacts.lean")


def _fn_body(src, name):
    """text of `fn name …{ … }` (brace matching that skips comments, string and char literals)"""
    m = re.search(r"\bfn " + name + r"\b", src)
    if not m:
        return None
    i = src.index("{", m.end())
    depth, j, n = 0, i, len(src)
    while j < n:
        c = src[j]
        if src.startswith("//", j):
            j = src.find("\n", j)
            if j < 0:
                return None
            continue
        if src.startswith("/*", j):
            j = src.find("*/", j) + 2
            continue
        if c == '"':
            j += 1
            while j < n and src[j] != '"':
                j += 2 if src[j] == "\\" else 1
            j += 1
            continue
        if c == "'":
            if j + 1 < n and src[j + 1] == "\\":
                j = src.index("'", j + 3) + 1
                continue
            if j + 2 < n and src[j + 2] == "'":
                j += 3
                continue
            j += 1
            continue
        if c == "{":
            depth += 1
        elif c == "}":
            depth -= 1
            if depth == 0:
                return src[i:j + 1]
        j += 1
    return None


def extract_facts(ctx):
    """The two source facts the model is parameterised by; None if the source is in neither known shape."""
    src = open(TOK_RS).read()
    norm = lambda t: re.sub(r"\s+", " ", re.sub(r"//[^\n]*", "", t)).strip()
    code = _fn_body(src, "code") or ""
    m = re.search(r"else if c == 'r' \{(.*?)continue;", code, re.S)
    raw = None
    if m:
        b = norm(m.group(1))
        if b == "self.bump(); if let Some((idx, '#')) = self.lookahead { self.regex_literal(idx)?; }":
            raw = True
        elif b in ("self.bump(); if let Some((_, '#' | '\"')) = self.lookahead { self.regex_literal(idx)?; }",
                   "self.bump(); if let Some((_, '#')) | Some((_, '\"')) = self.lookahead { self.regex_literal(idx)?; }"):
            raw = False
    sheb = _fn_body(src, "shebang_attribute") or ""
    m = re.search(r"0 => \{(.*?)return Ok", sheb, re.S)
    dbl = None
    if m:
        b = norm(m.group(1))
        if b == "let idx2 = idx1 + 1; let data = &self.text[idx0..idx2]; self.bump();":
            dbl = True
        elif b == "let idx2 = idx1 + 1; let data = &self.text[idx0..idx2];":
            dbl = False
    ok = raw is not None and dbl is not None
    ctx.oblige("source facts of tok/mod.rs recognised (code: `r` branch; shebang_attribute: bumps after `]`)", ok,
               f"rawLegacy={raw} shebangDoubleBump={dbl}")
    if ok:
        text = ("import LalrpopModel.Model.Tok\n"
                "/-! GENERATED by checks/c26.py from /repo/lalrpop/src/tok/mod.rs on every run — do not edit. -/\n"
                "namespace LalrpopModel.Tok\n"
                f"def sourceCfg : Cfg := {{ rawLegacy := {str(raw).lower()}, shebangDoubleBump := {str(dbl).lower()} }}\n"
                "end LalrpopModel.Tok\n")
        if not os.path.exists(FACTS) or open(FACTS).read() != text:
            open(FACTS, "w").write(text)
    return raw, dbl


def run(ctx):
    raw, dbl = extract_facts(ctx)
    if raw is None or dbl is None:
        # unknown shape: keep the last generated facts; the correspondence below will show the difference
        cur = open(FACTS).read()
        raw = "rawLegacy := true" in cur
        dbl = "shebangDoubleBump := true" in cur
    ctx.lean_build([MODULE, "lpm_tok"])
    ctx.lean_audit(MODULE, THEOREMS)
    if not ctx.quick():
        ctx.leanchecker(MODULE)
    (exe,) = ctx.build_harness(["tokz"])

    if ctx.replay_in:
        rp = json.load(open(ctx.replay_in))
        for key in ("text", "text_a", "text_b", "perturbed_text"):
            if key in rp:
                rc, out, _ = ctx.run_harness(exe, ["--probe", "x" + rp[key].encode().hex(), "--out", ctx.scratch])
                ctx.log(f"replay {key}: {out.strip()[:400]}")

    n = ctx.vol(20000, 200000)
    gen = ctx.vol(12, 80)
    rc, out, err = ctx.run_harness(exe, ["--seed", ctx.seed, "--n", n, "--gen", gen, "--compile", ctx.vol(80, 600), "--out", ctx.scratch,
                                         "--raw-legacy", int(raw), "--double-bump", int(dbl)])
    if rc != 0:
        ctx.fatal("harness tokz failed: " + err[-800:])
    stats = json.loads(out.strip().split("\n")[-1])
    ctx.coverage.update({
        "evaluations": stats["cases"],
        "distinct_nontrivial": stats["distinct_nontrivial"],
        "rule": "distinct token-kind/text sequences (spans ignored) among mutated corpus windows and rendered token trees, "
                "plus distinct well-formed code snippets; whole corpus files, random strings and probes come on top",
        "corpus_files": stats["corpus_files"],
        "docs_checked_against_spec": stats["docs_checked"],
        "snippets_checked": stats["snippets_checked"],
        "grammars_regenerated_under_layout_perturbation": stats["gen_grammars"],
        "layout_insertions_in_those": stats["gen_perturbations"],
        "compiled_action_values_checked": stats["compiled_action_values"],
        "generator_distribution": stats["hist"],
        "source_facts": {"rawLegacy": raw, "shebangDoubleBump": dbl},
    })
    ctx.coverage["samples"] += [{"rendered_token_tree": stats["sample_doc"]}, {"code_token_case": stats["sample_snippet"]}]
    ctx.correspond("tok::Tokenizer vs Model.Tok (token streams with spans, character classes)", "lpm_tok", "tok")

    # hypotheses of the theorems about the character classes, checked on the real tokenizer's classes
    def ranges(line):
        out = []
        for r in line.strip().split(","):
            if r:
                a, b = r.split("-")
                out.append((int(a, 16), int(b, 16)))
        return out
    imp = open(os.path.join(ctx.scratch, "tok.impl"), encoding="utf-8").read().split("\n")
    start, cont, white = ranges(imp[0]), ranges(imp[1]), ranges(imp[2])
    inside = lambda r, rs: any(a <= r[0] and r[1] <= b for a, b in rs)
    overlap = lambda r, rs: any(not (r[1] < a or b < r[0]) for a, b in rs)
    ctx.oblige("identifier starts are identifier characters (hypothesis of isWord), white space is neither (ws_facts), on the real tokenizer",
               all(inside(r, cont) for r in start) and not any(overlap(r, cont) or overlap(r, start) for r in white),
               f"{len(start)} start ranges, {len(cont)} continue ranges, {len(white)} white ranges")

    # property failures on the real code, found by the harness
    seen = set()
    for line in open(os.path.join(ctx.scratch, "violations.jsonl"), encoding="utf-8"):
        if not line.strip():
            continue
        v = json.loads(line)
        fp = v.pop("fingerprint")
        what = v.pop("what")
        if fp in seen:
            continue
        seen.add(fp)
        ctx.failing_input(fp, what, v)
    ctx.assumptions += [
        "the grammar parser's decisions depend on the token kinds and texts only (spans feed diagnostics)",
        "rustc's lexing of string/char/raw-string/comment boundaries is as written in the harness' reference scanner and in Props/C26 (refComment, RT)",
    ]
