"""C01 — Generated parsers accept exactly the language of the start symbol."""
from checks import lrfamily

LEVEL = "proof"
MODULE = "LalrpopModel.Props.C01"
THEOREMS = ['LalrpopModel.LR.accepts_iff_derives', 'LalrpopModel.LR.accepted_value_is_derivation', 'LalrpopModel.LR.drive_sound', 'LalrpopModel.LR.drive_yield', 'LalrpopModel.LR.ok_implies_derives', 'LalrpopModel.LR.derives_implies_ok', 'LalrpopModel.LR.drive_complete', 'LalrpopModel.LR.driver_no_panic']
MANIFEST = {
    "category": "proof",
    "technique": 'Lean 4 proof of a table validator (translation validation per automaton) + driver/compiled-parser correspondence',
    "text": 'Theorem accepts_iff_derives: for EVERY grammar/tables/automaton passing the executable validator and EVERY token sequence, the model of Parser::drive returns Ok iff the kinds are derivable from the start symbol (soundness by a stack invariant over the exported LR(0) cores, completeness by induction on derivation trees over a checked LR(1) item annotation). The validator is run on every automaton the real lalrpop builds in the run (lane-table, canonical LR(1), LALR) against the tables extracted from the generated source: each `valid` covers all inputs for that grammar. The driver model is tied to state_machine.rs by running the real Parser::drive on the same tables, and to the generated code by rustc-compiled parsers of both code generators; all strings up to a length bound are cross-checked against a table-independent membership oracle.',
    "note": 'Per grammar the quantifier over inputs is discharged by proof; the quantifier over grammars is discharged per exported instance (lane-table construction itself is not proven). Recursive-ascent is tied by compiled correspondence only. Trusted: Lean kernel, extractor/hook, model fidelity as exercised by the correspondences.',
}


def run(ctx):
    lrfamily.obligations(ctx, MODULE, THEOREMS)
    lrfamily.driver_layer(ctx, "C01")
    lrfamily.compiled_layer(ctx, "C01")
    ctx.coverage.setdefault("trusted_base", []).extend(lrfamily.TRUST_LR)
    ctx.coverage["rule"] = ("grammars from LR-biased templates, mutations and random CFGs x {lane-table, canonical LR(1), LALR}; "
                            "inputs = sampled sentences, single-token mutations, random strings, injected errors, all short strings")
    ctx.coverage["evaluations"] = ctx.coverage.get("traces_validated_against_impl", 0)
    ctx.coverage["distinct_nontrivial"] = ctx.coverage.get("driver_layer", {}).get("distinct_tables", 0) + ctx.coverage.get("compiled_layer", {}).get("grammars", 0)
    ctx.assumptions += ["token kinds handed to the driver are terminal indices (< nTerm): what __token_to_integer answers"]
