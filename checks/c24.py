"""C24 — formatting options do not change the generated program."""
import glob
import json
import os
import re

from checks import common

LEVEL = "proof"
MANIFEST = {
    "category": "proof",
    "technique": "Lean 4 theorems over a model of RustWrite and a Rust lexer + source-fact translation of every "
                 "emit_comments-guarded emission + differential runs of the real Configuration under all 8 flag combinations",
    "text": "Model/Rw.lean mirrors RustWrite (write_fmt indentation bookkeeping, write_indentation, the three layouts "
            "of write_table_row); Model/RustLex.lean is a Rust lexer transducer. Theorems: blanks and `//` comments lex "
            "to nothing, the three row layouts lex alike, and the token stream of everything the generator writes is a "
            "flag-independent function of the emission events when the flag-dependent events are comment lines. That "
            "side condition is discharged from the source: every emission under an emit_comments test in "
            "lr1/codegen/*.rs and rust/mod.rs is re-extracted with its format string into Gen/GuardedSites.lean on every "
            "run and `guarded_sites_are_comments` (format = blanks + `//` + non-doc body, no newline, no escapes) is "
            "closed by `decide`; a comment format instantiates to a comment line for newline-free arguments. The tie runs "
            "corpus and random grammars through the real Configuration under all 8 combinations of "
            "emit_comments/emit_whitespace/emit_report and compares the token streams of the .rs files with the Lean "
            "lexer and with an independent Rust-side lexer; emit_report must not change the .rs at all.",
    "note": "Trusted: Lean kernel, the two lexers as descriptions of Rust's token boundaries, that arguments formatted "
            "into guarded comments contain no newline (Debug-escaped kinds; exercised by the runs), the event view of "
            "the generator (each rust! call is one line event).",
}
MODULE = "LalrpopModel.Props.C24"
T = "LalrpopModel.Rw."
THEOREMS = [T + n for n in [
    "line_comment_lexes_empty", "indentation_lexes_empty", "row_layouts_lex_equal", "render_lex_spec",
    "render_flags_lex_equal", "multi_line_buffer_verbatim", "multi_line_buffer_flag_independent", "comment_format_instantiates", "guarded_sites_are_comments",
    "comment_display_formats_are_comments", "rw_source_facts_match_model",
]]

SRC = os.path.join(common.REPO, "lalrpop/src")
GEN = os.path.join(common.LEAN, "LalrpopModel/Gen/GuardedSites.lean")


# ------------------------------------------------------------------ Rust source scanning
def literal_spans(src):
    spans, i, n = [], 0, len(src)
    while i < n:
        if src.startswith("//", i):
            j = src.find("\n", i)
            j = n if j < 0 else j
            spans.append((i, j, "c"))
            i = j
            continue
        if src.startswith("/*", i):
            j = src.find("*/", i) + 2
            spans.append((i, j, "c"))
            i = j
            continue
        c = src[i]
        if c == '"':
            j = i + 1
            while j < n and src[j] != '"':
                j += 2 if src[j] == "\\" else 1
            spans.append((i, j + 1, "s"))
            i = j + 1
            continue
        if c == "r" and re.match(r'r#*"', src[i:i + 8]) and (i == 0 or not (src[i - 1].isalnum() or src[i - 1] == "_")):
            m = re.match(r'r(#*)"', src[i:])
            close = '"' + m.group(1)
            j = src.find(close, i + len(m.group(0))) + len(close)
            spans.append((i, j, "s"))
            i = j
            continue
        if c == "'":
            if i + 1 < n and src[i + 1] == "\\":
                j = src.index("'", i + 3) + 1
                spans.append((i, j, "s"))
                i = j
                continue
            if i + 2 < n and src[i + 2] == "'":
                spans.append((i, i + 3, "s"))
                i += 3
                continue
        i += 1
    return spans


def mask(src):
    out = list(src)
    sp = literal_spans(src)
    for a, b, _ in sp:
        for t in range(a, b):
            if out[t] != "\n":
                out[t] = " "
    return "".join(out), sp


def match_close(m, i, o="{", c="}"):
    depth = 0
    for j in range(i, len(m)):
        if m[j] == o:
            depth += 1
        elif m[j] == c:
            depth -= 1
            if depth == 0:
                return j
    raise ValueError("unbalanced")


def emissions(src, m, strs, lo, hi):
    for em in re.finditer(r"\b(rust!|writeln!|write!)\s*\(", m[lo:hi]):
        a = lo + em.end()
        j = match_close(m, a - 1, "(", ")")
        s = min((x for x in strs if a < x < j), default=None)
        lit = src[s + 1:strs[s] - 1] if s is not None else None
        args = re.sub(r"\s+", " ", src[strs[s]:j].strip().lstrip(",").strip()) if s is not None else ""
        fn = (re.findall(r"\bfn (\w+)", m[:a]) or ["?"])[-1]
        yield {"line": src.count("\n", 0, a) + 1, "macro": em.group(1), "fmt": lit, "args": args, "fn": fn}


def scan_file(path):
    src = open(path).read()
    m, sp = mask(src)
    rel = os.path.relpath(path, SRC)
    strs = {a: b for a, b, k in sp if k == "s" and src[a] == '"'}
    sites, problems = [], []
    for occ in re.finditer(r"\bemit_comments\b", m):
        ls = m.rfind("\n", 0, occ.start()) + 1
        le = m.find("\n", occ.start())
        line = m[ls:le]
        lno = src.count("\n", 0, occ.start()) + 1
        if re.search(r"\blet emit_comments = Tls::session\(\)\.emit_comments;", line):
            continue
        mm = re.search(r"\bif\s+(Tls::session\(\)\.emit_comments|session\.emit_comments|emit_comments)\s*\{", line)
        if not mm:
            problems.append(f"{rel}:{lno}: unrecognised use of emit_comments: {line.strip()}")
            continue
        ob = ls + mm.end() - 1
        cb = match_close(m, ob)
        has_else = bool(re.match(r"\s*else\b", m[cb + 1:cb + 24]))
        for e in emissions(src, m, strs, ob, cb):
            e.update(file=rel, branch="then", has_else=has_else)
            sites.append(e)
        if has_else:
            eb = m.index("{", cb + 1)
            ee = match_close(m, eb)
            for e in emissions(src, m, strs, eb, ee):
                e.update(file=rel, branch="else", has_else=True)
                sites.append(e)
    return sites, problems


def comment_display_formats():
    """format strings of `impl Display for Comment` in parse_table.rs"""
    path = os.path.join(SRC, "lr1/codegen/parse_table.rs")
    src = open(path).read()
    m, sp = mask(src)
    strs = {a: b for a, b, k in sp if k == "s" and src[a] == '"'}
    mm = re.search(r"impl<[^>]*>\s*fmt::Display\s+for\s+Comment<[^>]*>\s*\{", m)
    if not mm:
        return None
    ob = mm.end() - 1
    cb = match_close(m, ob)
    return [e for e in emissions(src, m, strs, ob, cb)]


def lean_chars(s):
    def one(c):
        if c == "'":
            return "'\\''"
        if c == "\\":
            return "'\\\\'"
        if c == "\n":
            return "'\\n'"
        return f"'{c}'"
    return "[" + ", ".join(one(c) for c in s) + "]"


def lean_str(s):
    return '"' + s.replace("\\", "\\\\").replace('"', '\\"') + '"'


def translate(ctx):
    files = sorted(glob.glob(os.path.join(SRC, "lr1/codegen/*.rs"))) + [os.path.join(SRC, "rust/mod.rs")]
    sites, problems = [], []
    for f in files:
        s, p = scan_file(f)
        sites += s
        problems += p
    disp = comment_display_formats()
    if disp is None:
        problems.append("impl Display for Comment not found")
        disp = []
    # facts of rust/mod.rs the model mirrors
    rsrc = open(os.path.join(SRC, "rust/mod.rs")).read()
    facts = {}
    mm = re.search(r"const TAB: usize = (\d+);", rsrc)
    facts["tab"] = int(mm.group(1)) if mm else None
    mm = re.search(r"matches!\(buf\.first\(\)\.unwrap\(\),\s*((?:b'.'\s*\|?\s*)+)\)", rsrc)
    facts["closers"] = "".join(re.findall(r"b'(.)'", mm.group(1))) if mm else None
    mm = re.search(r"matches!\(buf\[n\],\s*((?:b'.'\s*\|?\s*)+)\)", rsrc)
    facts["openers"] = "".join(re.findall(r"b'(.)'", mm.group(1))) if mm else None
    mm = re.search(r"fn write_indentation\(&mut self\) -> io::Result<\(\)> \{\s*if Tls::session\(\)\.emit_whitespace \{\s*"
                   r"write!\(self\.write, \"([^\"]*)\", \"\", self\.indent\)\?;\s*\}\s*Ok\(\(\)\)\s*\}", rsrc)
    facts["indent_fmt"] = mm.group(1) if mm else None
    ws_uses = []
    for f in glob.glob(os.path.join(SRC, "**/*.rs"), recursive=True):
        rel = os.path.relpath(f, SRC)
        if rel.startswith("verif_hooks") or rel in ("session.rs", "api/mod.rs", "main.rs"):
            continue
        mk, _ = mask(open(f).read())
        for occ in re.finditer(r"\bemit_whitespace\b", mk):
            fn = (re.findall(r"\bfn (\w+)", mk[:occ.start()]) or ["?"])[-1]
            ws_uses.append(f"{rel}:{fn}")
        if not (rel.startswith("lr1/codegen/") or rel == "rust/mod.rs"):
            for occ in re.finditer(r"\bemit_comments\b", mk):
                problems.append(f"{rel}: emit_comments used outside lr1/codegen and rust/mod.rs")
    facts["emit_whitespace_uses"] = sorted(ws_uses)
    if sorted(ws_uses) != ["rust/mod.rs:write_indentation", "rust/mod.rs:write_table_row"]:
        problems.append(f"emit_whitespace is consulted at {sorted(ws_uses)}, the model knows write_indentation and write_table_row")
    row = [s for s in sites if s["file"] == "rust/mod.rs"]
    guarded = [s for s in sites if s["file"] != "rust/mod.rs"]
    for s in guarded:
        if s["has_else"]:
            problems.append(f"{s['file']}:{s['line']}: emit_comments test with an else branch in the code generator")
    # resolve `{}` + comment through Display for Comment
    resolved = []
    for s in guarded:
        if s["fmt"] == "{}" and s["args"].rstrip(",").strip() == "comment":
            for d in disp:
                resolved.append(dict(s, fmt=d["fmt"], via=f"Display for Comment, parse_table.rs:{d['line']}"))
        else:
            resolved.append(dict(s, via=""))
    row_then = [s["fmt"] for s in row if s["branch"] == "then"]
    row_else = [s["fmt"] for s in row if s["branch"] == "else"]
    ok = not problems and all(v is not None for v in facts.values()) and all(s["fmt"] is not None for s in resolved)
    ctx.oblige("translation of emit_comments/emit_whitespace uses into Gen/GuardedSites.lean", ok, "; ".join(problems)[:1500])
    body = ["/-! GENERATED by checks/c24.py from /repo/lalrpop/src/{lr1/codegen/*.rs,rust/mod.rs} on every run — do not edit. -/",
            "namespace LalrpopModel.Rw.Gen", "",
            "structure Site where", "  file : String", "  line : Nat", "  fn : String", "  via : String", "  fmt : List Char", "",
            "/-- every emission inside an `if …emit_comments { … }` of the code generators, with its format string -/",
            "def guardedSites : List Site := ["]
    body.append(",\n".join(
        f"  ⟨{lean_str(s['file'])}, {s['line']}, {lean_str(s['fn'])}, {lean_str(s['via'])}, {lean_chars(s['fmt'] or '')}⟩" for s in resolved) + "]")
    body += ["", "/-- the format strings of `impl Display for Comment` (the comments of table rows) -/",
             "def commentDisplayFormats : List (List Char) := [" + ", ".join(lean_chars(d["fmt"] or "") for d in disp) + "]", "",
             "/-- facts of rust/mod.rs -/",
             f"def tab : Nat := {facts['tab'] or 0}",
             f"def closers : List Char := {lean_chars(facts['closers'] or '')}",
             f"def openers : List Char := {lean_chars(facts['openers'] or '')}",
             f"def indentFmt : List Char := {lean_chars(facts['indent_fmt'] or '')}",
             "def rowThenFormats : List (List Char) := [" + ", ".join(lean_chars(x or "") for x in row_then) + "]",
             "def rowElseFormats : List (List Char) := [" + ", ".join(lean_chars(x or "") for x in row_else) + "]",
             "", "end LalrpopModel.Rw.Gen", ""]
    text = "\n".join(body)
    if not os.path.exists(GEN) or open(GEN).read() != text:
        open(GEN, "w").write(text)
    return {"guarded_sites": len(resolved), "comment_display_formats": len(disp), "facts": facts,
            "sites": [f"{s['file']}:{s['line']} {s['fmt']!r}" for s in resolved]}


def run(ctx):
    tr = translate(ctx)
    ctx.lean_build([MODULE, "lpm_rustlex"])
    ctx.lean_audit(MODULE, THEOREMS)
    if not ctx.quick():
        ctx.leanchecker(MODULE)
    ctx.coverage["source_translation"] = tr
    (exe,) = ctx.build_harness(["fmtflags"])
    n = ctx.vol(6000, 100000)
    rc, out, err = ctx.run_harness(exe, ["--seed", ctx.seed, "--n", n, "--out", ctx.scratch,
                                         "--random", ctx.vol(150, 1500), "--corpus", ctx.vol(70, 90)])
    if rc != 0:
        ctx.fatal("harness fmtflags failed: " + err[-800:])
    stats = json.loads(out.strip().split("\n")[-1])
    ctx.correspond("RustWrite (write_fmt, write_table_row) vs Model.Rw on random emission events", "lpm_rustlex", "rw")

    # the Lean lexer on every generated body: equal token streams within one grammar
    rows = [l.split("\t") for l in open(os.path.join(ctx.scratch, "files.tsv"), encoding="utf-8").read().split("\n") if l]
    req = os.path.join(ctx.scratch, "lexfiles.req")
    res = os.path.join(ctx.scratch, "lexfiles.model")
    open(req, "w").write("".join(f"lexfile 0 {r[2]}\n" for r in rows))
    rcl = ctx.lpm("lpm_rustlex", req, res)
    answers = open(res).read().split("\n")
    by_g, lean_streams = {}, set()
    for r, a in zip(rows, answers):
        by_g.setdefault(r[0], []).append((r[1], a, r[3], r[2]))
    bad = []
    for g, lst in by_g.items():
        base = [a for (lab, a, _, _) in lst if lab == "c0w1r0"]
        lean_streams.add(base[0] if base else "")
        for lab, a, name, path in lst:
            if not base or a != base[0] or a in ("", "bad-op"):
                bad.append((g, lab, name, path))
    ctx.oblige(f"Lean lexRust agrees across the flag combinations on {len(rows)} generated files", rcl == 0 and len(answers) >= len(rows) and not bad,
               json.dumps(bad[:5]))
    for g, lab, name, path in bad[:3]:
        ctx.failing_input(f"flags-tokens-lean:{name}", f"the token stream (Lean lexRust) of the generated parser changes with the flags ({lab})",
                          {"grammar_name": name, "flags": lab, "note": "regenerate with lalrpop::Configuration and these flags; compare with the default"})
    seen = set()
    for line in open(os.path.join(ctx.scratch, "violations.jsonl"), encoding="utf-8").read().split("\n"):
        if not line.strip():
            continue
        v = json.loads(line)
        fp = v.pop("fingerprint")
        what = v.pop("what")
        if fp in seen:
            continue
        seen.add(fp)
        ctx.failing_input(fp, what, v)
    ctx.coverage.update({
        "evaluations": stats["configuration_runs"] + stats["rw_cases"],
        "distinct_nontrivial": len(lean_streams - {""}),
        "rule": "a case is one grammar generated under all 8 flag combinations; distinct = distinct token streams (Lean lexer hash) "
                "of the default output among accepted grammars; RustWrite event sequences come on top",
        "grammars": stats["grammars"], "accepted": stats["accepted"], "rejected": stats["rejected"],
        "configuration_runs": stats["configuration_runs"], "files_lexed_by_both_lexers": len(rows),
        "rustwrite_event_sequences": stats["rw_cases"],
        "generator_distribution": stats["hist"],
    })
    ctx.coverage["samples"].append({"random_grammar": stats["sample_grammar"]})
    ctx.assumptions += [
        "each rust! call of the generator is one `line` event whose text (possibly several lines: literals and block comments may span lines inside it) is lexically closed at its end, i.e. no literal or block comment spans two calls",
        "arguments formatted into guarded comments contain no newline (Debug-escaped terminals, identifiers, numbers)",
        "token boundaries of Rust are as the two lexers (Lean Model/RustLex.lean, harness fmtflags.rs) describe them; punctuation is compared character by character",
    ]
