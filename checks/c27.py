"""C27 — generated parsers are reentrant and safe to share across threads."""
import json
import os
import re

from . import common

LEVEL = "proof"
MANIFEST = {
    "category": "proof",
    "technique": "Lean 4 theorems over a model of N runs sharing one read-only component (private state = the LR driver "
                 "configuration of Model/LR/Driver.lean, resp. a lexer matcher with its own lazy-DFA cache) + source facts "
                 "regenerated from generated parser modules and lalrpop-util on every run + threaded differential on compiled parsers",
    "text": "interleaving_equals_sequential: if steps only read the shared component, EVERY schedule of the small steps of N "
            "runs (induction on the schedule, any length) leaves the shared component unchanged and each run where its own steps "
            "alone take it; complete_interleaving_result / lr_concurrent_result_eq_fresh: a call that returns r alone on a fresh "
            "parser has returned r in every interleaving that lets it finish; parse_pure / parse_result_unique: the outcome is a "
            "function of (tables, arguments); matcher_state_is_local + cache_unobservable: matchers created from one builder own "
            "their cache, whose content is unobservable. The hypothesis 'no shared mutable state' is discharged by `decide` for "
            "facts re-extracted each run (Gen/ParserStruct.lean): fields of every …Parser and __StateMachine, `parse(&self, …)`, "
            "no static mut / static items / Cell / RefCell / thread_local! / unsafe / lazy_static / OnceLock / Mutex / atomics in 11 "
            "generated modules (both code generators, built-in lexer and extern tokens) and in lalrpop-util's lexer.rs and "
            "state_machine.rs. Tie: those 11 parsers compiled (Send + Sync asserted at compile time), ONE value per grammar shared "
            "by 8 threads (scoped and Arc) with seeded yields/sleeps, every result compared with a fresh parser's; matchers of one "
            "builder interleaved by a seeded schedule; thorough tier: a small case under valgrind --tool=helgrind.",
    "note": "Residue: the model's steps are atomic, so it cannot exhibit a data race; `Sync` of regex-automata's hybrid DFA and "
            "Rust's guarantee that safe code without interior mutability cannot write through `&` are trusted; the facts cover the "
            "listed files only (regex-automata's own sources are not scanned). helgrind reports from std's thread start-up are "
            "filtered out (only stacks through the generated modules / lalrpop-util / regex crates count).",
}
MODULE = "LalrpopModel.Gen.ParserStruct"
NS = "LalrpopModel.Reent."
THEOREMS = [NS + t for t in [
    "interleaving_equals_sequential", "interleaving_schedule_independent", "interleaving_equals_seqSched",
    "complete_interleaving_result", "readOnly_of_no_writable", "toProg_frame", "facts_no_writable",
    "no_shared_mutable_state_interleaving", "parse_pure", "parse_fuel_monotone", "parse_result_unique",
    "lr_interleaving_equals_sequential", "lr_concurrent_result_eq_fresh", "lexProg_readOnly", "cache_unobservable",
    "matcher_state_is_local", "Gen.extracted_no_shared_mutable_state", "Gen.extracted_all_recognised",
    "Gen.extracted_parsers_interleave",
]]
GEN = os.path.join(common.LEAN, "LalrpopModel/Gen/ParserStruct.lean")
RUNTIME = ["lalrpop-util/src/lexer.rs", "lalrpop-util/src/state_machine.rs"]

# --------------------------------------------------------------------------- source-fact translator


def strip_rust(src):
    """comments, string/char literals -> spaces (lifetimes are kept)"""
    out = []
    i, n = 0, len(src)
    while i < n:
        c = src[i]
        if src.startswith("//", i):
            while i < n and src[i] != "\n":
                i += 1
        elif src.startswith("/*", i):
            depth, i = 1, i + 2
            while i < n and depth:
                if src.startswith("/*", i):
                    depth, i = depth + 1, i + 2
                elif src.startswith("*/", i):
                    depth, i = depth - 1, i + 2
                else:
                    i += 1
            out.append(" ")
        elif c == "r" and re.match(r'r#*"', src[i:]) and (i == 0 or not (src[i - 1].isalnum() or src[i - 1] == "_")):
            m = re.match(r'r(#*)"', src[i:])
            close = '"' + m.group(1)
            j = src.find(close, i + len(m.group(0)))
            j = n if j < 0 else j + len(close)
            out.append('""')
            i = j
        elif c == '"':
            i += 1
            while i < n and src[i] != '"':
                i += 2 if src[i] == "\\" else 1
            i += 1
            out.append('""')
        elif c == "'":
            m = re.match(r"'(\\.[^']*|[^'\\])'", src[i:])
            if m:
                out.append("' '")
                i += len(m.group(0))
            else:       # a lifetime
                out.append(c)
                i += 1
        else:
            out.append(c)
            i += 1
    return "".join(out)


INTERIOR = re.compile(r"\b(Cell|RefCell|UnsafeCell|OnceCell|OnceLock|LazyLock|LazyCell|Lazy|Mutex|RwLock|Condvar|Atomic\w+)\b")
COUNTS = {
    "staticMut": re.compile(r"\bstatic\s+mut\b"),
    "staticItems": re.compile(r"(?<!['\w])static\s+(?!mut\b)[A-Za-z_]\w*\s*:"),
    "cell": re.compile(r"\b(Cell|RefCell|UnsafeCell|OnceCell)\b"),
    "threadLocal": re.compile(r"\bthread_local\s*!"),
    "unsafeKw": re.compile(r"\bunsafe\b"),
    "lazyStatic": re.compile(r"\blazy_static\s*!|\b(OnceLock|LazyLock|LazyCell|Lazy)\b"),
    "syncPrims": re.compile(r"\b(Mutex|RwLock|Condvar|Atomic\w+)\b"),
}


def matching(src, i, open_c, close_c):
    depth = 0
    while i < len(src):
        if src[i] == open_c:
            depth += 1
        elif src[i] == close_c:
            depth -= 1
            if depth == 0:
                return i
        i += 1
    return len(src) - 1


def split_top(s):
    parts, depth, cur = [], 0, []
    for idx, ch in enumerate(s):
        if ch in "([{<":
            depth += 1
        elif ch in ")]}":
            depth -= 1
        elif ch == ">" and not (idx and s[idx - 1] == "-"):
            depth -= 1
        if ch == "," and depth == 0:
            parts.append("".join(cur))
            cur = []
        else:
            cur.append(ch)
    parts.append("".join(cur))
    return [p.strip() for p in parts if p.strip()]


def structs(src):
    """{name: [(field, type)]} for every braced struct"""
    res = {}
    for m in re.finditer(r"\bstruct\s+([A-Za-z_]\w*)", src):
        j = m.end()
        # generics, where clause, then `{` (braced), `(` (tuple) or `;`
        while j < len(src) and src[j] not in "{(;":
            if src[j] == "<":
                j = matching(src, j, "<", ">")
            j += 1
        if j >= len(src) or src[j] != "{":
            continue
        k = matching(src, j, "{", "}")
        fields = []
        for part in split_top(src[j + 1:k]):
            part = re.sub(r"#\[[^\]]*\]", "", part).strip()
            part = re.sub(r"^pub(\([^)]*\))?\s+", "", part)
            if ":" in part:
                fname, fty = part.split(":", 1)
                fields.append((fname.strip(), " ".join(fty.split())))
        res[m.group(1)] = fields
    return res


def receivers(src, fn_name):
    out = []
    for m in re.finditer(r"\bfn\s+" + fn_name + r"\b", src):
        j = m.end()
        while j < len(src) and src[j] not in "(":
            if src[j] == "<":
                j = matching(src, j, "<", ">")
            j += 1
        k = matching(src, j, "(", ")")
        params = split_top(src[j + 1:k])
        first = " ".join(params[0].split()) if params else ""
        if re.fullmatch(r"&\s*('\w+\s+)?self", first):
            out.append("ref")
        elif re.fullmatch(r"&\s*('\w+\s+)?mut\s+self", first):
            out.append("refMut")
        elif re.fullmatch(r"(mut\s+)?self(\s*:.*)?", first):
            out.append("owned")
        else:
            out.append("missing")
    return out


def field_fact(owner, name, ty):
    return {"owner": owner, "name": name, "ty": ty, "interior": bool(INTERIOR.search(ty)),
            "mutPtr": bool(re.search(r"&\s*('\w+\s+)?mut\b|\*\s*(mut|const)\b", ty))}


def module_facts(label, raw, runtime):
    src = strip_rust(raw)
    st = structs(src)
    f = {"source": label, "parserFields": [], "machineFields": [], "parseReceivers": [], "parsers": 0}
    if runtime:
        # shared: MatcherBuilder (what the parser struct holds); per call: Matcher, Parser
        for s in ("MatcherBuilder",):
            for (n, t) in st.get(s, []):
                f["parserFields"].append(field_fact(s, n, t))
        for s in ("Matcher", "Parser"):
            for (n, t) in st.get(s, []):
                f["machineFields"].append(field_fact(s, n, t))
        if "MatcherBuilder" in st:
            f["parsers"] = 1
            f["parseReceivers"] = receivers(src, "matcher") or ["missing"]
    else:
        for s, fields in st.items():
            if s.endswith("Parser") and re.search(r"\bpub\s+struct\s+" + s + r"\b", src):
                f["parsers"] += 1
                for (n, t) in fields:
                    f["parserFields"].append(field_fact(s, n, t))
            elif s.endswith("__StateMachine"):
                for (n, t) in fields:
                    f["machineFields"].append(field_fact(s, n, t))
        f["parseReceivers"] = receivers(src, "parse")
        if f["parsers"] == 0 or len(f["parseReceivers"]) < f["parsers"]:
            f["parseReceivers"].append("missing")
    for k, rx in COUNTS.items():
        f[k] = len(rx.findall(src))
    return f


def writable(f):
    w = [x["owner"] + "." + x["name"] for x in f["parserFields"] if x["interior"] or x["mutPtr"]]
    if not all(r == "ref" for r in f["parseReceivers"]):
        w.append("self (receiver " + ",".join(f["parseReceivers"]) + ")")
    for k in COUNTS:
        w += [k] * f[k]
    w += ["per-call state with interior mutability: " + x["owner"] + "." + x["name"] for x in f["machineFields"] if x["interior"]]
    return w


def lean_str(s):
    return '"' + s.replace("\\", "\\\\").replace('"', '\\"') + '"'


def lean_field(x):
    return "⟨%s, %s, %s, %s, %s⟩" % (lean_str(x["owner"]), lean_str(x["name"]), lean_str(x["ty"]),
                                       "true" if x["interior"] else "false", "true" if x["mutPtr"] else "false")


def render_gen(facts):
    L = ["import LalrpopModel.Props.C27",
         "/-! GENERATED by checks/c27.py on every run — do not edit.",
         "Facts extracted from generated parser modules (harness/src/bin/threads.rs: grammars calc, list, recover, ext, generic, kw;",
         "table-driven `_td` and `#[recursive_ascent]` `_ra`) and from /repo/lalrpop-util/src/{lexer.rs,state_machine.rs}. -/",
         "namespace LalrpopModel.Reent.Gen", "open LalrpopModel.Reent", "",
         "def extractedFacts : List ModuleFacts := ["]
    items = []
    for f in facts:
        items.append(
            "  { source := %s,\n    parserFields := [%s],\n    machineFields := [%s],\n    parseReceivers := [%s],\n"
            "    parsers := %d, staticMut := %d, staticItems := %d, cell := %d, threadLocal := %d, unsafeKw := %d, lazyStatic := %d, syncPrims := %d }"
            % (lean_str(f["source"]), ", ".join(lean_field(x) for x in f["parserFields"]),
               ", ".join(lean_field(x) for x in f["machineFields"]),
               ", ".join("." + r for r in f["parseReceivers"]), f["parsers"], f["staticMut"], f["staticItems"], f["cell"],
               f["threadLocal"], f["unsafeKw"], f["lazyStatic"], f["syncPrims"]))
    L.append(",\n".join(items) + "]")
    L += ["",
          "/-- the extracted facts satisfy the hypothesis of `no_shared_mutable_state_interleaving`:",
          "    every `parse` takes `&self`, no parser field has interior mutability or `&mut`, and the sources contain no",
          "    `static mut`, `static` item, `Cell`/`RefCell`/`UnsafeCell`, `thread_local!`, `unsafe`, `lazy_static!`/`OnceLock`, lock or atomic -/",
          "theorem extracted_no_shared_mutable_state : noSharedMutableState extractedFacts = true := by decide",
          "",
          "/-- every module was recognised: it declares at least one parser (resp. `MatcherBuilder`) or per-call machine state -/",
          "theorem extracted_all_recognised :",
          "    extractedFacts.all (fun m => decide (0 < m.parsers) || !m.machineFields.isEmpty) = true := by decide",
          "",
          "/-- hence, for each extracted module, any program whose shared writes are confined to what these facts make",
          "    writable behaves under every interleaving like the sequential runs -/",
          "theorem extracted_parsers_interleave {V P : Type} (m : ModuleFacts) (hm : m ∈ extractedFacts)",
          "    (cp : CapProg String V P) (w : World (String → V) P) (sched : List Nat) :",
          "    exec (cp.toProg m.writable) w sched =",
          "      { shared := w.shared, runs := sequentialRuns (cp.toProg m.writable) w.shared w.runs sched } :=",
          "  no_shared_mutable_state_interleaving extractedFacts extracted_no_shared_mutable_state m hm cp w sched",
          "", "end LalrpopModel.Reent.Gen", ""]
    return "\n".join(L)


# --------------------------------------------------------------------------- the check


def parse_kv(line):
    f = line.split("\t")
    d = {"kind": f[0], "module": f[1]}
    for x in f[2:]:
        if "=" in x:
            k, v = x.split("=", 1)
            d[k] = int(v) if v.isdigit() else v
    return d


def unhex(s):
    try:
        return bytes.fromhex(s[1:]).decode("utf-8", "replace")
    except ValueError:
        return s


def run(ctx):
    seed = ctx.seed
    n = ctx.vol(150, 6000)
    if ctx.replay_in:
        try:
            rp = json.load(open(ctx.replay_in))
            seed = rp.get("seed", seed)
            n = rp.get("inputs_per_grammar", n)
        except (OSError, ValueError):
            pass
    (exe,) = ctx.build_harness(["threads"])
    out = os.path.join(ctx.scratch, "threads")
    args = ["--seed", seed, "--n", n, "--out", out, "threads=8", "rounds=%d" % ctx.vol(1, 1)]
    if not ctx.quick():
        args.append("helgrind=1")
    rc, so, se = ctx.run_harness(exe, args, timeout=3000)
    try:
        stats = json.loads(so.strip().splitlines()[-1])
    except (ValueError, IndexError):
        ctx.fatal("harness threads produced no stats: " + (so + se)[-800:])
    if stats["generate_failed"]:
        ctx.fatal("lalrpop rejected a C27 grammar: " + "; ".join(stats["generate_failed"])[:800])

    # ---- source facts -> Gen/ParserStruct.lean
    facts = []
    moddir = os.path.join(out, "modules")
    for m in sorted(stats["modules"]):
        facts.append(module_facts("generated:" + m, open(os.path.join(moddir, m + ".rs")).read(), runtime=False))
    for rel in RUNTIME:
        facts.append(module_facts(rel, open(os.path.join(common.REPO, rel)).read(), runtime=True))
    text = render_gen(facts)
    old = open(GEN).read() if os.path.exists(GEN) else None
    if old != text:
        open(GEN, "w").write(text)
    offending = {f["source"]: writable(f) for f in facts if writable(f)}
    unrecognised = [f["source"] for f in facts if f["parsers"] == 0 and not f["machineFields"]]
    ctx.oblige("source facts: no shared mutable state in %d generated modules + lalrpop-util (translator's own evaluation)" % len(stats["modules"]),
               not offending and not unrecognised, json.dumps({"writable": offending, "unrecognised": unrecognised})[:1500])

    ctx.lean_build([MODULE])
    ctx.lean_audit(MODULE, THEOREMS)
    if not ctx.quick():
        ctx.leanchecker(MODULE)

    # ---- compile-time Send + Sync, and the threaded differential
    ctx.oblige("generated parsers compile with assert_sync::<…Parser>() (Send + Sync) for %d modules" % len(stats["modules"]),
               stats["rustc_error"] == "" and stats["runner_ok"], stats["rustc_error"][:2500])
    lines = [parse_kv(l) for l in stats["lines"]]
    gl = [l for l in lines if l["kind"] == "GRAMMAR"]
    ml = [l for l in lines if l["kind"] == "MATCHERS"]
    parses = sum(l["parses"] for l in gl)
    mism = sum(l["mismatches"] for l in gl) + sum(l["mismatches"] for l in ml)
    ctx.oblige("threaded differential: %d parses on shared parsers and %d interleaved next() calls agree with the fresh sequential baseline"
               % (parses, sum(l["next_calls"] for l in ml)), mism == 0 and len(gl) == len(stats["modules"]),
               json.dumps(stats["mismatches"][:3])[:2000])
    for m in stats["mismatches"][:20]:
        f = m.split("\t")
        d = {"module": f[1], "mode": f[2], "thread": f[3], "input": unhex(f[4]),
             "baseline": unhex(f[5].split("=", 1)[1]), "got": unhex(f[6].split("=", 1)[1]),
             "inputs_per_grammar": n, "schedule_seed": seed,
             "how": "harness/target/debug/threads --seed <seed> --n <inputs_per_grammar> --out DIR threads=8 (grammar text: harness/src/bin/threads.rs)"}
        ctx.failing_input("c27:shared-parser-differs:%s:%s" % (f[1], f[2]),
                          "parser `%s` shared (%s) returns a different result than a fresh parser on input %r" % (f[1], f[2], d["input"][:80]), d)
    hel = stats.get("helgrind_races_in_parser_code", -1)
    if not ctx.quick():
        started = "could not be started" not in stats["helgrind"] and stats["helgrind"] != "not-run"
        ctx.oblige("helgrind (3 threads x 6 inputs x %d parsers): no race report with a frame in generated code / lalrpop-util / regex crates"
                   % len(stats["modules"]), started and hel == 0, stats["helgrind"][:2500])
        if started and hel > 0:
            ctx.failing_input("c27:helgrind-race", "helgrind reports a data race inside parser/runtime code: " + stats["helgrind"][:300],
                              {"helgrind": stats["helgrind"], "schedule_seed": seed, "inputs_per_grammar": n})
    ctx.coverage.update({
        "evaluations": parses + sum(l["next_calls"] for l in ml),
        "distinct_nontrivial": sum(l["distinct_inputs"] for l in gl),
        "rule": "evaluation = one parse() on a parser value shared with 7 other threads (or reused sequentially), or one next() of a "
                "matcher interleaved with 3 others of the same builder; distinct_nontrivial = distinct (module, input) pairs, each "
                "parsed by all 8 threads in different orders with seeded yields/sleeps (inputs: random sentences of each grammar, "
                "1/3 mutated; baseline results Ok and Err both occur, see generator_distribution)",
        "programs": len(stats["modules"]),
        "generator_distribution": {l["module"]: {k: l[k] for k in ("inputs", "distinct_inputs", "parses", "baseline_err", "distinct_results")} for l in gl},
        "matcher_interleavings": {l["module"]: {"inputs": l["inputs"], "next_calls": l["next_calls"]} for l in ml},
        "source_facts": {f["source"]: {"parser_fields": ["%s.%s: %s" % (x["owner"], x["name"], x["ty"]) for x in f["parserFields"]],
                                        "receivers": f["parseReceivers"]} for f in facts},
        "threads": stats["threads"], "compile_s": stats["compile_s"], "run_s": stats["run_s"], "helgrind": stats["helgrind"][:600],
    })
    ctx.coverage["samples"] += [{"input": s} for s in stats["sample_inputs"][:4]]
    ctx.assumptions += [
        "the model's steps are atomic: it cannot exhibit a data race (helgrind on a small case in the thorough tier is the only probe)",
        "regex_automata::hybrid::dfa::DFA is Sync and its &self API is race-free (trusted; its sources are not scanned)",
        "safe Rust without interior mutability cannot write through a shared reference (what makes the extracted syntactic facts imply ReadOnly)",
        "user action code of the 6 test grammars is part of the scanned modules; other users' action code can of course add shared state",
    ]
