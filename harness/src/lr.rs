//! LR side of the harness: table extraction from generated parser text, parsing of the
//! `export_automaton` hook output, and a `ParserDefinition` that interprets extracted tables so
//! that the REAL `lalrpop_util::state_machine::Parser::drive` can be run on them.
use lalrpop_util::state_machine::{ParserDefinition, SimulatedReduce, SymbolTriple};
use lalrpop_util::{ErrorRecovery, ParseError};
use std::cell::Cell;
use std::rc::Rc;

#[derive(Clone, Debug, Default, PartialEq)]
pub struct Tables {
    pub nterm: usize,
    pub recovery: bool,
    pub action: Vec<i32>,
    pub eof: Vec<i32>,
    /// goto[nt][state]
    pub goto: Vec<Vec<usize>>,
    pub plen: Vec<usize>,
    pub plhs: Vec<usize>,
    pub isstart: Vec<bool>,
    pub fallible: Vec<bool>,
    pub terminal_repr: Vec<String>,
    pub state_type: String,
}

fn csv<T: ToString>(v: &[T]) -> String {
    v.iter().map(|x| x.to_string()).collect::<Vec<_>>().join(",")
}

impl Tables {
    pub fn nstates(&self) -> usize {
        self.eof.len()
    }
    /// the `tables …` request line of lpm_lr
    pub fn line(&self) -> String {
        format!(
            "tables nterm={} recovery={} action={} eof={} goto={} plen={} plhs={} isstart={} fallible={}",
            self.nterm,
            self.recovery as u8,
            csv(&self.action),
            csv(&self.eof),
            self.goto.iter().map(|r| csv(r)).collect::<Vec<_>>().join(";"),
            csv(&self.plen),
            csv(&self.plhs),
            csv(&self.isstart.iter().map(|b| *b as u8).collect::<Vec<_>>()),
            csv(&self.fallible.iter().map(|b| *b as u8).collect::<Vec<_>>()),
        )
    }
}

// ---------------------------------------------------------------------------------------------
// extraction of the tables from generated source text

fn strip_line_comments(s: &str) -> String {
    s.lines()
        .map(|l| match l.find("//") {
            Some(i) => &l[..i],
            None => l,
        })
        .collect::<Vec<_>>()
        .join("\n")
}

fn ints_of(body: &str) -> Result<Vec<i32>, String> {
    let body = strip_line_comments(body);
    let mut out = vec![];
    for tok in body.split(|c: char| c == ',' || c.is_whitespace()) {
        if tok.is_empty() {
            continue;
        }
        out.push(tok.parse::<i32>().map_err(|e| format!("bad int `{tok}`: {e}"))?);
    }
    Ok(out)
}

/// text between `start_pat` (first occurrence at or after `from`) and the matching end pattern
fn between<'a>(text: &'a str, start_pat: &str, end_pat: &str) -> Result<&'a str, String> {
    let i = text.find(start_pat).ok_or_else(|| format!("`{start_pat}` not found"))?;
    let rest = &text[i + start_pat.len()..];
    let j = rest.find(end_pat).ok_or_else(|| format!("`{end_pat}` after `{start_pat}` not found"))?;
    Ok(&rest[..j])
}

/// body of `fn <name>…{ … }` by brace matching (generated table functions contain no braces in strings)
fn fn_body<'a>(text: &'a str, header: &str) -> Result<&'a str, String> {
    let i = text.find(header).ok_or_else(|| format!("`{header}` not found"))?;
    let rest = &text[i..];
    let open = rest.find('{').ok_or("no `{`")?;
    let mut depth = 0usize;
    for (k, c) in rest[open..].char_indices() {
        match c {
            '{' => depth += 1,
            '}' => {
                depth -= 1;
                if depth == 0 {
                    return Ok(&rest[open + 1..open + k]);
                }
            }
            _ => {}
        }
    }
    Err("unbalanced".into())
}

/// a generated `match x { pat => val, … }` over integers: arms `a | b..=c => v,`, `_ => v,` or
/// nested `k => match state { … },`
#[derive(Debug)]
enum Arm {
    Val(i64),
    Nested(Vec<(Vec<(i64, i64)>, Arm)>, Box<Arm>),
}

fn parse_match(body: &str) -> Result<(Vec<(Vec<(i64, i64)>, Arm)>, Arm), String> {
    // body = contents between the braces of a match
    let mut arms = vec![];
    let mut default = None;
    let mut rest = body.trim_start();
    while !rest.is_empty() {
        let arrow = rest.find("=>").ok_or_else(|| format!("no `=>` in `{}`", &rest[..rest.len().min(40)]))?;
        let pat = rest[..arrow].trim();
        let after = rest[arrow + 2..].trim_start();
        let (val, remaining): (Arm, &str) = if after.starts_with("match") {
            let open = after.find('{').ok_or("no `{` in nested match")?;
            let mut depth = 0usize;
            let mut close = None;
            for (k, c) in after[open..].char_indices() {
                match c {
                    '{' => depth += 1,
                    '}' => {
                        depth -= 1;
                        if depth == 0 {
                            close = Some(open + k);
                            break;
                        }
                    }
                    _ => {}
                }
            }
            let close = close.ok_or("unbalanced nested match")?;
            let (a, d) = parse_match(&after[open + 1..close])?;
            let r = after[close + 1..].trim_start();
            let r = r.strip_prefix(',').unwrap_or(r);
            (Arm::Nested(a, Box::new(d)), r)
        } else {
            let comma = after.find(',').ok_or("no `,` after arm value")?;
            let v = after[..comma].trim().parse::<i64>().map_err(|e| format!("arm value: {e}"))?;
            (Arm::Val(v), &after[comma + 1..])
        };
        if pat == "_" {
            default = Some(val);
        } else {
            let mut ranges = vec![];
            for alt in pat.split('|') {
                let alt = alt.trim();
                if let Some((a, b)) = alt.split_once("..=") {
                    ranges.push((
                        a.trim().parse::<i64>().map_err(|e| format!("pat: {e}"))?,
                        b.trim().parse::<i64>().map_err(|e| format!("pat: {e}"))?,
                    ));
                } else {
                    let a = alt.parse::<i64>().map_err(|e| format!("pat `{alt}`: {e}"))?;
                    ranges.push((a, a));
                }
            }
            arms.push((ranges, val));
        }
        rest = remaining.trim_start();
    }
    Ok((arms, default.ok_or("match without `_` arm")?))
}

fn eval_arm(arm: &Arm, state: i64) -> i64 {
    match arm {
        Arm::Val(v) => *v,
        Arm::Nested(arms, d) => {
            for (ranges, a) in arms {
                if ranges.iter().any(|(lo, hi)| *lo <= state && state <= *hi) {
                    return eval_arm(a, state);
                }
            }
            eval_arm(d, state)
        }
    }
}

/// Extracts the tables of the table-driven parser module `mod <prefix>parse__<start>` from
/// generated text. `n_nt` = number of nonterminals (rows of goto to evaluate).
pub fn extract_tables(text: &str, start: &str, n_nt: usize) -> Result<Tables, String> {
    let modpat = format!("mod __parse__{start} {{");
    let i = text.find(&modpat).ok_or_else(|| format!("module for {start} not found"))?;
    let rest = &text[i + modpat.len()..];
    // the module ends where the next `mod __parse__` starts (or at the end)
    let end = rest.find("\nmod __parse__").unwrap_or(rest.len());
    let m = &rest[..end];
    let hdr = between(m, "const __ACTION: &[", "] = &[")?;
    let state_type = hdr.trim().to_string();
    let action = ints_of(between(m, &format!("const __ACTION: &[{state_type}] = &["), "];")?)?;
    let eof = ints_of(between(m, &format!("const __EOF_ACTION: &[{state_type}] = &["), "];")?)?;
    let nstates = eof.len();
    if nstates == 0 || action.len() % nstates != 0 {
        return Err(format!("action {} not a multiple of states {}", action.len(), nstates));
    }
    let nterm = action.len() / nstates;
    // check the indexing expression agrees with nterm
    let abody = fn_body(m, "fn __action(")?;
    let expect = if nterm == 1 { "(state as usize)  + integer".to_string() } else { format!("(state as usize) * {nterm} + integer") };
    if !abody.replace(' ', "").contains(&expect.replace(' ', "")) {
        return Err(format!("unexpected __action body `{}`", abody.trim()));
    }
    // goto
    let gbody = strip_line_comments(fn_body(m, "fn __goto(")?);
    let inner = {
        let k = gbody.find("match nt {").ok_or("no `match nt`")?;
        let r = &gbody[k + "match nt {".len()..];
        let e = r.rfind('}').ok_or("no closing")?;
        r[..e].to_string()
    };
    let (arms, default) = parse_match(&inner)?;
    let mut goto = vec![];
    for nt in 0..n_nt as i64 {
        let arm = arms
            .iter()
            .find(|(r, _)| r.iter().any(|(lo, hi)| *lo <= nt && nt <= *hi))
            .map(|(_, a)| a)
            .unwrap_or(&default);
        goto.push((0..nstates as i64).map(|s| eval_arm(arm, s) as usize).collect());
    }
    // simulate_reduce
    let sbody = strip_line_comments(fn_body(m, "fn __simulate_reduce<")?);
    let k = sbody.find("match __reduce_index {").ok_or("no match __reduce_index")?;
    let mut r = &sbody[k + "match __reduce_index {".len()..];
    let (mut plen, mut plhs, mut isstart) = (vec![], vec![], vec![]);
    loop {
        r = r.trim_start();
        if r.starts_with('_') {
            break;
        }
        let arrow = r.find("=>").ok_or("simulate_reduce arm")?;
        let idx: usize = r[..arrow].trim().parse().map_err(|e| format!("sr idx: {e}"))?;
        if idx != plen.len() {
            return Err("simulate_reduce arms out of order".into());
        }
        let after = r[arrow + 2..].trim_start();
        if after.starts_with("__state_machine::SimulatedReduce::Accept") {
            plen.push(1);
            plhs.push(0);
            isstart.push(true);
            let c = after.find(',').ok_or("accept arm comma")?;
            r = &after[c + 1..];
        } else {
            let pop = between(after, "states_to_pop:", ",")?.trim().parse::<usize>().map_err(|e| e.to_string())?;
            let nt = between(after, "nonterminal_produced:", ",")?.trim().parse::<usize>().map_err(|e| e.to_string())?;
            plen.push(pop);
            plhs.push(nt);
            isstart.push(false);
            // arm = `{ Reduce { … } }` : skip two closing braces
            let c1 = after.find('}').ok_or("sr close1")?;
            let c2 = after[c1 + 1..].find('}').ok_or("sr close2")?;
            r = &after[c1 + 1 + c2 + 1..];
        }
    }
    // terminals
    let tbody = between(m, "const __TERMINAL: &[&str] = &[", "\n    ];")?;
    let mut terminal_repr = vec![];
    for l in tbody.lines() {
        let l = l.trim();
        if let Some(x) = l.strip_prefix("r###\"") {
            if let Some(y) = x.strip_suffix("\"###,") {
                terminal_repr.push(y.to_string());
            }
        }
    }
    let rbody = fn_body(m, "fn uses_error_recovery(")?;
    let recovery = rbody.contains("true");
    let n = plen.len();
    Ok(Tables {
        nterm,
        recovery,
        action,
        eof,
        goto,
        plen,
        plhs,
        isstart,
        fallible: vec![false; n],
        terminal_repr,
        state_type,
    })
}

// ---------------------------------------------------------------------------------------------
// export_automaton output

#[derive(Clone, Debug, Default)]
pub struct ExpGrammar {
    pub terminals: Vec<String>,
    pub error_terminal: Option<usize>,
    pub nonterminals: Vec<String>,
    /// (lhs, rhs) ; rhs symbols as written (`t3`, `n1`)
    pub prods: Vec<(usize, Vec<String>)>,
    pub recovery: bool,
    pub lalr: bool,
    pub codegen: String,
}

#[derive(Clone, Debug, Default)]
pub struct ExpAutomaton {
    pub user_start: String,
    pub start_nt: usize,
    pub start_prod: usize,
    pub nstates: usize,
    /// the lines `state …`, `item …`, `shift …`, `reduce …`, `goto …` joined with `|`
    pub body: String,
}

#[derive(Clone, Debug)]
pub enum Export {
    ParseError,
    NormalizeError(String),
    Ok { grammar: ExpGrammar, automata: Vec<ExpAutomaton>, conflicts: Vec<(String, usize)> },
}

pub fn parse_export(text: &str) -> Export {
    let mut lines = text.lines();
    let first = lines.next().unwrap_or("");
    if first.starts_with("error parse") {
        return Export::ParseError;
    }
    if let Some(r) = first.strip_prefix("error normalize ") {
        return Export::NormalizeError(crate::dec_str(r).unwrap_or_default());
    }
    let mut g = ExpGrammar::default();
    for w in first.split_whitespace() {
        if let Some((k, v)) = w.split_once('=') {
            match k {
                "error_terminal" => g.error_terminal = v.parse().ok(),
                "recovery" => g.recovery = v == "true",
                "lalr" => g.lalr = v == "true",
                "codegen" => g.codegen = v.to_string(),
                _ => {}
            }
        }
    }
    let mut automata: Vec<ExpAutomaton> = vec![];
    let mut conflicts = vec![];
    for l in lines {
        let ws: Vec<&str> = l.split_whitespace().collect();
        match ws.first().copied() {
            Some("terminal") => g.terminals.push(crate::dec_str(ws[2]).unwrap()),
            Some("nonterminal") => g.nonterminals.push(crate::dec_str(ws[2]).unwrap()),
            Some("prod") => g.prods.push((ws[2].parse().unwrap(), ws[3..].iter().map(|s| s.to_string()).collect())),
            Some("automaton") => {
                let mut a = ExpAutomaton { user_start: crate::dec_str(ws[1]).unwrap(), ..Default::default() };
                for w in &ws[2..] {
                    if let Some((k, v)) = w.split_once('=') {
                        match k {
                            "start_nt" => a.start_nt = v.parse().unwrap(),
                            "start_prod" => a.start_prod = v.parse().unwrap(),
                            "states" => a.nstates = v.parse().unwrap(),
                            _ => {}
                        }
                    }
                }
                automata.push(a);
            }
            Some("conflicts") => conflicts.push((crate::dec_str(ws[1]).unwrap(), ws[2].parse().unwrap())),
            Some("state") | Some("item") | Some("shift") | Some("reduce") | Some("goto") => {
                let a = automata.last_mut().unwrap();
                if !a.body.is_empty() {
                    a.body.push('|');
                }
                a.body.push_str(&ws.join(" "));
            }
            _ => {}
        }
    }
    Export::Ok { grammar: g, automata, conflicts }
}

impl ExpGrammar {
    /// the `grammar …` request line of lpm_lr
    pub fn line(&self, start_prod: usize) -> String {
        format!(
            "grammar nterm={} nnt={} start={} errterm={} prods={}",
            self.terminals.len(),
            self.nonterminals.len(),
            start_prod,
            self.error_terminal.map(|e| e.to_string()).unwrap_or_else(|| "-".into()),
            self.prods
                .iter()
                .map(|(l, r)| format!("{}:{}", l, r.join(".")))
                .collect::<Vec<_>>()
                .join(",")
        )
    }
}

// ---------------------------------------------------------------------------------------------
// values, rendered exactly as lpm_lr renders them

#[derive(Clone, Debug)]
pub struct Tk {
    pub kind: Option<usize>,
    pub id: usize,
}

#[derive(Clone, Debug)]
pub enum Val {
    Leaf(usize),
    Node(usize, i64, i64, Vec<Val>),
    Err(String, Vec<usize>),
}

pub fn show_val(v: &Val) -> String {
    match v {
        Val::Leaf(id) => format!("t{id}"),
        Val::Node(p, l, r, ks) => {
            let mut s = format!("({p} {l} {r}");
            for k in ks {
                s.push(' ');
                s.push_str(&show_val(k));
            }
            s.push(')');
            s
        }
        Val::Err(e, d) => format!("(! {} [{}])", e, csv(d)),
    }
}

pub type PE = ParseError<i64, Tk, u64>;

pub fn show_perr(e: &PE, repr_index: &dyn Fn(&str) -> usize) -> String {
    let exp = |ex: &Vec<String>| csv(&ex.iter().map(|s| repr_index(s)).collect::<Vec<_>>());
    match e {
        ParseError::InvalidToken { location } => format!("IT({location})"),
        ParseError::UnrecognizedEof { location, expected } => format!("UE({location};{})", exp(expected)),
        ParseError::UnrecognizedToken { token: (l, t, r), expected } => format!("UT({l},{},{r};{})", t.id, exp(expected)),
        ParseError::ExtraToken { token: (l, t, r) } => format!("ET({l},{},{r})", t.id),
        ParseError::User { error } => format!("US({error})"),
    }
}

// ---------------------------------------------------------------------------------------------
// the table-interpreting ParserDefinition

pub struct Counters {
    pub acts: Cell<usize>,
    pub calls: Cell<usize>,
    pub trace: std::cell::RefCell<Vec<usize>>,
}

pub struct TableDef<'a> {
    pub t: &'a Tables,
    pub fail_at: Option<usize>,
    pub start_loc: i64,
    pub c: Rc<Counters>,
    pub budget: usize,
}

impl<'a> TableDef<'a> {
    fn tick(&self) {
        let n = self.c.calls.get() + 1;
        self.c.calls.set(n);
        if n > self.budget {
            panic!("verif-budget-exceeded");
        }
    }
    fn accepts(&self, states: &[i32], idx: usize) -> bool {
        // model of the generated `__accepts(None, states, Some(idx))`
        let mut states = states.to_vec();
        loop {
            self.tick();
            let mut len = states.len();
            let top = states[len - 1];
            let a = self.action(top, idx);
            if a == 0 {
                return false;
            }
            if a > 0 {
                return true;
            }
            match self.simulate_reduce(-(a + 1)) {
                SimulatedReduce::Reduce { states_to_pop, nonterminal_produced } => {
                    len -= states_to_pop;
                    states.truncate(len);
                    let top = states[len - 1];
                    states.push(self.goto(top, nonterminal_produced));
                }
                SimulatedReduce::Accept => return true,
            }
        }
    }
}

impl<'a> ParserDefinition for TableDef<'a> {
    type Location = i64;
    type Error = u64;
    type Token = Tk;
    type TokenIndex = usize;
    type Symbol = Val;
    type Success = Val;
    type StateIndex = i32;
    type Action = i32;
    type ReduceIndex = i32;
    type NonterminalIndex = usize;

    fn start_location(&self) -> i64 {
        self.start_loc
    }
    fn start_state(&self) -> i32 {
        0
    }
    fn token_to_index(&self, token: &Tk) -> Option<usize> {
        token.kind
    }
    fn action(&self, state: i32, i: usize) -> i32 {
        self.tick();
        self.t.action[(state as usize) * self.t.nterm + i]
    }
    fn error_action(&self, state: i32) -> i32 {
        self.action(state, self.t.nterm - 1)
    }
    fn eof_action(&self, state: i32) -> i32 {
        self.tick();
        self.t.eof[state as usize]
    }
    fn goto(&self, state: i32, nt: usize) -> i32 {
        match self.t.goto.get(nt) {
            Some(row) => row.get(state as usize).copied().unwrap_or(0) as i32,
            None => 0,
        }
    }
    fn token_to_symbol(&self, _i: usize, token: Tk) -> Val {
        Val::Leaf(token.id)
    }
    fn expected_tokens(&self, state: i32) -> Vec<String> {
        let n = if self.t.recovery { self.t.nterm - 1 } else { self.t.nterm };
        (0..n).filter(|i| self.action(state, *i) != 0).map(|i| i.to_string()).collect()
    }
    fn expected_tokens_from_states(&self, states: &[i32]) -> Vec<String> {
        let n = if self.t.recovery { self.t.nterm - 1 } else { self.t.nterm };
        (0..n).filter(|i| self.accepts(states, *i)).map(|i| i.to_string()).collect()
    }
    fn uses_error_recovery(&self) -> bool {
        self.t.recovery
    }
    fn error_recovery_symbol(&self, recovery: ErrorRecovery<i64, Tk, u64>) -> Val {
        let ri = |s: &str| s.parse::<usize>().unwrap();
        Val::Err(
            show_perr(&recovery.error, &ri),
            recovery.dropped_tokens.iter().map(|t| t.1.id).collect(),
        )
    }
    fn reduce(
        &mut self,
        action: i32,
        start_location: Option<&i64>,
        states: &mut Vec<i32>,
        symbols: &mut Vec<SymbolTriple<Self>>,
    ) -> Option<Result<Val, PE>> {
        // same shape as the generated `__reduce` (lr1/codegen/parse_table.rs::emit_reduce_action)
        self.tick();
        let p = action as usize;
        if action < 0 || p >= self.t.plen.len() {
            panic!("invalid action code {action}");
        }
        let n = self.t.plen[p];
        if symbols.len() < n {
            panic!("symbol type mismatch");
        }
        let popped: Vec<(i64, Val, i64)> = symbols.split_off(symbols.len() - n);
        let (start, end) = match (popped.first(), popped.last()) {
            (Some(f), Some(l)) => (f.0, l.2),
            _ => {
                let s = start_location.cloned().or_else(|| symbols.last().map(|s| s.2)).unwrap_or(self.start_loc);
                (s, s)
            }
        };
        let k = self.c.acts.get();
        self.c.acts.set(k + 1);
        self.c.trace.borrow_mut().push(p);
        if self.t.fallible[p] && self.fail_at == Some(k) {
            return Some(Err(ParseError::User { error: 1000 + k as u64 }));
        }
        if self.t.isstart[p] {
            if popped.len() != 1 {
                panic!("bad start production");
            }
            return Some(Ok(popped.into_iter().next().unwrap().1));
        }
        let kids = popped.into_iter().map(|s| s.1).collect();
        symbols.push((start, Val::Node(p, start, end, kids), end));
        let len = states.len();
        states.truncate(len - n);
        let state = *states.last().unwrap();
        let next = self.goto(state, self.t.plhs[p]);
        states.push(next);
        None
    }
    fn simulate_reduce(&self, action: i32) -> SimulatedReduce<Self> {
        let p = action as usize;
        if action < 0 || p >= self.t.plen.len() {
            panic!("invalid reduction index {action}");
        }
        if self.t.isstart[p] {
            SimulatedReduce::Accept
        } else {
            SimulatedReduce::Reduce { states_to_pop: self.t.plen[p], nonterminal_produced: self.t.plhs[p] }
        }
    }
}

/// One stream item of a run: a token `(l, kind, r)` or an error id.
#[derive(Clone, Debug)]
pub enum StreamItem {
    Tok(i64, Option<usize>, i64),
    Err(u64),
}

pub fn items_field(items: &[StreamItem]) -> String {
    items
        .iter()
        .map(|i| match i {
            StreamItem::Tok(l, k, r) => format!("{l}:{}:{r}", k.map(|k| k.to_string()).unwrap_or_else(|| "-".into())),
            StreamItem::Err(e) => format!("E{e}"),
        })
        .collect::<Vec<_>>()
        .join(",")
}

/// Runs the real driver on `tables` and renders the outcome as lpm_lr does.
pub fn drive_real(t: &Tables, items: &[StreamItem], fail_at: Option<usize>, start_loc: i64) -> String {
    let c = Rc::new(Counters { acts: Cell::new(0), calls: Cell::new(0), trace: Default::default() });
    let pulled = Rc::new(Cell::new(0usize));
    let def = TableDef { t, fail_at, start_loc, c: c.clone(), budget: 300_000 };
    let p2 = pulled.clone();
    let mut it = items.iter().cloned().enumerate();
    let stream = std::iter::from_fn(move || {
        p2.set(p2.get() + 1);
        it.next().map(|(id, item)| match item {
            StreamItem::Tok(l, k, r) => Ok((l, Tk { kind: k, id }, r)),
            StreamItem::Err(e) => Err(ParseError::User { error: e }),
        })
    });
    let res = std::panic::catch_unwind(std::panic::AssertUnwindSafe(|| {
        lalrpop_util::state_machine::Parser::drive(def, stream)
    }));
    let ri = |s: &str| s.parse::<usize>().unwrap();
    let tail = || {
        format!(
            " pulled={} acts={} trace={}",
            pulled.get(),
            c.acts.get(),
            c.trace.borrow().iter().map(|p| p.to_string()).collect::<Vec<_>>().join(".")
        )
    };
    match res {
        Ok(Ok(v)) => format!("ok {}{}", show_val(&v), tail()),
        Ok(Err(e)) => format!("err {}{}", show_perr(&e, &ri), tail()),
        Err(p) => {
            let msg = p
                .downcast_ref::<String>()
                .cloned()
                .or_else(|| p.downcast_ref::<&str>().map(|s| s.to_string()))
                .unwrap_or_default();
            if msg.contains("verif-budget-exceeded") { "budget".into() } else { "panic".into() }
        }
    }
}
