// Shared by bin/prec.rs, bin/panic.rs and bin/cfg.rs via include!: random grammars with
// precedence / associativity / cfg annotations, rendered as .lalrpop text.
// (Everything random derives from the Rng passed in.)

#[allow(dead_code)]
pub mod precgen {
    use verif_harness::Rng;

    /// how far from "well-formed" the attribute layer may go
    #[derive(Clone, Copy, PartialEq, Eq, Debug)]
    pub enum Wild {
        /// layouts the documentation describes (may still trip the validator: assoc on the first level)
        Tame,
        /// also malformed attribute shapes, unparsable levels/sides, duplicates, foreign attributes
        Wild,
    }

    pub struct GenStats {
        pub levels: usize,
        pub alts: usize,
        pub inherited: usize,
        pub own_assoc: usize,
        pub rec_occurrences: usize,
        pub nested_forms: usize,
        pub macro_def: bool,
        pub cfg_alts: usize,
    }

    pub struct Gen<'a> {
        pub r: &'a mut Rng,
        pub name: String,
        pub wild: Wild,
        pub stats: GenStats,
        bind: usize,
        pub features: Vec<&'static str>,
        pub with_cfg: bool,
    }

    const OPS: &[&str] = &["\"+\"", "\"-\"", "\"*\"", "\"/\"", "\"^\"", "\"==\"", "\"<\"", "\"&&\""];
    const PRE: &[&str] = &["\"!\"", "\"~\"", "\"neg\""];
    const POST: &[&str] = &["\"++\"", "\"?\"", "\"[]\""];

    impl<'a> Gen<'a> {
        pub fn new(r: &'a mut Rng, wild: Wild) -> Self {
            let name = (*r.pick(&["E", "Expr", "T1", "Op_", "E0", "N"])).to_string();
            Gen {
                r,
                name,
                wild,
                stats: GenStats {
                    levels: 0,
                    alts: 0,
                    inherited: 0,
                    own_assoc: 0,
                    rec_occurrences: 0,
                    nested_forms: 0,
                    macro_def: false,
                    cfg_alts: 0,
                },
                bind: 0,
                features: vec!["f", "g_h", "k"],
                with_cfg: false,
            }
        }

        fn rec(&mut self) -> String {
            self.stats.rec_occurrences += 1;
            self.name.clone()
        }

        /// a symbol position that should hold a recursive occurrence, possibly wrapped
        fn rec_sym(&mut self, depth: usize) -> String {
            let k = self.r.below(if depth == 0 { 14 } else { 9 });
            match k {
                0..=5 => self.rec(),
                6 => {
                    self.stats.nested_forms += 1;
                    format!("{}{}", self.rec_sym(depth + 1), self.r.pick(&["?", "*", "+"]))
                }
                7 => {
                    self.stats.nested_forms += 1;
                    let a = self.rec_sym(depth + 1);
                    let b = self.rec_sym(depth + 1);
                    match self.r.below(3) {
                        0 => format!("({a} \",\" {b})"),
                        1 => format!("(<{a}> \";\")"),
                        _ => format!("({a})"),
                    }
                }
                8 => {
                    self.stats.nested_forms += 1;
                    let a = self.rec_sym(depth + 1);
                    if self.r.chance(1, 2) {
                        let b = self.rec_sym(depth + 1);
                        format!("M2<{a}, {b}>")
                    } else {
                        format!("M1<{a}>")
                    }
                }
                // wrappers only legal at the top of a symbol
                9 | 10 => {
                    self.stats.nested_forms += 1;
                    format!("<{}>", self.rec_sym0())
                }
                11 | 12 => {
                    self.stats.nested_forms += 1;
                    self.bind += 1;
                    let m = if self.r.chance(1, 4) { "mut " } else { "" };
                    let b = self.bind;
                    let inner = self.rec_sym0();
                    format!("<{m}v{b}:{inner}>")
                }
                _ => {
                    self.stats.nested_forms += 1;
                    self.bind += 2;
                    let b = self.bind;
                    let inner = self.rec_sym0();
                    format!("<(a{}, b{}):{}>", b, b + 1, inner)
                }
            }
        }
        fn rec_sym0(&mut self) -> String {
            self.rec_sym(1)
        }

        fn other_sym(&mut self) -> String {
            match self.r.below(10) {
                0 => "Atom".to_string(),
                1 => "\"id\"".to_string(),
                2 => "r\"[0-9]+\"".to_string(),
                3 => "@L".to_string(),
                4 => "@R".to_string(),
                5 => "M1<Atom>".to_string(),
                6 => "Atom?".to_string(),
                7 => "(Atom \",\")*".to_string(),
                8 => "!".to_string(),
                _ => "\"(\"".to_string(),
            }
        }

        /// symbols of one alternative; `named` alternatives never mix `<x>` and `<n:x>`
        fn alt_symbols(&mut self) -> (String, &'static str) {
            let shape = self.r.below(9);
            // choose/named wrappers cannot be mixed inside one expression: rec_sym picks them
            // independently, so re-draw until consistent (cheap, bounded)
            for _ in 0..50 {
                let save = (self.stats.rec_occurrences, self.stats.nested_forms, self.bind);
                let (s, label): (String, &'static str) = match shape {
                    0 => (self.other_sym(), "atomic"),
                    1 | 2 => {
                        let op = *self.r.pick(OPS);
                        (format!("{} {} {}", self.rec_sym(0), op, self.rec_sym(0)), "binary")
                    }
                    3 => {
                        let op = *self.r.pick(PRE);
                        (format!("{} {}", op, self.rec_sym(0)), "prefix")
                    }
                    4 => {
                        let op = *self.r.pick(POST);
                        (format!("{} {}", self.rec_sym(0), op), "postfix")
                    }
                    5 => (
                        format!("{} \"?\" {} \":\" {}", self.rec_sym(0), self.rec_sym(0), self.rec_sym(0)),
                        "ternary",
                    ),
                    6 => (format!("\"(\" {} \")\"", self.rec_sym(0)), "paren"),
                    7 => {
                        let n = 1 + self.r.below(5);
                        let mut parts = vec![];
                        for _ in 0..n {
                            if self.r.chance(2, 3) {
                                parts.push(self.rec_sym(0));
                            } else {
                                parts.push(self.other_sym());
                            }
                        }
                        (parts.join(" "), "mixed")
                    }
                    _ => (format!("{} {}", self.other_sym(), self.other_sym()), "norec"),
                };
                // top-level consistency: count top-level `<x>` vs `<n:x>` inside each paren group is
                // hard to see textually; use a conservative test: reject if both kinds occur anywhere
                let has_named = s.contains("<v") || s.contains("<mut v") || s.contains("<(a");
                let has_choose = has_anon_choose(&s);
                if !(has_named && has_choose) {
                    return (s, label);
                }
                self.stats.rec_occurrences = save.0;
                self.stats.nested_forms = save.1;
                self.bind = save.2;
            }
            (self.rec(), "atomic")
        }

        fn level_value(&mut self) -> String {
            if self.wild == Wild::Wild && self.r.chance(1, 6) {
                (*self.r.pick(&[
                    "", "x", "-1", " 1", "1 ", "+", "-", "+2", "007", "4294967295", "4294967296",
                    "99999999999999999999", "1_0", "٣", "0x10", "+0", "00",
                ]))
                .to_string()
            } else if self.r.chance(1, 12) {
                (*self.r.pick(&["+2", "007", "4294967295", "00", "10", "100"])).to_string()
            } else {
                format!("{}", self.r.below(6))
            }
        }

        fn prec_attr(&mut self) -> String {
            let v = self.level_value();
            if self.wild == Wild::Wild && self.r.chance(1, 8) {
                match self.r.below(7) {
                    0 => "#[precedence]".to_string(),
                    1 => format!("#[precedence = \"{v}\"]"),
                    2 => "#[precedence(level)]".to_string(),
                    3 => format!("#[precedence(lvl=\"{v}\")]"),
                    4 => format!("#[precedence(level=\"{v}\", level=\"0\")]"),
                    5 => "#[precedence()]".to_string(),
                    _ => format!("#[precedence(level(level=\"{v}\"))]"),
                }
            } else {
                format!("#[precedence(level=\"{v}\")]")
            }
        }

        fn assoc_attr(&mut self) -> String {
            let side = if self.wild == Wild::Wild && self.r.chance(1, 8) {
                (*self.r.pick(&["Left", "", "both", "left ", "non"])).to_string()
            } else {
                (*self.r.pick(&["left", "left", "right", "right", "none", "all"])).to_string()
            };
            if self.wild == Wild::Wild && self.r.chance(1, 10) {
                match self.r.below(5) {
                    0 => "#[assoc]".to_string(),
                    1 => format!("#[assoc = \"{side}\"]"),
                    2 => format!("#[assoc(sid=\"{side}\")]"),
                    3 => "#[assoc()]".to_string(),
                    _ => format!("#[assoc(side=\"{side}\", side=\"left\")]"),
                }
            } else {
                format!("#[assoc(side=\"{side}\")]")
            }
        }

        pub fn cfg_pred(&mut self, depth: usize) -> String {
            let k = if depth >= 3 { 0 } else { self.r.below(7) };
            match k {
                0 | 1 | 2 => format!("feature = \"{}\"", self.r.pick(&self.features.clone())),
                3 => format!("not({})", self.cfg_pred(depth + 1)),
                4 | 5 => {
                    let n = 1 + self.r.below(3);
                    let parts: Vec<String> = (0..n).map(|_| self.cfg_pred(depth + 1)).collect();
                    format!("{}({})", if k == 4 { "all" } else { "any" }, parts.join(", "))
                }
                _ => format!("not({})", self.cfg_pred(depth + 1)),
            }
        }

        /// attributes of alternative number `i`
        fn alt_attrs(&mut self, i: usize) -> Vec<String> {
            let mut attrs = vec![];
            let own_prec = i == 0 && (self.wild == Wild::Tame || self.r.chance(9, 10)) || (i > 0 && self.r.chance(1, 2));
            if own_prec {
                attrs.push(self.prec_attr());
            } else {
                self.stats.inherited += 1;
            }
            if self.r.chance(2, 5) {
                attrs.push(self.assoc_attr());
                self.stats.own_assoc += 1;
            }
            if self.wild == Wild::Wild {
                if self.r.chance(1, 15) {
                    attrs.push(self.prec_attr());
                }
                if self.r.chance(1, 15) {
                    attrs.push(self.assoc_attr());
                }
                if self.r.chance(1, 25) {
                    attrs.push("#[inline]".to_string());
                }
            }
            if self.with_cfg && self.r.chance(1, 3) {
                let p = self.cfg_pred(0);
                attrs.push(format!("#[cfg({p})]"));
                self.stats.cfg_alts += 1;
            }
            // attribute order is free
            if attrs.len() > 1 && self.r.chance(1, 3) {
                let j = self.r.below(attrs.len());
                attrs.swap(0, j);
            }
            attrs
        }

        /// the annotated nonterminal (returns its text)
        pub fn annotated_nonterminal(&mut self) -> String {
            let n = 1 + self.r.below(7);
            self.stats.alts = n;
            let macro_def = self.r.chance(1, 12);
            self.stats.macro_def = macro_def;
            let mut out = String::new();
            let vis = if !macro_def && self.r.chance(1, 2) { "pub " } else { "" };
            let head = if macro_def { format!("{}<P>", self.name) } else { self.name.clone() };
            if macro_def {
                // recursive occurrences of a macro are macro symbols
                self.name = format!("{}<P>", self.name);
            }
            out.push_str(&format!("{vis}{head}: () = {{\n"));
            let mut lvls = std::collections::BTreeSet::new();
            let mut all_attrs: Vec<Vec<String>> = (0..n).map(|i| self.alt_attrs(i)).collect();
            if self.wild == Wild::Tame && self.r.chance(3, 4) {
                // mostly legal layouts: drop assoc attributes from the alternatives whose effective
                // level is the lowest one (the validator rejects those)
                let mut eff = vec![];
                let mut last = 0u32;
                for attrs in &all_attrs {
                    for a in attrs {
                        if let Some(p) = a.strip_prefix("#[precedence(level=\"") {
                            last = p.split('"').next().unwrap().parse().unwrap_or(0);
                        }
                    }
                    eff.push(last);
                }
                let min = *eff.iter().min().unwrap();
                for (i, attrs) in all_attrs.iter_mut().enumerate() {
                    if eff[i] == min {
                        attrs.retain(|a| !a.starts_with("#[assoc"));
                    }
                }
            }
            for i in 0..n {
                let attrs = all_attrs[i].clone();
                for a in &attrs {
                    if let Some(p) = a.strip_prefix("#[precedence(level=\"") {
                        lvls.insert(p.split('"').next().unwrap().to_string());
                    }
                }
                let (syms, _label) = self.alt_symbols();
                out.push_str(&format!("    {} {} => (),\n", attrs.join(" "), syms));
            }
            self.stats.levels = lvls.len();
            out.push_str("};\n");
            if macro_def {
                self.name = self.name.trim_end_matches("<P>").to_string();
            }
            out
        }

        /// a whole grammar around the annotated nonterminal
        pub fn grammar(&mut self) -> String {
            let nt = self.annotated_nonterminal();
            let mut g = String::from("grammar;\n");
            let before = self.r.chance(1, 2);
            let support = "Atom: () = { \"a\" => (), \"b\" => () };\nM1<A>: () = A => ();\nM2<A, B>: () = A B => ();\n";
            if before {
                g.push_str(support);
            }
            g.push_str(&nt);
            if !before {
                g.push_str(support);
            }
            if self.stats.macro_def {
                g.push_str(&format!("pub Top: () = {}<Atom> => ();\n", self.name));
            } else if self.r.chance(1, 2) {
                g.push_str(&format!("pub Top: () = \"top\" {} => ();\n", self.name));
            }
            g
        }
    }

    /// does the text contain an anonymous `<sym>` (as opposed to `<name:sym>`, macro arguments `M1<..>`)?
    fn has_anon_choose(s: &str) -> bool {
        let b: Vec<char> = s.chars().collect();
        let mut i = 0;
        while i < b.len() {
            if b[i] == '"' {
                // skip string literal
                i += 1;
                while i < b.len() && b[i] != '"' {
                    i += 1;
                }
            } else if b[i] == '<' {
                let prev_ident = i > 0 && (b[i - 1].is_alphanumeric() || b[i - 1] == '_');
                if !prev_ident {
                    // `<` opening a choose/named/tuple wrapper: named iff a ':' follows the binder
                    let rest: String = b[i + 1..].iter().collect();
                    let named = rest.starts_with("v") && rest[1..].chars().next().is_some_and(|c| c.is_ascii_digit())
                        || rest.starts_with("mut v")
                        || rest.starts_with("(a");
                    if !named {
                        return true;
                    }
                }
            }
            i += 1;
        }
        false
    }
}
