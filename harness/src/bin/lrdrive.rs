//! M-LR correspondence (layers 1–3 of DESIGN §7 C01): for generated grammars × construction
//! algorithms, export the automaton lalrpop builds, extract the tables it emits, and run the REAL
//! `state_machine::Parser::drive` over them; the same requests go to `lpm_lr`.
//!
//! args: --seed S --n GRAMMARS --out DIR [inputs=K] [novalidate]
use verif_harness::gram::*;
use verif_harness::lr::*;
use verif_harness::*;

fn set_algo(algo: &str) {
    // SAFETY: single-threaded
    unsafe {
        if algo == "lane" {
            std::env::remove_var("LALRPOP_LANE_TABLE");
        } else {
            std::env::set_var("LALRPOP_LANE_TABLE", "disabled");
        }
    }
}

fn spans(r: &mut Rng, kinds: &[Option<usize>]) -> Vec<StreamItem> {
    let mut pos: i64 = r.range(0, 3);
    kinds
        .iter()
        .map(|k| {
            let l = pos + r.range(0, 2);
            let rr = l + r.range(1, 3);
            pos = rr;
            StreamItem::Tok(l, *k, rr)
        })
        .collect()
}

fn main() {
    let o = parse_opts();
    if std::env::var("VERIF_LOUD").is_err() { std::panic::set_hook(Box::new(|_| {})); }
    let per_grammar: usize = o
        .extra
        .iter()
        .find_map(|e| e.strip_prefix("inputs=").map(|v| v.parse().unwrap()))
        .unwrap_or(40);
    let validate = !o.extra.iter().any(|e| e == "novalidate");
    let bang_always = o.extra.iter().any(|e| e == "bang=always");
    let exh: usize = o
        .extra
        .iter()
        .find_map(|e| e.strip_prefix("exh=").map(|v| v.parse().unwrap()))
        .unwrap_or(4);
    let (mut members, mut members_yes) = (0usize, 0usize);
    let mut st = Streams::create(&o.out, "lr");
    let mut h = Hist::default();
    let mut r = Rng::new(o.seed);
    let gen_dir = o.out.join("gen");
    let mut samples: Vec<String> = vec![];
    let mut distinct_tables = std::collections::BTreeSet::new();
    let mut verdict_mismatch: Vec<String> = vec![];
    let mut extract_fail: Vec<String> = vec![];
    let mut ctxfile = String::new();
    let mut hangs: Vec<String> = vec![];
    let mut panics: Vec<String> = vec![];
    for gi in 0..o.n {
        let allow_bang = r.chance(1, 4);
        let cfg = if bang_always { gen_cfg_recovery(&mut r) } else { gen_cfg_indexed(&mut r, gi, allow_bang || gi < n_templates()) };
        h.hit(&format!("origin:{}", cfg.origin.split('+').next().unwrap()));
        for algo in ["lane", "lr1", "lalr"] {
            let mut cfg2 = cfg.clone();
            cfg2.lalr = algo == "lalr";
            let text = cfg2.render_unit("#[table_driven]\n").replace("#[table_driven]\n#[LALR]\ngrammar;", "#[LALR]\ngrammar;");
            // (`#[table_driven]` is not an attribute lalrpop knows; table-driven is the default)
            let text = text.replace("#[table_driven]\n", "");
            set_algo(algo);
            let export = parse_export(&lalrpop::verif_hooks::export_automaton(&text, None));
            let (grammar, automata, conflicts) = match export {
                Export::ParseError => {
                    h.hit("export:parse-error");
                    continue;
                }
                Export::NormalizeError(m) => {
                    h.hit(&format!("export:normalize-error:{}", m.split(' ').take(3).collect::<Vec<_>>().join(" ")));
                    continue;
                }
                Export::Ok { grammar, automata, conflicts } => (grammar, automata, conflicts),
            };
            let generated = generate_parser(&gen_dir, "g", &text, |_| {});
            let accepted = generated.is_ok();
            h.hit(&format!("verdict:{}:{}", algo, if accepted { "accepted" } else { "rejected" }));
            if accepted != conflicts.is_empty() {
                verdict_mismatch.push(format!("{algo}: process_file ok={accepted} but export conflicts={conflicts:?}\n{text}"));
            }
            let Ok(gen_text) = generated else { continue };
            if samples.len() < 3 {
                samples.push(text.clone());
            }
            for a in &automata {
                let tables = match extract_tables(&gen_text, &a.user_start, grammar.nonterminals.len()) {
                    Ok(t) => t,
                    Err(e) => {
                        extract_fail.push(format!("{e}\n{text}"));
                        continue;
                    }
                };
                let mut tables = tables;
                // the harness decides which productions are fallible (its own `reduce`)
                for f in tables.fallible.iter_mut() {
                    *f = r.chance(1, 5);
                }
                distinct_tables.insert(tables.line());
                ctxfile.push_str(&format!("{}\t{}\t{}\t{}\n", st.count, algo, a.user_start, enc_str(&text)));
                st.case(&tables.line(), "ok");
                if validate {
                    st.case(&grammar.line(a.start_prod), "ok");
                    st.case(&format!("automaton states={} {}", a.nstates, a.body), "ok");
                    st.case("validate", "valid");
                    st.case("enccheck", "same");
                    // V7: the reduce loop halts from every reachable two-state stack (termination certificate)
                    st.case("validate3", "valid");
                    if !tables.recovery {
                        // V5 (reachable nonterminals productive, no empty item set) + V6 (start reduce only on EOF):
                        // the extra hypotheses of the C04/C05 sentence-prefix theorems
                        let start_nt: usize = a.user_start[1..].parse().unwrap();
                        let reduced = cfg.reduced_from(start_nt);
                        st.case("validate2", if reduced { "valid" } else { "invalid V5-productive" });
                        h.hit(if reduced { "reduced-grammar" } else { "unproductive-grammar" });
                    }
                    h.hit("certificates");
                }
                h.hit(&format!("state_type:{}", tables.state_type));
                // terminal index of my Cfg's terminal i
                let tidx: Vec<usize> = (0..cfg.nterm)
                    .map(|i| {
                        let name = format!("\"{}\"", term_name(i));
                        grammar.terminals.iter().position(|t| *t == name).unwrap_or(usize::MAX)
                    })
                    .collect();
                let used: Vec<usize> = tidx.iter().copied().filter(|x| *x != usize::MAX).collect();
                let start_nt_of_cfg: usize = a.user_start[1..].parse().unwrap();
                for input_no in 0..per_grammar {
                    // the first inputs of every grammar are unmodified sampled sentences
                    let pure = input_no < 8;
                    let mut kinds: Vec<Option<usize>> = match if pure { 0 } else { r.below(10) } {
                        0..=5 => match { let b = 2 + r.below(30); cfg.sample(&mut r, start_nt_of_cfg, b) } {
                            Some(s) => s.iter().map(|t| Some(tidx[*t])).collect(),
                            None => vec![],
                        },
                        _ => {
                            let n = r.below(8);
                            (0..n).map(|_| if used.is_empty() { None } else { Some(*r.pick(&used)) }).collect()
                        }
                    };
                    kinds.retain(|k| *k != Some(usize::MAX));
                    // truncation: proper prefixes exercise the end-of-input error paths
                    if !pure && r.chance(1, 6) && !kinds.is_empty() {
                        let keep = r.below(kinds.len());
                        kinds.truncate(keep);
                        h.hit("input:truncated");
                    }
                    // a burst of junk (several consecutive dropped tokens during recovery)
                    if !pure && r.chance(1, 8) && !used.is_empty() {
                        let j = r.below(kinds.len() + 1);
                        for _ in 0..2 + r.below(3) {
                            kinds.insert(j, Some(*r.pick(&used)));
                        }
                        h.hit("input:burst");
                    }
                    // mutations
                    let muts = if pure { 0 } else { match r.below(4) {
                        0 => 0,
                        1 => 1,
                        2 => 1,
                        _ => 2,
                    } };
                    for _ in 0..muts {
                        match r.below(4) {
                            0 if !kinds.is_empty() => {
                                let j = r.below(kinds.len());
                                kinds.remove(j);
                            }
                            1 if !used.is_empty() => {
                                let j = r.below(kinds.len() + 1);
                                kinds.insert(j, Some(*r.pick(&used)));
                            }
                            2 if !kinds.is_empty() && !used.is_empty() => {
                                let j = r.below(kinds.len());
                                kinds[j] = Some(*r.pick(&used));
                            }
                            3 if !kinds.is_empty() && r.chance(1, 4) => {
                                // a token no pattern matches / the error terminal itself / out of range
                                let j = r.below(kinds.len());
                                // a token no pattern matches (`token_to_index` = None)
                                kinds[j] = None;
                            }
                            _ => {}
                        }
                    }
                    let mut items = spans(&mut r, &kinds);
                    if !pure && r.chance(1, 10) {
                        let j = r.below(items.len() + 1);
                        items.insert(j, StreamItem::Err(r.below(50) as u64));
                        h.hit("input:stream-error");
                    }
                    let fail_at = if !pure && r.chance(1, 6) { Some(r.below(6)) } else { None };
                    let start_loc = if r.chance(1, 5) { r.range(-3, 3) } else { 0 };
                    let out = drive_real(&tables, &items, fail_at, start_loc);
                    // property-level oracle that needs no tables: a short token string must be accepted iff the
                    // table-independent recognizer derives it (sampled sentences of LR(1)-not-LALR grammars included)
                    if validate && !tables.recovery && fail_at.is_none() && items.len() <= 12
                        && items.iter().all(|i| matches!(i, StreamItem::Tok(_, Some(k), _) if *k < tables.nterm))
                    {
                        let ks: Vec<String> = items.iter().map(|i| if let StreamItem::Tok(_, Some(k), _) = i { k.to_string() } else { String::new() }).collect();
                        let verdict = if out.starts_with("ok ") { "yes" } else if out.starts_with("err ") { "no" } else { "crash" };
                        st.case(&format!("member kinds={}", ks.join(",")), verdict);
                        members += 1;
                        if verdict == "yes" {
                            members_yes += 1;
                        }
                    }
                    h.hit(&format!("outcome:{}", out.split(|c| c == ' ' || c == '(').take(2).collect::<Vec<_>>().join(" ")));
                    h.hit(&format!("len:{}", items.len().min(20)));
                    if out == "budget" && hangs.len() < 5 {
                        hangs.push(format!("algo={algo} start={} input={}\n{text}", a.user_start, items_field(&items)));
                    }
                    if out == "panic" && panics.len() < 5 && kinds.iter().all(|k| k.is_some_and(|k| k < tables.nterm)) {
                        panics.push(format!("algo={algo} start={} input={}\n{text}", a.user_start, items_field(&items)));
                    }
                    st.case(
                        &format!(
                            "run fail={} start={} input={}",
                            fail_at.map(|f| f.to_string()).unwrap_or_else(|| "-".into()),
                            start_loc,
                            items_field(&items)
                        ),
                        &out,
                    );
                }
                // exhaustive membership cross-check against the table-independent oracle
                // (`member`): all strings up to length `exh` over the grammar's terminals
                if validate && !tables.recovery && exh > 0 && !used.is_empty() && used.len() <= 4 {
                    let maxlen = if used.len() <= 2 { exh + 2 } else if used.len() == 3 { exh } else { exh.saturating_sub(1) };
                    let mut w: Vec<usize> = vec![];
                    loop {
                        let items: Vec<StreamItem> = w
                            .iter()
                            .enumerate()
                            .map(|(i, k)| StreamItem::Tok(2 * i as i64, Some(used[*k]), 2 * i as i64 + 1))
                            .collect();
                        let out = drive_real(&tables, &items, None, 0);
                        let verdict = if out.starts_with("ok ") { "yes" } else if out.starts_with("err ") { "no" } else { "crash" };
                        st.case(
                            &format!("member kinds={}", w.iter().map(|k| used[*k].to_string()).collect::<Vec<_>>().join(",")),
                            verdict,
                        );
                        members += 1;
                        if verdict == "yes" {
                            members_yes += 1;
                        }
                        // next string in length-lexicographic order
                        let mut i = w.len();
                        loop {
                            if i == 0 {
                                w = vec![0; w.len() + 1];
                                break;
                            }
                            i -= 1;
                            if w[i] + 1 < used.len() {
                                w[i] += 1;
                                for x in w.iter_mut().skip(i + 1) {
                                    *x = 0;
                                }
                                break;
                            }
                        }
                        if w.len() > maxlen {
                            break;
                        }
                    }
                }
                // corrupted tables: exercise the panic branches of the driver and of the model
                if gi % 4 == 0 && !tables.action.is_empty() && !tables.goto.is_empty() {
                    let mut bad = tables.clone();
                    for _ in 0..1 + r.below(3) {
                        match r.below(3) {
                            0 => {
                                let j = r.below(bad.action.len());
                                bad.action[j] = r.range(-(bad.plen.len() as i64) - 1, bad.nstates() as i64 + 1) as i32;
                            }
                            1 => {
                                let j = r.below(bad.eof.len());
                                bad.eof[j] = r.range(-(bad.plen.len() as i64) - 1, 0) as i32;
                            }
                            _ => {
                                let a = r.below(bad.goto.len());
                                let j = r.below(bad.goto[a].len());
                                bad.goto[a][j] = r.below(bad.nstates() + 1);
                            }
                        }
                    }
                    ctxfile.push_str(&format!("{}\tcorrupt-{}\t{}\t{}\n", st.count, algo, a.user_start, enc_str(&text)));
                    st.case(&bad.line(), "ok");
                    for _ in 0..per_grammar / 2 {
                        let n = r.below(7);
                        let kinds: Vec<Option<usize>> = (0..n).map(|_| Some(r.below(bad.nterm.max(1) + 1))).collect();
                        let items = spans(&mut r, &kinds);
                        let out = drive_real(&bad, &items, None, 0);
                        h.hit(&format!("bad-tables:{}", out.split(' ').next().unwrap()));
                        st.case(&format!("run fail=- start=0 input={}", items_field(&items)), &out);
                    }
                }
            }
        }
    }
    let total = st.count;
    st.finish();
    std::fs::write(o.out.join("lr.ctx"), ctxfile).unwrap();
    let _ = std::fs::remove_dir_all(&gen_dir);
    println!(
        "{{\"members\":{members},\"members_yes\":{members_yes},\"hangs\":[{}],\"panics\":[{}],\"cases\":{},\"grammars\":{},\"distinct_tables\":{},\"verdict_mismatch\":[{}],\"extract_fail\":[{}],\"samples\":[{}],\"hist\":{}}}",
        hangs.iter().map(|s| json_str(s)).collect::<Vec<_>>().join(","),
        panics.iter().map(|s| json_str(s)).collect::<Vec<_>>().join(","),
        total,
        o.n,
        distinct_tables.len(),
        verdict_mismatch.iter().map(|s| json_str(s)).collect::<Vec<_>>().join(","),
        extract_fail.iter().map(|s| json_str(s)).collect::<Vec<_>>().join(","),
        samples.iter().map(|s| json_str(s)).collect::<Vec<_>>().join(","),
        h.json()
    );
}
