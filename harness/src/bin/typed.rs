//! C19 tie/search: generator of well-typed surface grammars (annotated and inferred nonterminal
//! types, tuples, `Vec`/`Option` from `*`, `+`, `?` and user macros, `<>`/named/tuple bindings,
//! generics and lifetimes, extern token enums with payloads and the built-in lexer, fallible
//! actions), both code generators.
//!
//! For every grammar: `stage_dump token_check` (input of the Lean inference model) and
//! `stage_dump lower` (the types lalrpop inferred) → <out>/typed.req / typed.impl; every grammar
//! lalrpop accepts is generated with both backends and all modules are compiled as ONE scratch crate;
//! rustc errors are attributed to modules through the file names in the diagnostics.
//!
//! args: --seed S --n GRAMMARS --out DIR [recheck=0|1] [--replay FILE.json]
//! One JSON stats line on stdout; per-grammar records in <out>/typed.meta.json.
#![allow(dead_code)]
use verif_harness::*;

// ------------------------------------------------------------------------------------------ types

#[derive(Clone, PartialEq, Debug)]
enum Ty {
    I64,
    U8,
    Bool,
    Str,
    /// `&'input str`
    InStr,
    /// the extern token type, as written
    Tok,
    /// the location type
    Loc,
    /// grammar type parameter `T`
    Param,
    /// `&'a T`
    RefParam,
    Tuple(Vec<Ty>),
    /// `alloc == true`: the `alloc::vec::Vec<..>` of `X*` / `X+`
    Vec(Box<Ty>, bool),
    Opt(Box<Ty>),
}

struct Cx {
    tok_ty: String,
}

impl Ty {
    fn rust(&self, cx: &Cx) -> String {
        match self {
            Ty::I64 => "i64".into(),
            Ty::U8 => "u8".into(),
            Ty::Bool => "bool".into(),
            Ty::Str => "String".into(),
            Ty::InStr => "&'input str".into(),
            Ty::Tok => cx.tok_ty.clone(),
            Ty::Loc => "usize".into(),
            Ty::Param => "T".into(),
            Ty::RefParam => "&'a T".into(),
            Ty::Tuple(ts) => format!("({})", ts.iter().map(|t| t.rust(cx)).collect::<Vec<_>>().join(", ")),
            Ty::Vec(t, true) => format!("alloc::vec::Vec<{}>", t.rust(cx)),
            Ty::Vec(t, false) => format!("Vec<{}>", t.rust(cx)),
            Ty::Opt(t) => format!("Option<{}>", t.rust(cx)),
        }
    }
    fn uses_param(&self) -> bool {
        match self {
            Ty::Param | Ty::RefParam => true,
            Ty::Tuple(ts) => ts.iter().any(|t| t.uses_param()),
            Ty::Vec(t, _) | Ty::Opt(t) => t.uses_param(),
            _ => false,
        }
    }
}

fn maybe_tuple(mut ts: Vec<Ty>) -> Ty {
    if ts.len() == 1 {
        ts.pop().unwrap()
    } else {
        Ty::Tuple(ts)
    }
}

// ---------------------------------------------------------------------------------------- symbols

#[derive(Clone, Debug)]
enum Sym {
    /// terminal by spelling (`"k3"`, `"num"`, `r"[0-9]+"`)
    Term(String, Ty),
    Nt(usize, Ty),
    Star(Box<Sym>),
    Plus(Box<Sym>),
    Quest(Box<Sym>),
    Group(Vec<Item>),
    /// `Comma<X>`
    Comma(Box<Sym>),
    /// `Pair<A, B>`
    Pair(Box<Sym>, Box<Sym>),
    /// `Maybe<X>`
    Maybe(Box<Sym>),
    /// `Tagged<X>`
    Tagged(Box<Sym>),
    Lookahead,
    Lookbehind,
}

#[derive(Clone, Debug)]
enum Bind {
    None,
    Choose,
    Named(String, bool),
    /// a tuple pattern over a tuple-typed symbol: pattern text and the bound variables
    TuplePat(String, Vec<(String, Ty)>),
}

#[derive(Clone, Debug)]
struct Item {
    sym: Sym,
    bind: Bind,
}

fn default_type(items: &[Item]) -> Option<Ty> {
    if items.iter().any(|i| matches!(i.bind, Bind::Named(..) | Bind::TuplePat(..))) {
        return None;
    }
    let chosen: Vec<Ty> = items.iter().filter(|i| matches!(i.bind, Bind::Choose)).map(|i| i.sym.ty()).collect();
    if !chosen.is_empty() {
        return Some(maybe_tuple(chosen));
    }
    Some(maybe_tuple(items.iter().map(|i| i.sym.ty()).collect()))
}

impl Sym {
    fn ty(&self) -> Ty {
        match self {
            Sym::Term(_, t) | Sym::Nt(_, t) => t.clone(),
            Sym::Star(s) | Sym::Plus(s) => Ty::Vec(Box::new(s.ty()), true),
            Sym::Quest(s) => Ty::Opt(Box::new(s.ty())),
            Sym::Group(items) => default_type(items).unwrap(),
            Sym::Comma(s) => Ty::Vec(Box::new(s.ty()), false),
            Sym::Pair(a, b) => Ty::Tuple(vec![a.ty(), b.ty()]),
            Sym::Maybe(s) => Ty::Opt(Box::new(s.ty())),
            Sym::Tagged(s) => Ty::Tuple(vec![Ty::Loc, s.ty()]),
            Sym::Lookahead | Sym::Lookbehind => Ty::Loc,
        }
    }
    fn text(&self) -> String {
        match self {
            Sym::Term(s, _) => s.clone(),
            Sym::Nt(i, _) => format!("N{i}"),
            Sym::Star(s) => format!("{}*", s.text()),
            Sym::Plus(s) => format!("{}+", s.text()),
            Sym::Quest(s) => format!("{}?", s.text()),
            Sym::Group(items) => format!("({})", items.iter().map(|i| i.text()).collect::<Vec<_>>().join(" ")),
            Sym::Comma(s) => format!("Comma<{}>", s.text()),
            Sym::Pair(a, b) => format!("Pair<{}, {}>", a.text(), b.text()),
            Sym::Maybe(s) => format!("Maybe<{}>", s.text()),
            Sym::Tagged(s) => format!("Tagged<{}>", s.text()),
            Sym::Lookahead => "@L".into(),
            Sym::Lookbehind => "@R".into(),
        }
    }
    fn macros(&self, out: &mut std::collections::BTreeSet<&'static str>) {
        match self {
            Sym::Star(s) | Sym::Plus(s) | Sym::Quest(s) => s.macros(out),
            Sym::Group(items) => items.iter().for_each(|i| i.sym.macros(out)),
            Sym::Comma(s) => {
                out.insert("Comma");
                s.macros(out)
            }
            Sym::Pair(a, b) => {
                out.insert("Pair");
                a.macros(out);
                b.macros(out)
            }
            Sym::Maybe(s) => {
                out.insert("Maybe");
                s.macros(out)
            }
            Sym::Tagged(s) => {
                out.insert("Tagged");
                s.macros(out)
            }
            _ => {}
        }
    }
}

impl Item {
    fn text(&self) -> String {
        match &self.bind {
            Bind::None => self.sym.text(),
            Bind::Choose => format!("<{}>", self.sym.text()),
            Bind::Named(n, m) => format!("<{}{}:{}>", if *m { "mut " } else { "" }, n, self.sym.text()),
            Bind::TuplePat(p, _) => format!("<{}:{}>", p, self.sym.text()),
        }
    }
}

// -------------------------------------------------------------------------------------- generator

#[derive(Clone, Debug)]
struct AltG {
    items: Vec<Item>,
    /// `None`: default action
    action: Option<(bool, String)>,
}

struct NtG {
    ty: Ty,
    annotated: bool,
    public: bool,
    alts: Vec<AltG>,
}

struct Gen<'r> {
    r: &'r mut Rng,
    h: &'r mut Hist,
    extern_tokens: bool,
    tok_lifetime: bool,
    generic: bool,
    scale_param: bool,
    kw: usize,
    cx: Cx,
    slots: Vec<Option<NtG>>,
    uses_comma: bool,
    /// a deliberately ill-typed default alternative was planted (user parts stay well typed)
    planted: Option<String>,
}

impl<'r> Gen<'r> {
    fn kw_ty(&self) -> Ty {
        if self.extern_tokens {
            Ty::Tok
        } else {
            Ty::InStr
        }
    }
    fn fresh_kw(&mut self) -> Sym {
        self.kw += 1;
        Sym::Term(format!("\"k{}\"", self.kw), self.kw_ty())
    }
    fn payload_terminal(&mut self) -> Sym {
        if self.extern_tokens {
            match self.r.below(if self.tok_lifetime { 4 } else { 3 }) {
                0 => Sym::Term("\"num\"".into(), Ty::I64),
                1 => Sym::Term("\"id\"".into(), Ty::Str),
                2 => Sym::Term("\"pair\"".into(), Ty::Tuple(vec![Ty::U8, Ty::Str])),
                _ => Sym::Term("\"text\"".into(), Ty::InStr),
            }
        } else {
            match self.r.below(3) {
                0 => Sym::Term("r\"[0-9]+\"".into(), Ty::InStr),
                1 => Sym::Term("r\"[A-Z][a-z]*\"".into(), Ty::InStr),
                _ => Sym::Term("\"lit\"".into(), Ty::InStr),
            }
        }
    }
    /// a symbol that starts with a token no other construct starts with (or a plain payload terminal)
    fn atom(&mut self, later: &[usize], depth: usize) -> Sym {
        let pick = self.r.below(10);
        if pick < 4 && !later.is_empty() {
            let j = *self.r.pick(later);
            return Sym::Nt(j, self.nts_ty(j));
        }
        if pick < 6 && depth > 0 {
            // a parenthesised group: keyword, then payload
            let k = self.fresh_kw();
            let mut items = vec![Item { sym: k, bind: Bind::None }];
            let n = 1 + self.r.below(2);
            let choose = self.r.chance(2, 3);
            for _ in 0..n {
                let s = self.atom(later, depth - 1);
                items.push(Item { sym: s, bind: if choose { Bind::Choose } else { Bind::None } });
            }
            self.h.hit("sym:group");
            return Sym::Group(items);
        }
        self.payload_terminal()
    }
    fn nts_ty(&self, j: usize) -> Ty {
        self.slots[j].as_ref().map(|n| n.ty.clone()).unwrap()
    }
    /// a payload symbol followed (when needed) by a closing keyword
    fn payload(&mut self, later: &[usize], depth: usize) -> Vec<(Sym, bool)> {
        let a = self.atom(later, depth);
        let r = self.r.below(16);
        let (s, close): (Sym, bool) = match r {
            0 => (Sym::Star(Box::new(a)), true),
            1 => (Sym::Plus(Box::new(a)), true),
            2 => (Sym::Quest(Box::new(a)), true),
            3 if delimited(&a) => {
                self.uses_comma = true;
                (Sym::Comma(Box::new(a)), true)
            }
            4 => {
                let b = self.atom(later, depth.saturating_sub(1));
                (Sym::Pair(Box::new(a), Box::new(b)), false)
            }
            5 => (Sym::Maybe(Box::new(a)), true),
            6 => (Sym::Tagged(Box::new(a)), false),
            7 => (if self.r.chance(1, 2) { Sym::Lookahead } else { Sym::Lookbehind }, false),
            _ => (a, false),
        };
        match &s {
            Sym::Star(_) => self.h.hit("sym:star"),
            Sym::Plus(_) => self.h.hit("sym:plus"),
            Sym::Quest(_) => self.h.hit("sym:question"),
            Sym::Comma(_) => self.h.hit("sym:macro-Comma(annotated)"),
            Sym::Pair(..) => self.h.hit("sym:macro-Pair(inferred)"),
            Sym::Maybe(_) => self.h.hit("sym:macro-Maybe(inferred)"),
            Sym::Tagged(_) => self.h.hit("sym:macro-Tagged(annotated)"),
            Sym::Lookahead | Sym::Lookbehind => self.h.hit("sym:lookaround"),
            Sym::Nt(..) => self.h.hit("sym:nonterminal"),
            Sym::Term(..) => self.h.hit("sym:terminal"),
            Sym::Group(_) => {}
        }
        let mut v = vec![(s, true)];
        if close {
            v.push((self.fresh_kw(), false));
        }
        v
    }

    /// a default-action alternative: keyword, payloads; returns it with its default type
    fn seed_alt(&mut self, later: &[usize]) -> AltG {
        let k = self.fresh_kw();
        let choose = self.r.chance(3, 4);
        let mut items = vec![Item { sym: k, bind: Bind::None }];
        let n = if choose { self.r.below(4) } else { self.r.below(3) };
        for _ in 0..n {
            for (s, is_payload) in self.payload(later, 2) {
                let bind = if choose && is_payload && self.r.chance(4, 5) { Bind::Choose } else { Bind::None };
                items.push(Item { sym: s, bind });
            }
        }
        AltG { items, action: None }
    }

    /// another default alternative of the same default type as `seed`: same selected symbols (or,
    /// when nothing is selected, the same shape), fresh keywords
    fn same_type_alt(&mut self, seed: &AltG, self_index: usize, ty: &Ty) -> AltG {
        // sometimes: a self/back reference with the nonterminal's own type (a consistent cycle)
        if self.r.chance(1, 4) {
            self.h.hit("alt:default-self-reference");
            let k = self.fresh_kw();
            let k2 = self.fresh_kw();
            return AltG {
                items: vec![
                    Item { sym: k, bind: Bind::None },
                    Item { sym: Sym::Nt(self_index, ty.clone()), bind: Bind::Choose },
                    Item { sym: k2, bind: Bind::None },
                ],
                action: None,
            };
        }
        let any_chosen = seed.items.iter().any(|i| matches!(i.bind, Bind::Choose));
        let mut items = vec![];
        for it in &seed.items {
            let is_kw = matches!(&it.sym, Sym::Term(s, _) if s.starts_with("\"k"));
            if is_kw {
                items.push(Item { sym: self.fresh_kw(), bind: it.bind.clone() });
            } else {
                items.push(Item { sym: refresh(&it.sym, self), bind: it.bind.clone() });
            }
        }
        if any_chosen && self.r.chance(1, 2) {
            // an extra unselected keyword changes nothing
            let k = self.fresh_kw();
            items.push(Item { sym: k, bind: Bind::None });
        }
        self.h.hit("alt:default-same-type");
        AltG { items, action: None }
    }

    fn user_alt(&mut self, later: &[usize], ty: &Ty, self_index: usize, allow_self: bool) -> AltG {
        let k = self.fresh_kw();
        let mut items = vec![Item { sym: k, bind: Bind::None }];
        let mut vars: Vec<(String, Ty)> = vec![];
        let n = self.r.below(4);
        // `<>` style: anonymous selections, action mentions `<>`
        let funky = self.r.chance(1, 5);
        let mut chosen: Vec<Ty> = vec![];
        for idx in 0..n {
            let payloads = if allow_self && self.r.chance(1, 6) {
                self.h.hit("alt:user-self-reference");
                let k2 = self.fresh_kw();
                vec![(Sym::Nt(self_index, ty.clone()), true), (k2, false)]
            } else {
                self.payload(later, 2)
            };
            for (s, is_payload) in payloads {
                let sty = s.ty();
                let bind = if !is_payload || self.r.chance(1, 5) {
                    Bind::None
                } else if funky {
                    chosen.push(sty.clone());
                    Bind::Choose
                } else if let (Ty::Tuple(ts), true, false) = (&sty, self.r.chance(1, 2), matches!(s, Sym::Term(..))) {
                    if ts.is_empty() {
                        Bind::None
                    } else {
                        self.h.hit("bind:tuple-pattern");
                        let names: Vec<(String, Ty)> =
                            ts.iter().enumerate().map(|(j, t)| (format!("t{idx}_{j}_{}", vars.len()), t.clone())).collect();
                        let pat = format!("({})", names.iter().map(|(n, _)| n.clone()).collect::<Vec<_>>().join(", "));
                        vars.extend(names.clone());
                        Bind::TuplePat(pat, names)
                    }
                } else {
                    let name = format!("v{}", vars.len());
                    let m = self.r.chance(1, 6);
                    vars.push((name.clone(), sty.clone()));
                    self.h.hit(if m { "bind:named-mut" } else { "bind:named" });
                    Bind::Named(name, m)
                };
                items.push(Item { sym: s, bind });
            }
        }
        let fallible = self.r.chance(1, 4);
        let code = if funky && !chosen.is_empty() {
            self.h.hit("bind:funky-<>");
            // `(<>)` is the tuple (or the value) of the selected symbols
            let tuple_ty = maybe_tuple(chosen.clone());
            let v = format!("(<>)");
            let vars2 = vec![("__sel".to_string(), tuple_ty)];
            format!("{{ let __sel = {v}; {} }}", self.expr(ty, &vars2, 3))
        } else {
            self.expr(ty, &vars, 3)
        };
        let code = if fallible {
            self.h.hit("action:fallible");
            let err = if self.extern_tokens { "String::from(\"bad\")" } else { "\"bad\"" };
            if self.r.chance(1, 2) {
                format!("Ok({code})")
            } else {
                format!("if 1 + 1 == 3 {{ Err(ParseError::User {{ error: {err} }}) }} else {{ Ok({code}) }}")
            }
        } else {
            self.h.hit("action:user");
            code
        };
        AltG { items, action: Some((fallible, code)) }
    }

    /// a Rust expression of type `ty` over the variables `vars` (every use clones)
    fn expr(&mut self, ty: &Ty, vars: &[(String, Ty)], depth: usize) -> String {
        let same: Vec<&(String, Ty)> = vars.iter().filter(|(_, t)| t == ty).collect();
        if !same.is_empty() && self.r.chance(4, 5) {
            return format!("{}.clone()", self.r.pick(&same).0);
        }
        match ty {
            Ty::I64 => {
                if let Some((n, _)) = vars.iter().find(|(_, t)| *t == Ty::U8) {
                    format!("({n} as i64)")
                } else if let Some((n, _)) = vars.iter().find(|(_, t)| matches!(t, Ty::Vec(..))) {
                    format!("({n}.len() as i64)")
                } else if self.scale_param && self.r.chance(1, 2) {
                    "(scale + 1)".into()
                } else {
                    format!("{}i64", self.r.below(100))
                }
            }
            Ty::U8 => format!("{}u8", self.r.below(200)),
            Ty::Bool => {
                if let Some((n, _)) = vars.iter().find(|(_, t)| matches!(t, Ty::Opt(_))) {
                    format!("{n}.is_some()")
                } else {
                    "true".into()
                }
            }
            Ty::Str => {
                if !vars.is_empty() && self.r.chance(2, 3) {
                    let (n, _) = self.r.pick(vars).clone();
                    format!("format!(\"{{:?}}\", {n})")
                } else {
                    "String::from(\"s\")".into()
                }
            }
            Ty::InStr => "\"\"".into(),
            Ty::Tok => {
                if self.tok_lifetime {
                    "Tok::Text(\"\")".into()
                } else {
                    "Tok::Num(0)".into()
                }
            }
            Ty::Loc => "0usize".into(),
            Ty::Param => "ctx.clone()".into(),
            Ty::RefParam => "ctx".into(),
            Ty::Tuple(ts) => {
                let parts: Vec<String> = ts.iter().map(|t| self.expr(t, vars, depth.saturating_sub(1))).collect();
                if parts.len() == 1 {
                    format!("({},)", parts[0])
                } else {
                    format!("({})", parts.join(", "))
                }
            }
            Ty::Vec(t, _) => {
                if depth == 0 || self.r.chance(1, 3) {
                    "Vec::new()".into()
                } else {
                    format!("vec![{}]", self.expr(t, vars, depth - 1))
                }
            }
            Ty::Opt(t) => {
                if depth == 0 || self.r.chance(1, 3) {
                    "None".into()
                } else {
                    format!("Some({})", self.expr(t, vars, depth - 1))
                }
            }
        }
    }

    fn random_type(&mut self, depth: usize) -> Ty {
        let n = if depth == 0 { 5 } else { 9 };
        match self.r.below(n) {
            0 => Ty::I64,
            1 => Ty::Str,
            2 => Ty::Bool,
            3 => Ty::U8,
            4 => {
                if self.generic {
                    if self.r.chance(1, 2) {
                        Ty::Param
                    } else {
                        Ty::RefParam
                    }
                } else {
                    Ty::I64
                }
            }
            5 => Ty::Vec(Box::new(self.random_type(depth - 1)), false),
            6 => Ty::Opt(Box::new(self.random_type(depth - 1))),
            7 => Ty::Tuple(vec![]),
            _ => {
                let k = 2 + self.r.below(2);
                Ty::Tuple((0..k).map(|_| self.random_type(depth - 1)).collect())
            }
        }
    }
}

fn delimited(s: &Sym) -> bool {
    // starts with a keyword of its own (groups and nonterminals do), so a separator list is unambiguous
    matches!(s, Sym::Group(_) | Sym::Nt(..))
}

/// the same symbol with every keyword inside replaced by a fresh one (types unchanged)
fn refresh(s: &Sym, g: &mut Gen) -> Sym {
    match s {
        Sym::Term(t, ty) if t.starts_with("\"k") => {
            let _ = ty;
            g.fresh_kw()
        }
        Sym::Term(..) | Sym::Nt(..) | Sym::Lookahead | Sym::Lookbehind => s.clone(),
        Sym::Star(x) => Sym::Star(Box::new(refresh(x, g))),
        Sym::Plus(x) => Sym::Plus(Box::new(refresh(x, g))),
        Sym::Quest(x) => Sym::Quest(Box::new(refresh(x, g))),
        Sym::Comma(x) => Sym::Comma(Box::new(refresh(x, g))),
        Sym::Maybe(x) => Sym::Maybe(Box::new(refresh(x, g))),
        Sym::Tagged(x) => Sym::Tagged(Box::new(refresh(x, g))),
        Sym::Pair(a, b) => Sym::Pair(Box::new(refresh(a, g)), Box::new(refresh(b, g))),
        Sym::Group(items) => Sym::Group(items.iter().map(|i| Item { sym: refresh(&i.sym, g), bind: i.bind.clone() }).collect()),
    }
}

struct Generated {
    text: String,
    support: String,
    planted: Option<String>,
    extern_tokens: bool,
    tok_ty: String,
    generic: bool,
}

fn generate(r: &mut Rng, h: &mut Hist, gi: usize) -> Generated {
    let extern_tokens = r.chance(2, 5);
    let tok_lifetime = extern_tokens && r.chance(1, 2);
    let generic = r.chance(1, 3);
    let scale_param = !generic && r.chance(1, 3);
    let n = 2 + r.below(4);
    let tok_ty = if tok_lifetime { "Tok<'input>".to_string() } else { "Tok".to_string() };
    h.hit(if extern_tokens { if tok_lifetime { "lexer:extern-enum<'input>" } else { "lexer:extern-enum" } } else { "lexer:built-in" });
    h.hit(if generic { "params:generic<'a,T>+where" } else if scale_param { "params:value" } else { "params:none" });
    let mut g = Gen {
        r,
        h,
        extern_tokens,
        tok_lifetime,
        generic,
        scale_param,
        kw: 0,
        cx: Cx { tok_ty: tok_ty.clone() },
        slots: (0..n).map(|_| None).collect(),
        uses_comma: false,
        planted: None,
    };
    let plant = g.r.chance(1, 8);
    // nonterminals are created from the last (leaves) to the first
    for created in 0..n {
        let i = n - 1 - created;
        let later: Vec<usize> = (i + 1..n).collect();
        let style = g.r.below(10);
        let nt = if style < 5 {
            // inferred: a seed alternative fixes the type
            let seed = g.seed_alt(&later);
            let ty = default_type(&seed.items).unwrap();
            let mut alts = vec![seed.clone()];
            for _ in 0..g.r.below(3) {
                if g.r.chance(1, 2) {
                    let a = g.same_type_alt(&seed, i, &ty);
                    alts.push(a);
                } else {
                    let a = g.user_alt(&later, &ty, i, true);
                    alts.push(a);
                }
            }
            if plant && g.planted.is_none() && g.r.chance(1, 2) {
                // the ill-typed case of the witness: a default alternative that refers back to the
                // nonterminal itself without selecting it, so its value is a tuple
                let k = g.fresh_kw();
                let k2 = g.fresh_kw();
                alts.push(AltG {
                    items: vec![
                        Item { sym: k, bind: Bind::None },
                        Item { sym: Sym::Nt(i, ty.clone()), bind: Bind::None },
                        Item { sym: k2, bind: Bind::None },
                    ],
                    action: None,
                });
                g.planted = Some(format!("N{i}"));
                g.h.hit("planted:ill-typed-default-alternative-on-a-cycle");
            }
            if g.r.chance(1, 3) {
                let k = g.r.below(alts.len());
                alts.swap(0, k);
            }
            g.h.hit("nt:inferred");
            NtG { ty, annotated: false, public: false, alts }
        } else if style < 8 {
            // annotated with the type its seed alternative has; further alternatives of any kind
            let seed = g.seed_alt(&later);
            let ty = default_type(&seed.items).unwrap();
            let mut alts = vec![seed.clone()];
            for _ in 0..g.r.below(3) {
                if g.r.chance(1, 3) {
                    let a = g.same_type_alt(&seed, i, &ty);
                    alts.push(a);
                } else {
                    let a = g.user_alt(&later, &ty, i, true);
                    alts.push(a);
                }
            }
            g.h.hit("nt:annotated+default-alternatives");
            NtG { ty, annotated: true, public: false, alts }
        } else {
            let ty = g.random_type(2);
            let k = 1 + g.r.below(3);
            let alts = (0..k).map(|_| g.user_alt(&later, &ty, i, true)).collect();
            g.h.hit("nt:annotated+user-actions-only");
            NtG { ty, annotated: true, public: false, alts }
        };
        g.slots[i] = Some(nt);
    }
    let mut nts: Vec<NtG> = std::mem::take(&mut g.slots).into_iter().map(|x| x.unwrap()).collect();
    nts[0].public = true;
    for k in 1..n {
        if g.r.chance(1, 4) {
            nts[k].public = true;
        }
    }
    // ------------------------------------------------------------------------------ render
    let mut macros = std::collections::BTreeSet::new();
    for nt in &nts {
        for a in &nt.alts {
            a.items.iter().for_each(|i| i.sym.macros(&mut macros));
        }
    }
    let mut s = String::new();
    let sup = format!("sup{gi}");
    if extern_tokens {
        s.push_str(&format!("use crate::{sup}::Tok;\n"));
    }
    s.push_str("use lalrpop_util::ParseError;\n@ATTR@\n");
    let mut tparams = vec![];
    let mut params = vec![];
    let mut wheres = vec![];
    if extern_tokens && tok_lifetime {
        tparams.push("'input");
        params.push("text: &'input str");
    }
    if generic {
        tparams.push("'a");
        tparams.push("T");
        params.push("ctx: &'a T");
        wheres.push("T: Clone + core::fmt::Debug + 'a");
    }
    if scale_param {
        params.push("scale: i64");
    }
    s.push_str("grammar");
    if !tparams.is_empty() {
        s.push_str(&format!("<{}>", tparams.join(", ")));
    }
    if !params.is_empty() {
        s.push_str(&format!("({})", params.join(", ")));
    }
    if !wheres.is_empty() {
        s.push_str(&format!(" where {}", wheres.join(", ")));
    }
    s.push_str(";\n");
    let mut support = String::new();
    if extern_tokens {
        s.push_str("extern {\n    type Location = usize;\n    type Error = String;\n");
        s.push_str(&format!("    enum {tok_ty} {{\n"));
        for k in 1..=g.kw {
            s.push_str(&format!("        \"k{k}\" => Tok::K{k},\n"));
        }
        s.push_str("        \"num\" => Tok::Num(<i64>),\n        \"id\" => Tok::Id(<String>),\n        \"pair\" => Tok::Pair(<u8>, <String>),\n");
        if tok_lifetime {
            s.push_str("        \"text\" => Tok::Text(<&'input str>),\n");
        }
        s.push_str("        \",\" => Tok::Comma,\n        \"~\" => Tok::Tilde,\n        \"<<\" => Tok::Open,\n        \">>\" => Tok::Close,\n    }\n}\n");
        support.push_str(&format!("pub mod {sup} {{\n    #[derive(Clone, Debug, PartialEq)]\n    pub enum Tok{} {{\n", if tok_lifetime { "<'input>" } else { "" }));
        for k in 1..=g.kw {
            support.push_str(&format!("        K{k},\n"));
        }
        support.push_str("        Num(i64), Id(String), Pair(u8, String), Comma, Tilde, Open, Close,\n");
        if tok_lifetime {
            support.push_str("        Text(&'input str),\n");
        }
        support.push_str("    }\n}\n");
    }
    let cx = Cx { tok_ty: tok_ty.clone() };
    for (i, nt) in nts.iter().enumerate() {
        let vis = if nt.public { "pub " } else { "" };
        let ann = if nt.annotated { format!(": {}", nt.ty.rust(&cx)) } else { String::new() };
        s.push_str(&format!("{vis}N{i}{ann} = {{\n"));
        for a in &nt.alts {
            let body = a.items.iter().map(|i| i.text()).collect::<Vec<_>>().join(" ");
            match &a.action {
                None => s.push_str(&format!("    {body},\n")),
                Some((false, code)) => s.push_str(&format!("    {body} => {code},\n")),
                Some((true, code)) => s.push_str(&format!("    {body} =>? {code},\n")),
            }
        }
        s.push_str("};\n");
    }
    if macros.contains("Comma") {
        s.push_str("Comma<E>: Vec<E> = { \"<<\" <mut v:(<E> \",\")*> <e:E?> \">>\" => { v.extend(e); v } };\n");
    }
    if macros.contains("Pair") {
        s.push_str("Pair<A, B> = \"<<\" <A> \"~\" <B> \">>\";\n");
    }
    if macros.contains("Maybe") {
        s.push_str("Maybe<X> = X?;\n");
    }
    if macros.contains("Tagged") {
        s.push_str("Tagged<X>: (usize, X) = <l:@L> <x:X> => (l, x);\n");
    }
    let any_param = nts.iter().any(|n| n.ty.uses_param());
    if any_param {
        g.h.hit("types:mention-T-or-&'a T");
    }
    Generated { text: s, support, planted: g.planted.clone(), extern_tokens, tok_ty, generic }
}

// ------------------------------------------------------------------------------------------ main

fn unhex_atoms(sexp: &str) -> Vec<(String, String)> {
    // `(nt x<name> pub|priv x<type> …` of the lowered grammar
    let mut out = vec![];
    let mut rest = sexp;
    while let Some(p) = rest.find("(nt x") {
        let tail = &rest[p + 4..];
        let mut it = tail.split(' ');
        let name = it.next().unwrap_or("");
        let _vis = it.next();
        let ty = it.next().unwrap_or("");
        if let (Some(n), Some(t)) = (dec_str(name), dec_str(ty)) {
            out.push((n, t));
        }
        rest = &rest[p + 4..];
    }
    out
}

fn main() {
    let o = parse_opts();
    std::panic::set_hook(Box::new(|_| {}));
    let recheck = o.extra.iter().any(|e| e == "recheck=1");
    let mut r = Rng::new(o.seed);
    let mut h = Hist::default();
    let gen_dir = o.out.join("gen");
    let mut st = Streams::create(&o.out, "typed");
    let mut files: Vec<(String, String)> = vec![];
    let mut main_rs = String::from("#![allow(unused, non_snake_case, clippy::all)]\nextern crate alloc;\n");
    let mut uses = String::new();
    let mut meta: Vec<String> = vec![];
    let mut accepted = 0usize;
    let mut generated_n = 0usize;
    let mut modules_n = 0usize;
    // replay: a JSON-free format — FILE holds the grammar text, FILE.support the support module
    let replay: Option<(String, String)> = o.replay.as_ref().map(|p| {
        let text = std::fs::read_to_string(p).unwrap();
        let support = std::fs::read_to_string(format!("{}.support", p.display())).unwrap_or_default();
        (text, support)
    });
    // fixed witnesses (every run): the swallowed-alternative defect in its self-cycle and mutual-cycle
    // forms (ill-typed default alternative on a cycle, no user code), and a consistent cycle
    // … and two well-typed grammars whose `<>` stands for a tuple pattern (planted = the fingerprint of
    // the defect they witness: `<>` expanded to the *pattern* text, `mut` included / not flattened in `{ }`)
    let witnesses: Vec<(&str, Option<&str>, &str)> = vec![
        ("@ATTR@\ngrammar;\npub A = { \"a\" A, \"x\" };\n", Some("A"), ""),
        ("@ATTR@\ngrammar;\npub A = { \"a\" <B>, \"x\" \"y\" };\nB = { \"b\" A \"c\", \"d\" \"e\" };\n", Some("B"), ""),
        ("@ATTR@\ngrammar;\npub A = { \"(\" <A> \")\", <\"n\"> };\n", None, ""),
        ("@ATTR@\ngrammar;\npub A: String = <(mut a, b):B> \"c\" => format!(\"{}\", (<>).0);\nB: (String, String) = \"x\" \"y\" => (<>.to_string(), <>.to_string());\n", Some("c19:angle-tuple-pattern-names"), ""),
        ("use crate::AngleP;\n@ATTR@\ngrammar;\npub A: String = <(a, b):B> <c:\"c\"> => AngleP {<>}.show();\nB: (String, String) = \"x\" \"y\" => (<>.to_string(), <>.to_string());\n", Some("c19:angle-tuple-pattern-names"),
         "pub struct AngleP<'i> { pub a: String, pub b: String, pub c: &'i str }\nimpl<'i> AngleP<'i> { pub fn show(&self) -> String { format!(\"{}{}{}\", self.a, self.b, self.c) } }\n"),
    ];
    let total = if replay.is_some() { 1 } else { o.n + witnesses.len() };
    for gi in 0..total {
        let g = match &replay {
            None if gi < witnesses.len() => {
                h.hit("witness");
                Generated {
                    text: witnesses[gi].0.to_string(),
                    support: witnesses[gi].2.to_string(),
                    planted: witnesses[gi].1.map(|s| s.to_string()),
                    extern_tokens: false,
                    tok_ty: "Tok".into(),
                    generic: false,
                }
            }
            Some((t, s)) => Generated {
                text: t.clone(),
                support: s.clone(),
                planted: None,
                extern_tokens: t.contains("extern {"),
                tok_ty: if t.contains("enum Tok<'input>") { "Tok<'input>".into() } else { "Tok".into() },
                generic: false,
            },
            None => {
                let mut rr = r.fork();
                generate(&mut rr, &mut h, gi)
            }
        };
        generated_n += 1;
        let text_td = g.text.replace("@ATTR@", "");
        let tc = lalrpop::verif_hooks::stage_dump(&text_td, None, "token_check");
        let Some(tc_sexp) = tc.strip_prefix("ok ") else {
            h.hit(&format!("rejected-before-tyinfer:{}", tc.split(' ').nth(1).unwrap_or("?")));
            meta.push(format!("{{\"index\":{gi},\"status\":\"rejected-before-tyinfer\",\"detail\":{},\"grammar\":{}}}", json_str(&tc.chars().take(200).collect::<String>()), json_str(&text_td)));
            continue;
        };
        let low = lalrpop::verif_hooks::stage_dump(&text_td, None, "lower");
        let imp = if let Some(sx) = low.strip_prefix("ok ") {
            let mut v: Vec<(String, String)> = unhex_atoms(sx).into_iter().filter(|(n, _)| !n.starts_with("__")).collect();
            v.sort();
            format!("ok {}", v.iter().map(|(n, t)| format!("{}={}", enc_str(n), enc_str(t))).collect::<Vec<_>>().join(","))
        } else if low.starts_with("error tyinfer") {
            "error".to_string()
        } else {
            format!("skip {}", low.chars().take(60).collect::<String>())
        };
        // the terminal types (what `make_types` computes from the conversions this generator wrote)
        let (loc, err, deftok, terms, errty) = if g.extern_tokens {
            let mut t = vec![("q:num", "i64"), ("q:id", "String"), ("q:pair", "(u8, String)")];
            if g.tok_ty.contains("'input") {
                t.push(("q:text", "&'input str"));
            }
            let terms = t.iter().map(|(k, v)| format!("{}={}", enc_str(k), enc_str(v))).collect::<Vec<_>>().join(",");
            (enc_str("usize"), "String".to_string(), g.tok_ty.clone(), terms, format!("__lalrpop_util::ErrorRecovery<usize, {}, String>", g.tok_ty))
        } else {
            // built-in lexer: every terminal of the grammar is a match entry of type `&'input str`
            let mut keys = std::collections::BTreeSet::new();
            let mut rest = tc_sexp;
            while let Some(p) = rest.find("(terminal (") {
                let tail = &rest[p + 11..];
                let kind = tail.split(' ').next().unwrap_or("");
                let atom = tail.split(' ').nth(1).unwrap_or("").trim_end_matches(')');
                if let Some(s) = dec_str(atom) {
                    keys.insert(format!("{}:{}", &kind[..1], s));
                }
                rest = &rest[p + 11..];
            }
            let terms = keys.iter().map(|k| format!("{}={}", enc_str(k), enc_str("&'input str"))).collect::<Vec<_>>().join(",");
            (enc_str("usize"), "&'static str".to_string(), "Token<'input>".to_string(), if terms.is_empty() { "-".into() } else { terms }, "__lalrpop_util::ErrorRecovery<usize, Token<'input>, &'static str>".to_string())
        };
        let _ = err;
        let req = |rc: bool| format!("infer {} {} {} {} {} {}", if rc { 1 } else { 0 }, loc, enc_str(&errty), enc_str(&deftok), terms, tc_sexp);
        st.case(&req(recheck), &imp);
        st.case(&req(!recheck), "-");
        // full lalrpop, both code generators
        let mut status = "accepted";
        let mut detail = String::new();
        let mut mods = vec![];
        for (backend, attr) in [("td", ""), ("ra", "#[recursive_ascent]")] {
            let m = format!("g{gi}_{backend}");
            match generate_parser(&gen_dir, &m, &g.text.replace("@ATTR@", attr), |_| {}) {
                Ok(src) => mods.push((m, src)),
                Err(e) => {
                    status = "rejected";
                    detail = format!("{backend}: {}", e.chars().take(300).collect::<String>());
                    break;
                }
            }
        }
        if status == "accepted" {
            accepted += 1;
            h.hit(match g.planted.as_deref() {
                Some(p) if p.starts_with("c19:") => "accepted:well-typed(witness of a known defect)",
                Some(_) => "accepted:with-planted-ill-typed-alternative",
                None => "accepted:well-typed",
            });
            uses.push_str(&g.support);
            for (m, src) in &mods {
                main_rs.push_str(&format!("mod {m};\n"));
                files.push((format!("src/{m}.rs"), src.clone()));
                modules_n += 1;
            }
        } else {
            let class = if imp == "error" { "tyinfer" } else if detail.contains("panic") { "panic" } else { "later-pass(LR conflicts etc.)" };
            h.hit(&format!("rejected:{class}{}", if g.planted.is_some() { "(planted)" } else { "" }));
        }
        meta.push(format!(
            "{{\"index\":{gi},\"status\":{},\"detail\":{},\"planted\":{},\"impl\":{},\"grammar\":{},\"support\":{},\"generic\":{}}}",
            json_str(status),
            json_str(&detail),
            json_str(g.planted.as_deref().unwrap_or("")),
            json_str(&imp.chars().take(12).collect::<String>()),
            json_str(&g.text),
            json_str(&g.support),
            g.generic
        ));
    }
    st.finish();
    main_rs.push_str(&uses);
    main_rs.push_str("fn main() { println!(\"ok\"); }\n");
    files.push(("src/main.rs".into(), main_rs));
    let t0 = std::time::Instant::now();
    let built = if modules_n > 0 { build_scratch_crate(&o.out.join("crate"), "typed_runner", &files) } else { Ok(std::path::PathBuf::new()) };
    let compile_s = t0.elapsed().as_secs_f64();
    let rustc_error = match built {
        Ok(_) => String::new(),
        Err(e) => e,
    };
    std::fs::write(o.out.join("typed.meta.json"), format!("[{}]", meta.join(",\n"))).unwrap();
    std::fs::write(o.out.join("typed.rustc.txt"), &rustc_error).unwrap();
    let _ = std::fs::remove_dir_all(&gen_dir);
    println!(
        "{{\"generated\":{},\"accepted\":{},\"modules\":{},\"compile_s\":{:.1},\"rustc_failed\":{},\"hist\":{}}}",
        generated_n,
        accepted,
        modules_n,
        compile_s,
        !rustc_error.is_empty(),
        h.json()
    );
}
