//! Shared by the build-layer harness binaries (buildhist, crash, paths, determ):
//! stdout silencing, file observation, grammar pool, forced-build oracle, real build operations.
#![allow(dead_code)]
use std::collections::HashMap;
use std::fs;
use std::io::Write;
use std::os::fd::FromRawFd;
use std::path::{Path, PathBuf};
use std::time::{Duration, SystemTime};
use verif_harness::*;

unsafe extern "C" {
    fn dup(fd: i32) -> i32;
    fn dup2(a: i32, b: i32) -> i32;
    fn open(path: *const u8, flags: i32, ...) -> i32;
}

/// lalrpop prints diagnostics with `println!`/`eprintln!`; send fd 1 and 2 to /dev/null and return a
/// writer on the original stdout for the stats line.
pub fn silence_stdio() -> fs::File {
    unsafe {
        let keep = dup(1);
        let null = open(b"/dev/null\0".as_ptr(), 1 /* O_WRONLY */);
        if std::env::var("VERIF_HARNESS_NOISY").is_err() {
            dup2(null, 1);
            dup2(null, 2);
        }
        fs::File::from_raw_fd(keep)
    }
}

pub fn fnv(bs: &[u8]) -> u64 {
    let mut h: u64 = 14695981039346656037;
    for b in bs {
        h = (h ^ (*b as u64)).wrapping_mul(1099511628211);
    }
    h
}

pub fn show_bytes(b: Option<&[u8]>) -> String {
    match b {
        None => "-".into(),
        Some(b) => format!("{}:{:016x}", b.len(), fnv(b)),
    }
}

pub fn show_file(p: &Path) -> String {
    match fs::read(p) {
        Ok(b) => show_bytes(Some(&b)),
        Err(_) => "-".into(),
    }
}

/// `read_line` semantics on bytes: up to and including the first `\n`
pub fn split_line(b: &[u8]) -> (&[u8], &[u8]) {
    match b.iter().position(|c| *c == b'\n') {
        Some(k) => (&b[..=k], &b[k + 1..]),
        None => (b, &b[b.len()..]),
    }
}

pub fn marker_time() -> SystemTime {
    SystemTime::UNIX_EPOCH + Duration::from_secs(1_000_000_000)
}

pub fn set_mtime(p: &Path, t: SystemTime) {
    if let Ok(f) = fs::OpenOptions::new().write(true).open(p) {
        let _ = f.set_modified(t);
    }
}

pub fn mtime_is_marker(p: &Path) -> bool {
    fs::metadata(p)
        .and_then(|m| m.modified())
        .map(|t| t == marker_time())
        .unwrap_or(false)
}

pub fn version_header() -> String {
    lalrpop::verif_hooks::misc::build::version_header().to_string()
}

pub fn hash_line(p: &Path) -> String {
    lalrpop::verif_hooks::misc::build::hash_line(p).unwrap_or_default()
}

/// result of a call into lalrpop: Ok, Err(message) or a panic (reported as Err("panic: …"))
pub fn guarded(f: impl FnOnce() -> Result<(), Box<dyn std::error::Error>>) -> Result<(), String> {
    match std::panic::catch_unwind(std::panic::AssertUnwindSafe(f)) {
        Ok(Ok(())) => Ok(()),
        Ok(Err(e)) => Err(e.to_string()),
        Err(p) => {
            let msg = p
                .downcast_ref::<String>()
                .cloned()
                .or_else(|| p.downcast_ref::<&str>().map(|s| s.to_string()))
                .unwrap_or_default();
            Err(format!("panic: {msg}"))
        }
    }
}

pub fn config(force: bool, report: bool) -> lalrpop::Configuration {
    let mut cfg = lalrpop::Configuration::new();
    cfg.log_quiet().force_build(force).emit_report(report);
    cfg
}

/// the real `process_file` on `<dir>/g<i>.lalrpop`
pub fn real_build(dir: &Path, i: usize, force: bool, report: bool) -> Result<(), String> {
    let src = dir.join(format!("g{i}.lalrpop"));
    guarded(|| config(force, report).process_file(&src))
}

/// the real `process()` with in_dir = out_dir = dir (outputs beside the inputs)
pub fn real_build_dir(dir: &Path, force: bool, report: bool) -> Result<(), String> {
    guarded(|| {
        let mut cfg = config(force, report);
        cfg.set_in_dir(dir).set_out_dir(dir);
        cfg.process()
    })
}

pub fn gpath(dir: &Path, i: usize) -> PathBuf {
    dir.join(format!("g{i}.lalrpop"))
}
pub fn rspath(dir: &Path, i: usize) -> PathBuf {
    dir.join(format!("g{i}.rs"))
}
pub fn reppath(dir: &Path, i: usize) -> PathBuf {
    dir.join(format!("g{i}.report"))
}
pub fn tmppath(dir: &Path, i: usize) -> PathBuf {
    dir.join(format!("g{i}.rs.tmp"))
}

/// state line in the format of `lpm_build`
pub fn show_state(dir: &Path, n: usize, fresh: &[bool]) -> String {
    (0..n)
        .map(|i| {
            format!(
                "{};{};{};{}",
                show_file(&rspath(dir, i)),
                show_file(&reppath(dir, i)),
                show_file(&tmppath(dir, i)),
                if fresh.get(i).copied().unwrap_or(false) { 1 } else { 0 }
            )
        })
        .collect::<Vec<_>>()
        .join(" | ")
}

/// mark every existing `.rs` so that a rewrite is observable
pub fn mark(dir: &Path, n: usize) {
    for i in 0..n {
        set_mtime(&rspath(dir, i), marker_time());
    }
}
pub fn fresh_flags(dir: &Path, n: usize) -> Vec<bool> {
    (0..n)
        .map(|i| rspath(dir, i).exists() && !mtime_is_marker(&rspath(dir, i)))
        .collect()
}

// ---------------------------------------------------------------------------------------------
// forced-build oracle

#[derive(Clone)]
pub struct GenRes {
    pub hash: String,
    /// whole file written by a forced build
    pub full: Option<Vec<u8>>,
    /// part after the two header lines
    pub body: Option<Vec<u8>>,
    pub reports: Vec<Vec<u8>>,
    pub anomaly: Option<String>,
}

pub struct Oracle {
    pub dir: PathBuf,
    pub cache: HashMap<Vec<u8>, GenRes>,
    pub builds: usize,
}

impl Oracle {
    pub fn new(dir: PathBuf) -> Self {
        fs::create_dir_all(&dir).unwrap();
        Oracle { dir, cache: HashMap::new(), builds: 0 }
    }

    /// forced build of `text` (as `g0.lalrpop`, the output does not depend on the file name: C20
    /// checks that) in a directory of its own
    pub fn get(&mut self, text: &[u8]) -> GenRes {
        if let Some(r) = self.cache.get(text) {
            return r.clone();
        }
        let i = 0;
        self.builds += 1;
        let src = gpath(&self.dir, i);
        let rs = rspath(&self.dir, i);
        let rep = reppath(&self.dir, i);
        let _ = fs::remove_file(&rs);
        let _ = fs::remove_file(&rep);
        fs::write(&src, text).unwrap();
        let hash = hash_line(&src);
        let res = real_build(&self.dir, i, true, true);
        let full = fs::read(&rs).ok();
        let reports = fs::read(&rep).ok().into_iter().collect::<Vec<_>>();
        let mut anomaly = None;
        let mut body = None;
        match (&res, &full) {
            (Ok(()), Some(f)) => {
                let (l1, r1) = split_line(f);
                let (l2, r2) = split_line(r1);
                if l1 != format!("{}\n", version_header()).as_bytes() || l2 != format!("{hash}\n").as_bytes() {
                    anomaly = Some("forced output does not start with version line + hash line".to_string());
                }
                body = Some(r2.to_vec());
            }
            (Ok(()), None) => anomaly = Some("forced build Ok but no output".into()),
            (Err(_), Some(_)) => anomaly = Some("forced build Err but output exists".into()),
            (Err(_), None) => {}
        }
        let full = if res.is_ok() { full } else { None };
        let r = GenRes { hash, full, body, reports, anomaly };
        self.cache.insert(text.to_vec(), r.clone());
        r
    }

    /// `def` request line for the model
    pub fn def_line(&mut self, text: &[u8]) -> String {
        let r = self.get(text);
        let reps = if r.reports.is_empty() {
            "-".to_string()
        } else {
            r.reports.iter().map(|x| enc_bytes(x)).collect::<Vec<_>>().join(",")
        };
        match &r.body {
            Some(b) => format!("def {} {} ok {} {}", enc_bytes(text), enc_str(&r.hash), enc_bytes(b), reps),
            None => format!("def {} {} err - {}", enc_bytes(text), enc_str(&r.hash), reps),
        }
    }
}

// ---------------------------------------------------------------------------------------------
// grammar pool

pub struct Pool {
    pub valid: Vec<Vec<u8>>,
    pub invalid: Vec<(String, Vec<u8>)>,
}

fn ident(rng: &mut Rng) -> String {
    let n = 1 + rng.below(4);
    (0..n).map(|_| (b'a' + rng.below(26) as u8) as char).collect()
}

/// a small valid grammar with random terminals / alternatives / comments (single `pub` symbol
/// unless `multi`)
pub fn valid_grammar(rng: &mut Rng, multi: bool) -> String {
    let mut s = String::new();
    if rng.chance(1, 4) {
        s.push_str(&format!("// {}\n", ident(rng)));
    }
    s.push_str("grammar;\n");
    let nalts = 1 + rng.below(3);
    let mut alts = vec![];
    for k in 0..nalts {
        let t = ident(rng);
        if k == 0 {
            alts.push(format!("\"{t}{k}\" => ()"));
        } else if rng.chance(1, 2) {
            alts.push(format!("\"{t}{k}\" T => ()"));
        } else {
            alts.push(format!("\"(\" T \"{t}{k}\" => ()"));
        }
    }
    s.push_str(&format!("pub T: () = {{ {} }};\n", alts.join(", ")));
    if multi {
        s.push_str(&format!("pub U: () = {{ \"{}u\" T => () }};\n", ident(rng)));
    }
    if rng.chance(1, 3) {
        s.push_str(&format!("// trailing {}\n", ident(rng)));
    }
    s
}

pub fn make_pool(rng: &mut Rng, nvalid: usize) -> Pool {
    let mut valid = vec![];
    for k in 0..nvalid {
        valid.push(valid_grammar(rng, k % 5 == 4).into_bytes());
    }
    // comment-only / whitespace-only variants of the first texts (different hash, same body)
    let v0 = String::from_utf8(valid[0].clone()).unwrap();
    valid.push(format!("{v0}// c{}\n", ident(rng)).into_bytes());
    valid.push(format!("{v0}\n").into_bytes());
    let t = ident(rng);
    let invalid = vec![
        ("parse".to_string(), format!("grammar;\npub T: () = \"{t}\" => ();;(\n").into_bytes()),
        ("undefined-nt".to_string(), format!("grammar;\npub T: () = \"{t}\" X => ();\n").into_bytes()),
        (
            "lr-conflict".to_string(),
            format!("grammar;\npub E: () = {{ E \"{t}\" E => (), \"n\" => () }};\n").into_bytes(),
        ),
        ("no-pub".to_string(), format!("grammar;\nT: () = \"{t}\" => ();\n").into_bytes()),
        ("empty".to_string(), Vec::new()),
        ("not-utf8".to_string(), {
            let mut b = format!("grammar;\npub T: () = \"{t}\" => ();\n// ").into_bytes();
            b.extend_from_slice(&[0xff, 0xfe, b'\n']);
            b
        }),
    ];
    Pool { valid, invalid }
}

pub fn write_line(w: &mut impl Write, s: &str) {
    writeln!(w, "{s}").unwrap();
}
