//! C18 search: real `Configuration::process_file` on mutated valid grammars and on raw
//! byte/char strings; every panic, abort (stack overflow, SIGSEGV, ..) or hang is reported with
//! the input as replay.
//!
//! Parent: generates the inputs (deterministic from --seed), writes them to a batch file and
//! drives child processes (`panic --child BATCH NONCE DIR FROM`): the child announces each case on
//! stderr before and after running it, so that a crash or a hang is attributed to the case in
//! flight; the parent then restarts a child behind that case.
//! Output: panic.findings.json in --out, one JSON stats line on stdout.
//! `--replay FILE` runs the single input in FILE (features: none, then {f}).
use std::io::{BufRead, BufReader, Write};
use std::process::{Command, Stdio};
use std::sync::mpsc;
use std::time::Duration;
use verif_harness::*;

include!("../precgen.inc.rs");
use precgen::{Gen, Wild};

// ---------------------------------------------------------------------------------------- child

fn run_one(dir: &std::path::Path, idx: usize, bytes: &[u8], feat: bool) -> String {
    // invalid UTF-8 goes to the file as is: `process_file` must answer with an error
    let stem = format!("c{idx}");
    let src = dir.join(format!("{stem}.lalrpop"));
    let out = dir.join(format!("{stem}.rs"));
    let _ = std::fs::remove_file(&out);
    std::fs::write(&src, bytes).unwrap();
    let mut cfg = lalrpop::Configuration::new();
    cfg.force_build(true).log_quiet();
    if feat {
        cfg.set_features(vec!["f".to_string()]);
    }
    let r = std::panic::catch_unwind(std::panic::AssertUnwindSafe(|| cfg.process_file(&src)));
    let res = match r {
        Ok(Ok(())) => {
            if out.exists() {
                "ok".to_string()
            } else {
                "ok-without-output".to_string()
            }
        }
        Ok(Err(_)) => "error".to_string(),
        Err(p) => {
            let msg = p
                .downcast_ref::<String>()
                .cloned()
                .or_else(|| p.downcast_ref::<&str>().map(|s| s.to_string()))
                .unwrap_or_default();
            format!("panic {}", enc_str(&msg))
        }
    };
    let _ = std::fs::remove_file(&src);
    let _ = std::fs::remove_file(&out);
    res
}

fn child(args: &[String]) {
    let batch = &args[0];
    let nonce = &args[1];
    let dir = std::path::PathBuf::from(&args[2]);
    let from: usize = args[3].parse().unwrap();
    std::fs::create_dir_all(&dir).unwrap();
    // location of a panic (file:line) is part of the finding
    std::panic::set_hook(Box::new(|info| {
        if let Some(l) = info.location() {
            LAST_LOC.with(|c| *c.borrow_mut() = format!("{}:{}", l.file(), l.line()));
        }
    }));
    let text = std::fs::read_to_string(batch).unwrap();
    let err = std::io::stderr();
    for (i, line) in text.lines().enumerate() {
        if i < from {
            continue;
        }
        let bytes = dec_bytes(line).unwrap();
        for feat in [false, true] {
            writeln!(err.lock(), "@@{nonce} S {i} {}", feat as u8).unwrap();
            LAST_LOC.with(|c| c.borrow_mut().clear());
            // the CLI runs on the main thread: same default stack (8 MiB) here
            let b = bytes.clone();
            let d = dir.clone();
            let h = std::thread::Builder::new()
                .stack_size(8 << 20)
                .spawn(move || {
                    let r = run_one(&d, i, &b, feat);
                    let loc = LAST_LOC.with(|c| c.borrow().clone());
                    (r, loc)
                })
                .unwrap();
            let (r, loc) = h.join().unwrap_or_else(|_| ("panic x".to_string(), String::new()));
            writeln!(err.lock(), "@@{nonce} D {i} {} {r} {}", feat as u8, enc_str(&loc)).unwrap();
        }
    }
    writeln!(err.lock(), "@@{nonce} E").unwrap();
}

thread_local! {
    static LAST_LOC: std::cell::RefCell<String> = const { std::cell::RefCell::new(String::new()) };
}

// --------------------------------------------------------------------------------- input generation

fn corpus() -> Vec<(String, String)> {
    let mut files = vec![];
    for root in ["/repo/lalrpop-test/src", "/repo/doc"] {
        let mut stack = vec![std::path::PathBuf::from(root)];
        while let Some(d) = stack.pop() {
            let Ok(rd) = std::fs::read_dir(&d) else { continue };
            let mut entries: Vec<_> = rd.filter_map(|e| e.ok()).map(|e| e.path()).collect();
            entries.sort();
            for p in entries {
                if p.is_dir() {
                    if p.file_name().is_some_and(|n| n == "target") {
                        continue;
                    }
                    stack.push(p);
                } else if p.extension().is_some_and(|e| e == "lalrpop") {
                    if let Ok(t) = std::fs::read_to_string(&p) {
                        if t.len() <= 4000 {
                            files.push((p.display().to_string(), t));
                        }
                    }
                }
            }
        }
    }
    files.sort();
    files
}

/// crude tokens: identifiers/numbers, string-ish literals, whitespace runs, single punctuation
fn tokens(s: &str) -> Vec<String> {
    let cs: Vec<char> = s.chars().collect();
    let mut out = vec![];
    let mut i = 0;
    while i < cs.len() {
        let c = cs[i];
        let start = i;
        if c.is_alphanumeric() || c == '_' {
            while i < cs.len() && (cs[i].is_alphanumeric() || cs[i] == '_') {
                i += 1;
            }
        } else if c.is_whitespace() {
            while i < cs.len() && cs[i].is_whitespace() {
                i += 1;
            }
        } else if c == '"' {
            i += 1;
            while i < cs.len() && cs[i] != '"' {
                if cs[i] == '\\' {
                    i += 1;
                }
                i += 1;
            }
            i = (i + 1).min(cs.len());
        } else if c == '=' && i + 1 < cs.len() && cs[i + 1] == '>' {
            i += 2;
        } else {
            i += 1;
        }
        out.push(cs[start..i].iter().collect());
    }
    out
}

const INSERTS: &[&str] = &[
    "#[precedence(level=\"1\")]", "#[precedence(level=\"0\")]", "#[assoc(side=\"left\")]", "#[assoc(side=\"right\")]",
    "#[assoc(side=\"none\")]", "#[cfg(feature=\"f\")]", "#[cfg(not(feature=\"f\"))]", "#[cfg(feature=\"zz\")]",
    "#[cfg(all())]", "#[cfg(any(feature=\"f\", not()))]", "#[cfg]", "#[inline]", "#[LALR]", "#[recursive_ascent]", "<", ">", "(", ")",
    "*", "+", "?", "=>", "=>?", "=>@L", "=>@R", "@L", "@R", "!", ";", ",", "{", "}", ":", "::", "=", "==", "!=", "~~", "!~", "if",
    "match {", "} else {", "extern {", "enum Tok {", "type Location = usize;", "type Error = ();", "pub", "pub(crate)",
    "grammar;", "grammar<'a>(x: &'a str);", "use std::str::FromStr;", "r\"(\"", "r\"[z-a]\"", "r\"\\p{Foo}\"",
    "r\"a{99999}\"", "r\"(?P<n>\"", "r\"\\\"", "r#\"a\"#", "r\"\"", "\"\"", "\"\\\"", "\"\\x\"", "\"\\xZ1\"", "'a", "'a'", "\"abc",
    "/*", "*/", "//", "`", "`a`", "_", "<>", "<mut x:Id>", "<(a,b):Id>", "M<>", "M<M>", "Undefined<Id>", "Id<Id<Id<Id>>>",
    "match { \"a\" => \"k0\", \"b\" => \"k0\", }", "\"x\" => Tok::X(<u32>),", "=> { { }", "=> (", "=> <>,", "=> (<>),", "=> {<>},", "#![allow(x)]", "#![", "#", "[", "]", "dyn", "where", "for<'a>", "&'a",
    "\u{feff}", "\u{0}", "é", "😀", "\r\n", "\t",
];

fn mutate(r: &mut Rng, seed_text: &str, pool: &[String]) -> String {
    let mut toks = tokens(seed_text);
    let many = r.chance(1, 5);
    let n = 1 + r.below(if many { 8 } else { 3 });
    for _ in 0..n {
        if toks.is_empty() {
            break;
        }
        let i = r.below(toks.len());
        match r.below(10) {
            0 | 1 => {
                toks.remove(i);
            }
            2 => {
                let t = toks[i].clone();
                toks.insert(i, t);
            }
            3 => {
                let j = r.below(toks.len());
                toks.swap(i, j);
            }
            4 | 5 => {
                let ins = (*r.pick(INSERTS)).to_string();
                toks.insert(i, format!(" {ins} "));
            }
            6 => {
                if !pool.is_empty() {
                    toks[i] = r.pick(pool).clone();
                }
            }
            7 => {
                // attribute shuffle: move an attribute-looking run `#[..]` elsewhere
                if let Some(a) = toks.iter().position(|t| t == "#") {
                    if let Some(len) = toks[a..].iter().position(|t| t == "]") {
                        let run: Vec<String> = toks.drain(a..=a + len).collect();
                        let j = r.below(toks.len() + 1);
                        for (k, t) in run.into_iter().enumerate() {
                            toks.insert(j + k, t);
                        }
                    }
                }
            }
            8 => {
                // truncate
                let keep = r.below(toks.len());
                toks.truncate(keep);
            }
            _ => {
                // corrupt inside a token (string/regex contents, identifiers)
                let cs: Vec<char> = toks[i].chars().collect();
                if !cs.is_empty() {
                    let k = r.below(cs.len());
                    let mut cs = cs;
                    cs[k] = *r.pick(&['"', '\\', '(', '[', '{', '\n', 'x', '0', '#', '\'', '<', '*']);
                    toks[i] = cs.into_iter().collect();
                }
            }
        }
    }
    toks.concat()
}

fn raw_chars(r: &mut Rng) -> Vec<u8> {
    let long = r.chance(1, 6);
    let n = r.below(if long { 400 } else { 40 });
    if r.chance(1, 3) {
        (0..n).map(|_| r.below(256) as u8).collect()
    } else {
        let alpha: Vec<&str> = vec![
            "grammar", ";", " ", "\n", "pub", "A", "B", ":", "=", "=>", "{", "}", "(", ")", "<", ">", ",", "\"a\"", "r\"a\"", "#", "[", "]",
            "*", "+", "?", "!", "@L", "'a", "\"", "\\", "/", "//", "/*", "x", "1", "_", "`", "é", "match", "extern", "enum", "type", "if",
            "use", "where", "::", "&", "mut", "dyn", "~~", "==", "()", "u32",
        ];
        let mut s = String::new();
        if r.chance(1, 2) {
            s.push_str("grammar;\n");
        }
        for _ in 0..n {
            s.push_str(*r.pick(&alpha[..]));
            if r.chance(1, 3) {
                s.push(' ');
            }
        }
        s.into_bytes()
    }
}

fn deep_nesting(r: &mut Rng) -> String {
    let depth = *r.pick(&[50usize, 200, 1000, 5000, 20000]);
    match r.below(5) {
        0 => format!("grammar;\npub A: () = {}\"a\"{} => ();\n", "(".repeat(depth), ")".repeat(depth)),
        1 => {
            // repeat operators expand through nested macro-like names: ~cubic (slow, not a hang)
            let depth = depth.min(150);
            format!("grammar;\npub A: () = \"a\"{} => ();\n", "?".repeat(depth))
        }
        2 => format!("grammar;\npub A: {}u8{} = \"a\" => todo!();\n", "Vec<".repeat(depth), ">".repeat(depth)),
        3 => {
            // nested macro calls are ~cubic in the depth (depth 1000 = 11 s): slow, not a hang
            let depth = depth.min(150);
            format!("grammar;\npub A: () = M<{}\"a\"{}> => ();\nM<X>: () = X => ();\n", "M<".repeat(depth), ">".repeat(depth))
        }
        _ => format!("grammar;\npub A: () = \"a\" => {}(){};\n", "(".repeat(depth), ")".repeat(depth)),
    }
}

/// `match` blocks (repeated user names, several rungs, `_`) and `extern` blocks (repeated conversions)
fn token_decls(r: &mut Rng) -> String {
    let names = ["\"k0\"", "\"k1\"", "K2", "\"k3\""];
    let lits = ["\"a\"", "\"b\"", "\"c\"", "r\"[0-9]+\"", "r\"[a-z]\\w*\"", "\"if\"", "r\"a*\""];
    let mut s = String::from("grammar;\n");
    let mut used: Vec<String> = vec![];
    if r.chance(2, 3) {
        s.push_str("match {\n");
        let rungs = 1 + r.below(3);
        for k in 0..rungs {
            let n = 1 + r.below(4);
            for _ in 0..n {
                let lit = *r.pick(&lits);
                match r.below(6) {
                    0 => {
                        s.push_str(&format!("    {lit},\n"));
                        used.push(lit.to_string());
                    }
                    1 => s.push_str(&format!("    {lit} => {{ }},\n")),
                    _ => {
                        let name = *r.pick(&names);
                        s.push_str(&format!("    {lit} => {name},\n"));
                        used.push(name.to_string());
                    }
                }
            }
            if k + 1 < rungs {
                s.push_str("} else {\n");
            } else if r.chance(1, 2) {
                s.push_str("    _\n");
            }
        }
        s.push_str("}\n");
    } else {
        s.push_str("extern {\n    type Location = usize;\n    type Error = ();\n    enum Tok {\n");
        let n = 1 + r.below(5);
        for _ in 0..n {
            let name = *r.pick(&names);
            let pat = *r.pick(&["Tok::A", "Tok::B(<u32>)", "Tok::C(<String>)", "Tok::D(<u32>, <u32>)", "Tok::E { x: <u8> }", "Tok::F(_)"]);
            s.push_str(&format!("        {name} => {pat},\n"));
            used.push(name.to_string());
        }
        s.push_str("    }\n}\n");
    }
    if used.is_empty() {
        used.push("\"z\"".into());
    }
    used.sort();
    used.dedup();
    s.push_str("pub S: () = {\n");
    for u in used.iter().take(4) {
        s.push_str(&format!("    {u} => (),\n"));
    }
    s.push_str("};\n");
    s
}

fn layouts(r: &mut Rng) -> String {
    let wild = r.chance(1, 2);
    let mut rr = r.fork();
    let mut g = Gen::new(&mut rr, if wild { Wild::Wild } else { Wild::Tame });
    g.with_cfg = true;
    g.features = vec!["f", "g"];
    g.grammar()
}

// --------------------------------------------------------------------------------------- parent

struct Finding {
    kind: String,
    detail: String,
    input: Vec<u8>,
    feat: bool,
    class: String,
}

fn main() {
    let argv: Vec<String> = std::env::args().collect();
    if argv.get(1).map(|s| s.as_str()) == Some("--child") {
        child(&argv[2..]);
        return;
    }
    let opts = parse_opts();
    let per_case_timeout = Duration::from_secs(
        opts.extra.iter().position(|a| a == "--case-timeout").map(|i| opts.extra[i + 1].parse().unwrap()).unwrap_or(30),
    );
    let mut r = Rng::new(opts.seed);
    let mut h = Hist::default();
    let mut inputs: Vec<(String, Vec<u8>)> = vec![];
    if let Some(f) = &opts.replay {
        inputs.push(("replay".into(), std::fs::read(f).unwrap()));
    } else {
        let seeds = corpus();
        let mut pool: Vec<String> = vec![];
        for (_, t) in &seeds {
            for tk in tokens(t) {
                if !tk.trim().is_empty() && pool.len() < 4000 {
                    pool.push(tk);
                }
            }
        }
        // fixed regression inputs first
        inputs.push((
            "fixed:assoc-on-inherited-first-level".into(),
            b"grammar;\npub E: u32 = {\n #[precedence(level=\"1\")] \"a\" => 1,\n #[assoc(side=\"left\")] <l:E> \"+\" <r:E> => l + r,\n};\n".to_vec(),
        ));
        inputs.push((
            "fixed:cfg-first-alternative-then-assoc".into(),
            b"grammar;\npub E: u32 = {\n #[cfg(feature=\"x\")] #[precedence(level=\"5\")] \"a\" => 1,\n #[assoc(side=\"left\")] <l:E> \"+\" <r:E> => l + r,\n #[precedence(level=\"1\")] \"b\" => 2,\n};\n".to_vec(),
        ));
        inputs.push((
            "fixed:tuple-pattern-on-own-nonterminal".into(),
            b"grammar;\npub E: () = {\n \"~\" <(a, b):E> => (),\n \"a\" => (),\n};\n".to_vec(),
        ));
        inputs.push((
            "fixed:tuple-pattern-on-non-tuple-type".into(),
            b"grammar;\npub E: () = {\n \"~\" <(a, b):F> => (),\n};\nF: u8 = \"a\" => 1;\n".to_vec(),
        ));
        inputs.push((
            "fixed:two-match-entries-one-name".into(),
            b"grammar;\nmatch { \"a\" => \"k0\", \"b\" => \"k0\", }\npub S: () = { \"k0\" => () };\n".to_vec(),
        ));
        inputs.push((
            "fixed:repeated-conversion-different-types".into(),
            b"grammar;\nextern { type Location = usize; enum Tok { \"x\" => Tok::X(<u32>), \"x\" => Tok::Y(<String>), } }\npub S: () = { \"x\" => () };\n".to_vec(),
        ));
        inputs.push((
            "fixed:empty-alternative-multiple-angle".into(),
            b"grammar;\npub A: String = => foo(<>, <>);\n".to_vec(),
        ));
        for (name, t) in &seeds {
            let _ = name;
            inputs.push(("seed-unchanged".into(), t.clone().into_bytes()));
        }
        for i in 0..opts.n {
            let (class, bytes): (&str, Vec<u8>) = match i % 10 {
                0..=4 => {
                    let (_, t) = r.pick(&seeds).clone();
                    ("mutated-corpus", mutate(&mut r, &t, &pool).into_bytes())
                }
                5 => {
                    if r.chance(1, 3) {
                        ("token-decls", token_decls(&mut r).into_bytes())
                    } else {
                        ("layout", layouts(&mut r).into_bytes())
                    }
                }
                6 | 7 => {
                    let t = layouts(&mut r);
                    ("mutated-layout", mutate(&mut r, &t, &pool).into_bytes())
                }
                8 => ("raw", raw_chars(&mut r)),
                _ => {
                    if r.chance(1, 8) {
                        ("deep-nesting", deep_nesting(&mut r).into_bytes())
                    } else {
                        ("raw", raw_chars(&mut r))
                    }
                }
            };
            inputs.push((class.to_string(), bytes));
        }
    }
    for (c, _) in &inputs {
        h.hit(&format!("class:{}", c.split(':').next().unwrap()));
    }
    if let Some(i) = opts.extra.iter().position(|a| a == "--dump") {
        // debugging aid: print the first K inputs of a class and stop
        let class = &opts.extra[i + 1];
        let k: usize = opts.extra[i + 2].parse().unwrap();
        for (_, b) in inputs.iter().filter(|(c, _)| c == class).take(k) {
            println!("{}\n-----", String::from_utf8_lossy(b));
        }
        return;
    }
    let batch = opts.out.join("panic.batch");
    {
        let mut f = std::io::BufWriter::new(std::fs::File::create(&batch).unwrap());
        for (_, b) in &inputs {
            writeln!(f, "{}", enc_bytes(b)).unwrap();
        }
    }
    let nonce = format!("{:x}", r.next());
    let exe = std::env::current_exe().unwrap();
    let work = opts.out.join("panic.work");
    let mut findings: Vec<Finding> = vec![];
    let mut from = 0usize;
    let mut runs = 0u64;
    let mut restarts = 0;
    'outer: while from < inputs.len() {
        let mut ch = Command::new(&exe)
            .arg("--child")
            .arg(&batch)
            .arg(&nonce)
            .arg(&work)
            .arg(from.to_string())
            .stdin(Stdio::null())
            .stdout(Stdio::null())
            .stderr(Stdio::piped())
            .spawn()
            .unwrap();
        let stderr = ch.stderr.take().unwrap();
        let (tx, rx) = mpsc::channel::<String>();
        let prefix = format!("@@{nonce} ");
        let reader = std::thread::spawn(move || {
            let br = BufReader::new(stderr);
            for line in br.split(b'\n') {
                let Ok(line) = line else { break };
                let line = String::from_utf8_lossy(&line).into_owned();
                if let Some(rest) = line.strip_prefix(&prefix) {
                    if tx.send(rest.to_string()).is_err() {
                        break;
                    }
                }
            }
        });
        let mut in_flight: Option<(usize, bool)> = None;
        loop {
            match rx.recv_timeout(per_case_timeout) {
                Ok(msg) => {
                    let w: Vec<&str> = msg.split(' ').collect();
                    match w[0] {
                        "S" => in_flight = Some((w[1].parse().unwrap(), w[2] == "1")),
                        "D" => {
                            let i: usize = w[1].parse().unwrap();
                            let feat = w[2] == "1";
                            runs += 1;
                            in_flight = None;
                            from = if feat { i + 1 } else { i };
                            let outcome = w[3];
                            h.hit(&format!("outcome:{outcome}"));
                            if outcome == "panic" {
                                let m = dec_str(w.get(4).unwrap_or(&"x")).unwrap_or_default();
                                let loc = dec_str(w.get(5).unwrap_or(&"x")).unwrap_or_default();
                                findings.push(Finding {
                                    kind: "panic".into(),
                                    detail: format!("{m} @ {loc}"),
                                    input: inputs[i].1.clone(),
                                    feat,
                                    class: inputs[i].0.clone(),
                                });
                            } else if outcome == "ok-without-output" {
                                findings.push(Finding {
                                    kind: "ok-without-output".into(),
                                    detail: "process_file returned Ok(()) but wrote no parser".into(),
                                    input: inputs[i].1.clone(),
                                    feat,
                                    class: inputs[i].0.clone(),
                                });
                            }
                        }
                        "E" => {
                            let _ = ch.wait();
                            let _ = reader.join();
                            break 'outer;
                        }
                        _ => {}
                    }
                }
                Err(mpsc::RecvTimeoutError::Timeout) => {
                    let _ = ch.kill();
                    let _ = ch.wait();
                    if let Some((i, feat)) = in_flight {
                        h.hit("outcome:hang");
                        findings.push(Finding {
                            kind: "hang".into(),
                            detail: format!("no answer within {} s", per_case_timeout.as_secs()),
                            input: inputs[i].1.clone(),
                            feat,
                            class: inputs[i].0.clone(),
                        });
                        from = i + 1;
                    } else {
                        from += 1;
                    }
                    restarts += 1;
                    break;
                }
                Err(mpsc::RecvTimeoutError::Disconnected) => {
                    // child died without the end marker: abort / stack overflow / signal
                    let status = ch.wait().ok();
                    if let Some((i, feat)) = in_flight {
                        h.hit("outcome:crash");
                        findings.push(Finding {
                            kind: "crash".into(),
                            detail: format!("child process died: {status:?}"),
                            input: inputs[i].1.clone(),
                            feat,
                            class: inputs[i].0.clone(),
                        });
                        from = i + 1;
                    } else {
                        from += 1;
                    }
                    restarts += 1;
                    break;
                }
            }
        }
        let _ = reader.join();
        if restarts > 200 {
            break;
        }
    }
    let _ = std::fs::remove_dir_all(&work);
    let fj: Vec<String> = findings
        .iter()
        .map(|f| {
            format!(
                "{{\"kind\":{},\"detail\":{},\"class\":{},\"features\":{},\"input_hex\":{},\"input_text\":{}}}",
                json_str(&f.kind),
                json_str(&f.detail),
                json_str(&f.class),
                json_str(if f.feat { "f" } else { "" }),
                json_str(&enc_bytes(&f.input)),
                json_str(&String::from_utf8_lossy(&f.input))
            )
        })
        .collect();
    std::fs::write(opts.out.join("panic.findings.json"), format!("[{}]", fj.join(","))).unwrap();
    println!(
        "{{\"inputs\":{},\"runs\":{},\"findings\":{},\"restarts\":{},\"hist\":{}}}",
        inputs.len(),
        runs,
        findings.len(),
        restarts,
        h.json()
    );
}
