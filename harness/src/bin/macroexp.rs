//! C13 harness: the real macro expansion pass vs the Lean model `lpm_macro`.
//!
//! Streams written into --out:
//!   macro.req / macro.impl        `stage_dump(precedence)` -> `stage_dump(macro_expand)` (types stripped)
//!   macrocol.req / macrocol.impl  key-collision probe: the model is run with a structural key; the
//!                                 expected answer is `none` (two different symbols never share a printed key)
//! The final JSON line carries the generated grammar texts of the collision probes so that the check
//! can build a replay.
use std::collections::BTreeSet;
use std::fmt::Write as _;
use verif_harness::*;

// ---------------------------------------------------------------- tiny S-expression reader
#[derive(Clone, Debug, PartialEq)]
enum Sx {
    A(String),
    L(Vec<Sx>),
}

fn sx_parse(s: &str) -> Option<Sx> {
    let mut stack: Vec<Vec<Sx>> = vec![vec![]];
    let mut cur = String::new();
    fn flush(cur: &mut String, stack: &mut Vec<Vec<Sx>>) {
        if !cur.is_empty() {
            stack.last_mut().unwrap().push(Sx::A(std::mem::take(cur)));
        }
    }
    for c in s.chars() {
        match c {
            '(' => {
                flush(&mut cur, &mut stack);
                stack.push(vec![]);
            }
            ')' => {
                flush(&mut cur, &mut stack);
                let top = stack.pop()?;
                stack.last_mut()?.push(Sx::L(top));
            }
            ' ' | '\n' | '\t' => flush(&mut cur, &mut stack),
            c => cur.push(c),
        }
    }
    flush(&mut cur, &mut stack);
    if stack.len() != 1 || stack[0].len() != 1 {
        return None;
    }
    stack.pop()?.pop()
}

fn sx_show(s: &Sx) -> String {
    match s {
        Sx::A(a) => a.clone(),
        Sx::L(v) => format!("({})", v.iter().map(sx_show).collect::<Vec<_>>().join(" ")),
    }
}

/// replace the type declaration of every `(nt name vis attrs args TYPE alts)` by `_`
fn strip_types(dump: &str) -> String {
    let Some(Sx::L(mut top)) = sx_parse(dump) else { return dump.to_string() };
    for part in top.iter_mut() {
        if let Sx::L(items) = part {
            if matches!(items.first(), Some(Sx::A(a)) if a == "items") {
                for it in items.iter_mut().skip(1) {
                    if let Sx::L(f) = it {
                        if matches!(f.first(), Some(Sx::A(a)) if a == "nt") && f.len() == 7 {
                            f[5] = Sx::A("_".into());
                        }
                    }
                }
            }
        }
    }
    sx_show(&Sx::L(top))
}

// ---------------------------------------------------------------- generator
const LITS: &[&str] = &["\"a\"", "\"b\"", "\"c\"", "\",\"", "\"(\"", "\"<\"", "\"\\\"\"", "\"\\\\\"", "\"a b\"", "\"é\"", "\"\\t\"", "r\"[0-9]+\"", "r\"a*b\""];
const PLAIN_NTS: &[&str] = &["A", "B", "Cc"];
/// names reachable only through backticks (or `error`, which is an ordinary identifier); they
/// print like something else
const ADV_NTS: &[&str] = &["error", "`A+`", "`\"a\"`", "`(A B)`", "`@L`", "`W<A>`", "`A?`", "`<A>`", "`x:A`"];

struct MacroDef {
    name: String,
    params: Vec<String>,
}

struct Gen<'a> {
    r: &'a mut Rng,
    macros: Vec<MacroDef>,
    nts: Vec<String>,
    adversarial: bool,
}

impl Gen<'_> {
    fn lit(&mut self) -> String {
        self.r.pick(LITS).to_string()
    }
    fn nt(&mut self) -> String {
        self.r.pick(&self.nts).clone()
    }
    /// a symbol without bindings: terminal, nonterminal, parameter, macro use, group, repeat, lookaround
    fn sym0(&mut self, params: &[String], max_macro: usize, depth: usize) -> String {
        let choice = if depth >= 3 { self.r.below(3) } else { self.r.below(12) };
        match choice {
            0 => self.lit(),
            1 => self.nt(),
            2 => {
                if params.is_empty() {
                    self.nt()
                } else {
                    self.r.pick(params).clone()
                }
            }
            3 | 4 | 5 if max_macro > 0 => {
                let m = self.r.below(max_macro);
                let (name, arity) = (self.macros[m].name.clone(), self.macros[m].params.len());
                let args: Vec<String> = (0..arity).map(|k| self.arg(params, m, depth + 1, k == 0)).collect();
                format!("{name}<{}>", args.join(", "))
            }
            6 | 7 => {
                let n = 1 + self.r.below(3);
                let parts: Vec<String> = (0..n)
                    .map(|_| {
                        let s = self.sym0(params, max_macro, depth + 1);
                        if self.r.chance(1, 3) { format!("<{s}>") } else { s }
                    })
                    .collect();
                format!("({})", parts.join(" "))
            }
            8 | 9 => {
                let inner = self.sym0(params, max_macro, depth + 1);
                format!("{inner}{}", self.r.pick(&["*", "+", "?"]))
            }
            10 => self.r.pick(&["@L", "@R", "!"]).to_string(),
            _ => self.lit(),
        }
    }
    /// a macro argument: literals are favoured (conditions need them)
    fn arg(&mut self, params: &[String], max_macro: usize, depth: usize, first: bool) -> String {
        // the first parameter is the one conditions test: mostly a string literal
        if first && self.r.chance(4, 5) {
            return self.r.pick(&["\"a\"", "\"b\"", "\"a b\"", "\",\"", "\"c\"", "\"\\\\\""]).to_string();
        }
        match self.r.below(6) {
            0 | 1 => self.lit(),
            2 => self.nt(),
            3 if self.adversarial => {
                // a defined adversarial name or the symbol it prints like
                let twins: &[(&str, &str)] = &[("error", "!"), ("`A+`", "A+"), ("`\"a\"`", "\"a\""), ("`(A B)`", "(A B)"),
                    ("`@L`", "@L"), ("`A?`", "A?"), ("`<A>`", "<A>"), ("`W<A>`", "A")];
                let avail: Vec<&(&str, &str)> = twins.iter().filter(|(n, _)| self.nts.iter().any(|x| x == n)).collect();
                if avail.is_empty() {
                    self.lit()
                } else {
                    let (n, t) = **self.r.pick(&avail);
                    if self.r.chance(1, 2) { n.to_string() } else { t.to_string() }
                }
            }
            _ => self.sym0(params, max_macro, depth),
        }
    }
    fn alt(&mut self, params: &[String], max_macro: usize) -> String {
        let n = self.r.below(4);
        // 0: no bindings, 1: anonymous `<..>`, 2: named (requires an action); never mixed
        let mode = self.r.below(4);
        let mut parts = vec![];
        let mut named = false;
        for k in 0..n {
            let s = self.sym0(params, max_macro, 0);
            parts.push(match (mode, self.r.below(2)) {
                (1, 0) => format!("<{s}>"),
                (2, 0) => {
                    named = true;
                    if self.r.chance(1, 3) { format!("<mut x{k}:{s}>") } else { format!("<x{k}:{s}>") }
                }
                _ => s,
            });
        }
        let mut a = parts.join(" ");
        if !params.is_empty() && self.r.chance(2, 5) {
            let p = if self.r.chance(9, 10) { params[0].clone() } else { self.r.pick(params).clone() };
            let bad = self.r.chance(1, 25);
            let (op, rhs) = match self.r.below(8) {
                4 if bad => ("~~", "(".to_string()),
                6 if bad => ("!~", "[".to_string()),
                0 | 1 => ("==", self.r.pick(&["a", "b", "a b", ","]).to_string()),
                2 | 3 => ("!=", self.r.pick(&["a", "b", "\\\\"]).to_string()),
                4 | 5 => ("~~", self.r.pick(&["^a", "b$", "[ab]", "^.$", "a*b", "^[^a]", "x?a+", ","]).to_string()),
                _ => ("!~", self.r.pick(&["^a", "c", "[a-c]$", "^a.b$", "b"]).to_string()),
            };
            write!(a, " if {p} {op} \"{rhs}\"").unwrap();
        }
        if named || n == 0 || self.r.chance(1, 4) {
            a.push_str(" => ()");
        }
        a
    }
}

fn gen_grammar(r: &mut Rng, adversarial: bool) -> String {
    let nmac = 1 + r.below(4);
    let mut nts: Vec<String> = PLAIN_NTS.iter().map(|s| s.to_string()).collect();
    let mut adv_used: Vec<String> = vec![];
    if adversarial {
        for a in ADV_NTS {
            if r.chance(1, 3) {
                nts.push(a.to_string());
                adv_used.push(a.to_string());
            }
        }
    }
    let mut g = Gen { r, macros: vec![], nts, adversarial };
    let mut text = String::from("grammar;\n");
    let names = ["M", "Comma", "W", "Pick", "Opt2"];
    for i in 0..nmac {
        let arity = 1 + g.r.below(2);
        let params: Vec<String> = (0..arity).map(|k| ["T", "X", "Yy"][k].to_string()).collect();
        let nalts = 1 + g.r.below(3);
        let alts: Vec<String> = (0..nalts).map(|_| g.alt(&params, i)).collect();
        let name = names[i].to_string();
        writeln!(text, "{name}<{}>: () = {{ {} }};", params.join(", "), alts.join(", ")).unwrap();
        g.macros.push(MacroDef { name, params });
    }
    let nalts = 1 + g.r.below(3);
    let alts: Vec<String> = (0..nalts).map(|_| g.alt(&[], nmac)).collect();
    writeln!(text, "pub S: () = {{ {} }};", alts.join(", ")).unwrap();
    // a second user of the macros
    let alts2: Vec<String> = (0..1 + g.r.below(2)).map(|_| g.alt(&[], nmac)).collect();
    writeln!(text, "pub S2: () = {{ {} }};", alts2.join(", ")).unwrap();
    text.push_str("A: () = { \"a\" };\nB: () = { \"b\" };\nCc: () = { \"c\" A };\n");
    for a in adv_used {
        writeln!(text, "{a}: () = {{ \"z\" }};").unwrap();
    }
    text
}

const FIXED: &[&str] = &[
    // the canonical examples of the documentation
    "grammar;\nComma<T>: Vec<T> = { <mut v:(<T> \",\")*> <e:T?> => { v.extend(e); v } };\npub S: () = { Comma<\"a\">, Comma<A> Comma<\"a\"> };\nA: () = { \"q\" };\n",
    "grammar;\nPick<X, T>: () = { \"x\" X if T == \"a\" => (), \"y\" X if T ~~ \"^b\" => (), X if T != \"a\" => (), \"w\" if T !~ \"c$\" };\npub S: () = { Pick<A, \"a\"> Pick<A, \"bc\">, @L A+ @R !, Pick<(A \",\")?, \"c\"> };\nA: () = { \"q\" };\n",
    // condition on something that is not a literal
    "grammar;\nM<T>: () = { \"x\" if T == \"a\" };\npub S: () = { M<A> };\nA: () = { \"q\" };\n",
    // invalid regex
    "grammar;\nM<T>: () = { \"x\" if T ~~ \"(\" };\npub S: () = { M<\"a\"> };\n",
    // unbounded recursion (linear growth): the recursion cap
    "grammar;\nR<X>: () = { \"a\", R<(X)> };\npub S: () = { R<\"b\"> };\n",
    // named symbol inside a group
    "grammar;\npub S: () = { (<x:A> \"b\")* };\nA: () = { \"q\" };\n",
    // KNOWN collisions of the printed key (C13 findings)
    "grammar;\nM<X>: () = { \"m\" X };\npub S: () = { M<error> \"1\", M<!> \"2\" };\nerror: () = { \"e\" };\n",
    "grammar;\nW<X>: () = { \"w\" X };\npub S: () = { W<A> \"1\", `W<A>` \"2\" };\nA: () = { \"a\" };\n`W<A>`: () = { \"z\" };\n",
    "grammar;\npub S: () = { A+ \"1\", `A+` \"2\" };\nA: () = { \"a\" };\n`A+`: () = { \"z\" };\n",
    "grammar;\nM<X>: () = { \"m\" X };\npub S: () = { M<\"a\"> \"1\", M<`\"a\"`> \"2\" };\n`\"a\"`: () = { \"z\" };\n",
];

/// Compiled confirmation of the key collisions: (name, grammar accepted by lalrpop as is, the same
/// grammar with the macro uses / repetitions expanded by hand under fresh names = what substitution
/// semantics prescribes, inputs).
const WITNESSES: &[(&str, &str, &str, &[&str])] = &[
    (
        "error-symbol",
        "grammar;\nM<X>: String = { \"m\" <x:X> => format!(\"M({})\", x) };\npub S: String = { <a:M<error>> \"1\" => a, <a:M<!>> \"2\" => format!(\"len{}\", a.len()) };\nerror: String = { \"e\" => \"nt-error\".to_string() };\n",
        "grammar;\npub S: String = { <a:M1> \"1\" => a, <a:M2> \"2\" => format!(\"recovered\") };\nM1: String = { \"m\" <x:error> => format!(\"M({})\", x) };\nM2: String = { \"m\" <x:!> => format!(\"M(!)\") };\nerror: String = { \"e\" => \"nt-error\".to_string() };\n",
        &["m e 1", "m e 2", "m 2"],
    ),
    (
        "escaped-name",
        "grammar;\nM<X>: String = { \"m\" <x:X> => format!(\"M({})\", x) };\npub S: String = { <a:M<\"a\">> \"1\" => a, <a:M<`\"a\"`>> \"2\" => a };\n`\"a\"`: String = { \"z\" => \"user-defined\".to_string() };\n",
        "grammar;\npub S: String = { <a:M1> \"1\" => a, <a:M2> \"2\" => a };\nM1: String = { \"m\" <x:\"a\"> => format!(\"M({})\", x) };\nM2: String = { \"m\" <x:Qa> => format!(\"M({})\", x) };\nQa: String = { \"z\" => \"user-defined\".to_string() };\n",
        &["m a 1", "m z 2", "m a 2", "m z 1"],
    ),
    (
        "escaped-name",
        "grammar;\nW<X>: String = { \"w\" <x:X> => format!(\"W({})\", x) };\npub S: String = { <a:W<A>> \"1\" => a, <a:`W<A>`> \"2\" => a };\nA: String = { \"a\" => \"A\".to_string() };\n`W<A>`: String = { \"z\" => \"user-defined\".to_string() };\n",
        "grammar;\npub S: String = { <a:W1> \"1\" => a, <a:U> \"2\" => a };\nW1: String = { \"w\" <x:A> => format!(\"W({})\", x) };\nA: String = { \"a\" => \"A\".to_string() };\nU: String = { \"z\" => \"user-defined\".to_string() };\n",
        &["w a 1", "z 2", "w a 2", "z 1"],
    ),
    (
        "escaped-name",
        "grammar;\npub S: String = { <a:A+> \"1\" => a.join(\",\"), <a:`A+`> \"2\" => a.join(\",\") };\nA: String = { \"a\" => \"A\".to_string() };\n`A+`: Vec<String> = { \"z\" => vec![\"user-defined\".to_string()] };\n",
        "grammar;\npub S: String = { <a:Ap> \"1\" => a.join(\",\"), <a:U> \"2\" => a.join(\",\") };\nA: String = { \"a\" => \"A\".to_string() };\nAp: Vec<String> = { <x:A> => vec![x], <v:Ap> <e:A> => { let mut v = v; v.push(e); v } };\nU: Vec<String> = { \"z\" => vec![\"user-defined\".to_string()] };\n",
        &["a a 1", "z 2", "a a 2", "z 1"],
    ),
];

/// Values of the expansions on a compiled parser: `X*`/`X+` give the `Vec` of the items in input
/// order, `X?` an `Option`, a group the tuple (or single value) of its selected symbols, a macro
/// alternative is kept exactly when its condition holds. (input, expected `Debug` rendering or
/// "ERR" for a syntax error.)
const VALUES_GRAMMAR: &str = "grammar;\n\
Comma<T>: Vec<T> = { <mut v:(<T> \",\")*> <e:T?> => { v.extend(e); v } };\n\
Sel<T, X>: String = { <x:X> if T == \"a\" => format!(\"A({})\", x), <x:X> <y:X> if T != \"a\" => format!(\"N({},{})\", x, y), \"!\" <x:X> if T ~~ \"^[bc]$\" => format!(\"R({})\", x), \"?\" if T !~ \"b\" => format!(\"Q\") };\n\
pub S: String = {\n\
  \"list\" <v:Comma<Num>> => format!(\"{:?}\", v),\n\
  \"star\" <v:Num*> => format!(\"{:?}\", v),\n\
  \"plus\" <v:Num+> => format!(\"{:?}\", v),\n\
  \"opt\" <v:Num?> => format!(\"{:?}\", v),\n\
  \"grp\" <v:(<Num> \"-\" <Num>)+> => format!(\"{:?}\", v),\n\
  \"one\" <v:(\"(\" <Num> \")\")*> => format!(\"{:?}\", v),\n\
  \"all\" <v:(Num Num)?> => format!(\"{:?}\", v),\n\
  \"sela\" <a:Sel<\"a\", Num>> => a,\n\
  \"selb\" <a:Sel<\"b\", Num>> => a,\n\
  \"nest\" <v:Comma<Comma2<Num>>> => format!(\"{:?}\", v),\n\
};\n\
Comma2<T>: Vec<T> = { \"[\" <Comma<T>> \"]\" };\n\
Num: String = { r\"[0-9]+\" => <>.to_string() };\n";

const VALUES_CASES: &[(&str, &str)] = &[
    ("list", "[]"),
    ("list 1", "[\"1\"]"),
    ("list 1,", "[\"1\"]"),
    ("list 1, 2, 3", "[\"1\", \"2\", \"3\"]"),
    ("list 3, 2, 1,", "[\"3\", \"2\", \"1\"]"),
    ("list ,", "ERR"),
    ("star", "[]"),
    ("star 7", "[\"7\"]"),
    ("star 1 2 3 4", "[\"1\", \"2\", \"3\", \"4\"]"),
    ("plus", "ERR"),
    ("plus 9", "[\"9\"]"),
    ("plus 9 8 7", "[\"9\", \"8\", \"7\"]"),
    ("opt", "None"),
    ("opt 5", "Some(\"5\")"),
    ("opt 5 6", "ERR"),
    ("grp 1 - 2", "[(\"1\", \"2\")]"),
    ("grp 1 - 2 3 - 4", "[(\"1\", \"2\"), (\"3\", \"4\")]"),
    ("grp", "ERR"),
    ("one", "[]"),
    ("one ( 1 ) ( 2 )", "[\"1\", \"2\"]"),
    ("all", "None"),
    ("all 1 2", "Some((\"1\", \"2\"))"),
    ("sela 4", "A(4)"),
    ("sela 4 5", "ERR"),
    ("sela ! 4", "ERR"),
    ("sela ?", "Q"),
    ("selb 4 5", "N(4,5)"),
    ("selb 4", "ERR"),
    ("selb ! 4", "R(4)"),
    ("selb ?", "ERR"),
    ("nest [ 1, 2 ], [ ], [ 3 ]", "[[\"1\", \"2\"], [], [\"3\"]]"),
];

/// returns JSON objects: one per (witness, input) on which the real expansion and the hand
/// expansion disagree
fn compiled_witnesses(out: &std::path::Path) -> Result<Vec<String>, String> {
    let gen_dir = out.join("c13gen");
    let mut files: Vec<(String, String)> = vec![];
    let mut main = String::from("#![allow(unused)]\nfn show<T: std::fmt::Debug, E: std::fmt::Debug>(r: Result<String, lalrpop_util::ParseError<usize, T, E>>) -> String { match r { Ok(v) => format!(\"OK {v}\"), Err(e) => format!(\"ERR {}\", format!(\"{e:?}\").split(' ').next().unwrap_or(\"\")) } }\n");
    let mut body = String::from("fn main() {\n");
    for (i, (_, real, spec, inputs)) in WITNESSES.iter().enumerate() {
        for (v, text) in [(0, real), (1, spec)] {
            let stem = format!("w{i}v{v}");
            let code = generate_parser(&gen_dir, &stem, text, |_| {}).map_err(|e| format!("witness {i}/{v} rejected: {e}"))?;
            files.push((format!("src/{stem}.rs"), code));
            writeln!(main, "mod {stem};").unwrap();
            for (k, inp) in inputs.iter().enumerate() {
                writeln!(body, "    println!(\"{i} {v} {k} {{}}\", show({stem}::SParser::new().parse({inp:?})));").unwrap();
            }
        }
    }
    {
        let code = generate_parser(&gen_dir, "vals", VALUES_GRAMMAR, |_| {}).map_err(|e| format!("values grammar rejected: {e}"))?;
        files.push(("src/vals.rs".into(), code));
        writeln!(main, "mod vals;").unwrap();
        for (k, (inp, _)) in VALUES_CASES.iter().enumerate() {
            writeln!(body, "    println!(\"V 0 {k} {{}}\", show(vals::SParser::new().parse({inp:?})));").unwrap();
        }
    }
    body.push_str("}\n");
    main.push_str(&body);
    files.push(("src/main.rs".into(), main));
    let exe = build_scratch_crate(&out.join("c13crate"), "c13_witness", &files)?;
    let outp = std::process::Command::new(&exe).output().map_err(|e| e.to_string())?;
    let text = String::from_utf8_lossy(&outp.stdout).into_owned();
    let mut table = std::collections::BTreeMap::new();
    let mut vals = std::collections::BTreeMap::new();
    for line in text.lines() {
        let mut f = line.splitn(4, ' ');
        let (Some(i), Some(v), Some(k), Some(rest)) = (f.next(), f.next(), f.next(), f.next()) else { continue };
        if i == "V" {
            vals.insert(k.parse::<usize>().unwrap(), rest.to_string());
            continue;
        }
        table.insert((i.parse::<usize>().unwrap(), k.parse::<usize>().unwrap(), v.parse::<usize>().unwrap()), rest.to_string());
    }
    let mut res = vec![];
    for (i, (class, real, spec, inputs)) in WITNESSES.iter().enumerate() {
        for (k, inp) in inputs.iter().enumerate() {
            let a = table.get(&(i, k, 0)).cloned().unwrap_or_default();
            let b = table.get(&(i, k, 1)).cloned().unwrap_or_default();
            if a != b {
                res.push(format!(
                    "{{\"class\":{},\"input\":{},\"lalrpop_expansion\":{},\"expansion_by_substitution\":{},\"grammar\":{},\"grammar_expanded_by_hand\":{}}}",
                    json_str(class), json_str(inp), json_str(&a), json_str(&b), json_str(real), json_str(spec)
                ));
            }
        }
    }
    for (k, (inp, want)) in VALUES_CASES.iter().enumerate() {
        let got = vals.get(&k).cloned().unwrap_or_default();
        let want_s = if *want == "ERR" { None } else { Some(format!("OK {want}")) };
        let ok = match &want_s {
            Some(w) => &got == w,
            None => got.starts_with("ERR"),
        };
        if !ok {
            res.push(format!(
                "{{\"class\":\"values\",\"input\":{},\"lalrpop_expansion\":{},\"expected\":{},\"grammar\":{}}}",
                json_str(inp), json_str(&got), json_str(want), json_str(VALUES_GRAMMAR)
            ));
        }
    }
    Ok(res)
}

// ---------------------------------------------------------------- parameter shadowing (resolve)
/// Renaming a macro parameter must not change the expansion (the parameter is bound: `resolve`
/// looks a name up in the innermost scope first, and the expansion substitutes it). Each template
/// is rendered twice: with parameter names that are also global names (a bare terminal of the
/// extern enum, a global nonterminal) and with fresh names; `stage_dump(macro_expand)` of the two
/// must coincide. `\u{a7}0`, `\u{a7}1` stand for the parameters.
const SHADOW_TAIL: &str = "A: () = { \"a\" };\nB: () = { \"b\" };\nCc: () = { \"c\" A };\nSh1: () = { \"s1\" };\nSh2: () = { \"s2\" };\n\
extern { type Location = usize; type Error = (); enum Tok { ID => Tok::Id, NUM => Tok::Num } }\n";

const SHADOW_FIXED: &[&str] = &[
    "grammar;\nM<\u{a7}0>: () = { \"m\" \u{a7}0 };\npub S: () = { M<\"a\"> M<A> };\n",
    "grammar;\nM<\u{a7}0>: () = { \"m\" if \u{a7}0 == \"a\", \"n\" \u{a7}0 if \u{a7}0 != \"a\" };\npub S: () = { M<\"a\"> M<\"b\"> };\n",
    "grammar;\nM<\u{a7}0, \u{a7}1>: () = { (<\u{a7}0> \u{a7}1)* \u{a7}1? };\npub S: () = { M<A, \",\"> M<\"x\", B> };\n",
];

fn shadow_template(r: &mut Rng) -> String {
    let nts: Vec<String> = PLAIN_NTS.iter().map(|s| s.to_string()).collect();
    let mut g = Gen { r, macros: vec![], nts, adversarial: false };
    let mut text = String::from("grammar;\n");
    let names = ["M", "Comma", "W"];
    let nmac = 1 + g.r.below(3);
    for i in 0..nmac {
        let arity = 1 + g.r.below(2);
        let params: Vec<String> = (0..arity).map(|k| format!("\u{a7}{k}")).collect();
        let nalts = 1 + g.r.below(3);
        let alts: Vec<String> = (0..nalts).map(|_| g.alt(&params, i)).collect();
        writeln!(text, "{}<{}>: () = {{ {} }};", names[i], params.join(", "), alts.join(", ")).unwrap();
        g.macros.push(MacroDef { name: names[i].to_string(), params });
    }
    let alts: Vec<String> = (0..1 + g.r.below(2)).map(|_| g.alt(&[], nmac)).collect();
    writeln!(text, "pub S: () = {{ {} }};", alts.join(", ")).unwrap();
    text
}

/// (grammar with colliding parameter names, the same with fresh names, the two dumps) when they differ
fn shadow_case(template: &str, names: [&str; 2], h: &mut Hist) -> Option<String> {
    let render = |n0: &str, n1: &str| {
        format!("{}{}", template.replace("\u{a7}0", n0).replace("\u{a7}1", n1), SHADOW_TAIL)
    };
    let g1 = render(names[0], names[1]);
    let g2 = render("Fresh0", "Fresh1");
    let d1 = lalrpop::verif_hooks::stage_dump(&g1, None, "macro_expand");
    let d2 = lalrpop::verif_hooks::stage_dump(&g2, None, "macro_expand");
    if d2.starts_with("error parse") || d2.starts_with("error prevalidate") {
        h.hit("shadow:template-rejected");
        return None;
    }
    let stage = |d: &str| d.split(' ').take(2).collect::<Vec<_>>().join(" ");
    // error texts may mention the parameter name: errors are compared by the rejecting pass only
    let same = if d1.starts_with("ok ") || d2.starts_with("ok ") { d1 == d2 } else { stage(&d1) == stage(&d2) };
    h.hit(if d2.starts_with("ok ") { "shadow:compared-ok" } else { "shadow:compared-error" });
    if same {
        return None;
    }
    let msg = |d: &str| {
        if d.starts_with("ok ") { d.chars().take(1500).collect::<String>() } else {
            let m = d.split(' ').nth(2).and_then(dec_str).unwrap_or_default();
            format!("{} {m}", stage(d))
        }
    };
    Some(format!(
        "{{\"grammar_shadowing\":{},\"grammar_renamed\":{},\"macro_expand_shadowing\":{},\"macro_expand_renamed\":{}}}",
        json_str(&g1), json_str(&g2), json_str(&msg(&d1)), json_str(&msg(&d2))
    ))
}

fn canonical_error(line: &str) -> String {
    // error macro_expand x<hex>: cut the text of the regex crate
    if let Some(hexmsg) = line.strip_prefix("error macro_expand ") {
        if let Some(msg) = dec_str(hexmsg) {
            let pre = "invalid regular expression `";
            if msg.starts_with(pre) {
                if let Some(p) = msg[pre.len()..].find("`: ") {
                    let cut = &msg[..pre.len() + p + 3];
                    return format!("error macro_expand {}", enc_str(cut));
                }
            }
        }
    }
    line.to_string()
}

fn main() {
    let o = parse_opts();
    let mut r = Rng::new(o.seed);
    let mut h = Hist::default();
    let mut st = Streams::create(&o.out, "macro");
    let mut col = Streams::create(&o.out, "macrocol");
    let mut texts: Vec<String> = vec![];
    let mut distinct: BTreeSet<String> = BTreeSet::new();
    let mut nontrivial = 0usize;
    let mut case = |text: &str, st: &mut Streams, col: &mut Streams, h: &mut Hist, texts: &mut Vec<String>| {
        let pre = lalrpop::verif_hooks::stage_dump(text, None, "precedence");
        let Some(pre_sx) = pre.strip_prefix("ok ") else {
            h.hit(if pre.starts_with("error parse") { "rejected:parse" } else { "rejected:before-macro-expansion" });
            if std::env::var("VERIF_DEBUG").is_ok() {
                let why = pre.split(' ').nth(2).and_then(dec_str).unwrap_or_default();
                eprintln!("REJECTED {pre:.40} {why}\n{text}");
            }
            return;
        };
        let post = lalrpop::verif_hooks::stage_dump(text, None, "macro_expand");
        let imp = match post.strip_prefix("ok ") {
            Some(sx) => {
                h.hit("expanded:ok");
                format!("ok {}", strip_types(sx))
            }
            None => {
                h.hit("expanded:error");
                canonical_error(&post)
            }
        };
        st.case(&format!("macro 200 {pre_sx}"), &imp);
        col.case(&format!("collide 200 {pre_sx}"), "none");
        texts.push(text.to_string());
        let n_macro_uses = pre_sx.matches("(macro ").count();
        let n_repeat = pre_sx.matches("(repeat ").count();
        h.hit(&format!("macro-uses={}", n_macro_uses.min(8)));
        h.hit(&format!("repeats={}", n_repeat.min(8)));
        if pre_sx.contains("(cond ") {
            h.hit("has-condition");
        }
        if distinct.insert(pre_sx.to_string()) && (n_macro_uses > 0 || n_repeat > 0 || pre_sx.contains("(expr (")) {
            nontrivial += 1;
        }
    };
    for t in FIXED {
        case(t, &mut st, &mut col, &mut h, &mut texts);
    }
    for i in 0..o.n {
        let adversarial = i % 3 == 2;
        let t = gen_grammar(&mut r, adversarial);
        case(&t, &mut st, &mut col, &mut h, &mut texts);
    }
    let cases = st.count;
    st.finish();
    col.finish();
    // parameter shadowing leg
    let mut shadow: Vec<String> = vec![];
    let mut shadow_cases = 0usize;
    let name_sets: [[&str; 2]; 4] = [["ID", "NUM"], ["Sh1", "Sh2"], ["ID", "Sh1"], ["Sh2", "NUM"]];
    for t in SHADOW_FIXED {
        for ns in name_sets {
            shadow_cases += 1;
            if let Some(f) = shadow_case(t, ns, &mut h) {
                shadow.push(f);
            }
        }
    }
    for i in 0..o.n / 4 {
        let t = shadow_template(&mut r);
        shadow_cases += 1;
        if let Some(f) = shadow_case(&t, name_sets[i % 4], &mut h) {
            if shadow.len() < 6 {
                shadow.push(f);
            }
        }
    }
    let compiled = if o.extra.iter().any(|a| a == "--compiled") {
        match compiled_witnesses(&o.out) {
            Ok(v) => format!("[{}]", v.join(",")),
            Err(e) => format!("[{{\"class\":\"witness-build-failed\",\"stderr\":{}}}]", json_str(&e.chars().take(2000).collect::<String>())),
        }
    } else {
        "[]".to_string()
    };
    // the grammar texts, one per line (hex), aligned with the request streams
    let mut tf = String::new();
    for t in &texts {
        tf.push_str(&enc_str(t));
        tf.push('\n');
    }
    std::fs::write(o.out.join("macro.texts"), tf).unwrap();
    println!(
        "{{\"cases\":{cases},\"distinct_nontrivial\":{nontrivial},\"fixed\":{},\"value_cases\":{},\"hist\":{},\"compiled_witness_mismatches\":{compiled},\"shadow_cases\":{shadow_cases},\"shadow_mismatches\":[{}]}}",
        FIXED.len(),
        VALUES_CASES.len(),
        h.json(),
        shadow.join(",")
    );
}
