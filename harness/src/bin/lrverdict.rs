//! C03: verdicts of the real lalrpop ({lane table, canonical LR(1), LALR(1)}) on generated grammars,
//! written side by side with requests for `lpm_canon` (reference canonical LR(1) / LALR(1) in Lean).
//!
//! args: --seed S --n GRAMMARS --out DIR            generation run
//!       --replay FILE --out DIR                    one grammar (text without `#[LALR]`), all three algorithms
//!       ambig FILE                                 search a sentence with two derivations (prints one JSON line)
//!       lanelog FILE DIR                           lalrpop's debug log of the default (lane table) build of FILE
//!
//! Files written to DIR: lrverdict.req / lrverdict.impl (one line per request), lrverdict.meta (one line
//! per request: `<grammar #>\t<start>\t<algo>\t<kind>`), lrverdict.grammars (one JSON string per grammar #).
use std::collections::{BTreeMap, BTreeSet};
use std::io::Write;
use verif_harness::gram::*;
use verif_harness::lr::*;
use verif_harness::*;

fn set_algo(algo: &str) {
    // SAFETY: single-threaded
    unsafe {
        if algo == "lane" {
            std::env::remove_var("LALRPOP_LANE_TABLE");
        } else {
            std::env::set_var("LALRPOP_LANE_TABLE", "disabled");
        }
    }
}

// ---------------------------------------------------------------------------------------------
// generator: the shared CFG generator plus families aimed at state splitting / merged lookaheads

fn t(i: usize) -> S {
    S::T(i)
}
fn n(i: usize) -> S {
    S::N(i)
}

/// `N0 = p_i X_j q_ij` with all `X_j` deriving the same language: the LR(0) cores of the states
/// after the common body coincide across prefixes, so LALR merges what canonical LR(1) keeps apart.
fn lr1_family(r: &mut Rng) -> Cfg {
    let k = 2 + r.below(2); // prefixes
    let m = 2 + r.below(2); // reducers
    let pool = m + r.below(2); // suffix terminals
    let body_t = k + pool; // first body terminal
    let shape = r.below(7);
    let nterm = body_t + 3;
    let mut alts0 = vec![];
    // mostly: within one prefix the reducers get different suffixes (so canonical LR(1) can tell them
    // apart), across prefixes the assignment is rotated (so the LALR merge may mix them up)
    let distinct_suffixes = r.chance(3, 4);
    for i in 0..k {
        let rot = r.below(pool);
        for j in 0..m {
            if r.chance(5, 6) {
                let q = if distinct_suffixes && pool >= m { (j + rot) % pool } else { r.below(pool) };
                alts0.push(vec![t(i), n(1 + j), t(k + q)]);
            }
        }
    }
    if alts0.is_empty() {
        alts0.push(vec![t(0), n(1), t(k)]);
    }
    let mut nts = vec![alts0];
    for j in 0..m {
        let me = n(1 + j);
        let e = t(body_t);
        let f = t(body_t + 1);
        let g = t(body_t + 2);
        nts.push(match shape {
            0 => vec![vec![e]],
            1 => vec![vec![e.clone(), me], vec![e]],          // right recursion (lane-table paper G1)
            2 => vec![vec![me, e.clone()], vec![e]],          // left recursion
            3 => vec![vec![e, f]],
            4 => vec![vec![f, me, g], vec![e]],               // nesting
            5 => vec![vec![e.clone(), me], vec![]],           // ε body
            _ => vec![vec![e.clone(), f], vec![e, g]],
        });
    }
    Cfg { nts, nterm, pubs: vec![0], lalr: false, origin: format!("lr1-family{shape}") }
}

/// grammars of lalrpop's own lane-table tests (lr1/lane_table/test.rs)
fn lane_paper(r: &mut Rng) -> Cfg {
    match r.below(4) {
        0 => Cfg {
            // paper_example_g0: G = X "c" | Y "d"; X = "e" X | "e"; Y = "e" Y | "e"
            nts: vec![
                vec![vec![n(1), t(0)], vec![n(2), t(1)]],
                vec![vec![t(2), n(1)], vec![t(2)]],
                vec![vec![t(2), n(2)], vec![t(2)]],
            ],
            nterm: 3,
            pubs: vec![0],
            lalr: false,
            origin: "lane-paper-g0".into(),
        },
        1 => Cfg {
            // paper_example_g1
            nts: vec![
                vec![vec![t(0), n(1), t(3)], vec![t(0), n(2), t(2)], vec![t(1), n(1), t(2)], vec![t(1), n(2), t(3)]],
                vec![vec![t(4), n(1)], vec![t(4)]],
                vec![vec![t(4), n(2)], vec![t(4)]],
            ],
            nterm: 5,
            pubs: vec![0],
            lalr: false,
            origin: "lane-paper-g1".into(),
        },
        2 => Cfg {
            // example_g2
            nts: vec![
                vec![vec![t(0), n(1), t(3)], vec![t(0), n(2), t(2)], vec![t(1), n(1), t(2)], vec![t(1), n(2), t(3)]],
                vec![vec![t(4)]],
                vec![vec![t(4)]],
            ],
            nterm: 5,
            pubs: vec![0],
            lalr: false,
            origin: "lane-paper-g2".into(),
        },
        _ => {
            // paper_example_large; terminals: x0 y1 z2 u3 a4 t5 b6 r7 d8 k9 s10 c11 v12 w13
            // nonterminals: G0 W1 V2 X3 Y4 U5 E6 C7 P8
            let (x, y, z, u, a, tt, b, rr, d, k, s, c, v, w) = (0, 1, 2, 3, 4, 5, 6, 7, 8, 9, 10, 11, 12, 13);
            Cfg {
                nts: vec![
                    vec![
                        vec![t(x), n(1), t(a)],
                        vec![t(x), n(2), t(tt)],
                        vec![t(y), n(1), t(b)],
                        vec![t(y), n(2), t(tt)],
                        vec![t(z), n(1), t(rr)],
                        vec![t(z), n(2), t(b)],
                        vec![t(u), n(5), n(3), t(a)],
                        vec![t(u), n(5), n(4), t(rr)],
                    ],
                    vec![vec![n(5), n(3), n(7)]],
                    vec![vec![n(5), n(4), t(d)]],
                    vec![vec![t(k), t(tt), n(5), n(3), n(8)], vec![t(k), t(tt)]],
                    vec![vec![t(k), t(tt), n(5), n(4), t(u)], vec![t(k), t(tt)]],
                    vec![vec![n(5), t(k), t(tt)], vec![t(s)]],
                    vec![vec![t(a)], vec![t(b)], vec![t(c)], vec![t(v)]],
                    vec![vec![t(c)], vec![t(w)]],
                    vec![vec![t(z)]],
                ],
                nterm: 14,
                pubs: vec![0],
                lalr: false,
                origin: "lane-paper-large".into(),
            }
        }
    }
}

fn random_sym(r: &mut Rng, nnt: usize, nterm: usize) -> S {
    if r.chance(3, 5) { S::T(r.below(nterm)) } else { S::N(r.below(nnt)) }
}

fn mutate(r: &mut Rng, g: &mut Cfg) {
    let nnt = g.nts.len();
    let i = r.below(nnt);
    match r.below(7) {
        0 => {
            let len = r.below(4);
            let alt = (0..len).map(|_| random_sym(r, nnt, g.nterm)).collect();
            g.nts[i].push(alt);
        }
        1 => {
            let k = r.below(g.nts[i].len());
            if !g.nts[i][k].is_empty() {
                let j = r.below(g.nts[i][k].len());
                g.nts[i][k].remove(j);
            }
        }
        2 => {
            let k = r.below(g.nts[i].len());
            let j = r.below(g.nts[i][k].len() + 1);
            let s = random_sym(r, nnt, g.nterm);
            g.nts[i][k].insert(j, s);
        }
        3 => {
            let k = r.below(g.nts[i].len());
            if !g.nts[i][k].is_empty() {
                let j = r.below(g.nts[i][k].len());
                g.nts[i][k][j] = random_sym(r, nnt, g.nterm);
            }
        }
        4 => {
            if g.nts[i].len() > 1 {
                let k = r.below(g.nts[i].len());
                g.nts[i].remove(k);
            }
        }
        5 => {
            // an ε alternative
            g.nts[i].push(vec![]);
        }
        _ => {
            // swap two terminals everywhere in one nonterminal (moves lookaheads between contexts)
            if g.nterm > 1 {
                let (a, b) = (r.below(g.nterm), r.below(g.nterm));
                for s in g.nts[i].iter_mut().flatten() {
                    if let S::T(x) = s {
                        if *x == a {
                            *x = b
                        } else if *x == b {
                            *x = a
                        }
                    }
                }
            }
        }
    }
}

/// adds nonterminals that are unreachable and/or unproductive
fn add_useless(r: &mut Rng, g: &mut Cfg) {
    let nnt = g.nts.len();
    if nnt >= 9 {
        return;
    }
    let new = nnt;
    match r.below(4) {
        0 => {
            // unreachable, productive
            let len = 1 + r.below(3);
            let alt: Vec<S> = (0..len).map(|_| random_sym(r, nnt + 1, g.nterm)).collect();
            g.nts.push(vec![alt, vec![S::T(r.below(g.nterm))]]);
            g.origin.push_str("+unreachable");
        }
        1 => {
            // unreachable and unproductive
            g.nts.push(vec![vec![S::N(new), S::T(r.below(g.nterm))]]);
            g.origin.push_str("+unreachable-unproductive");
        }
        2 => {
            // reachable, unproductive (only recursive alternatives), used in a new alternative
            g.nts.push(vec![vec![S::T(r.below(g.nterm)), S::N(new)], vec![S::N(new), S::T(r.below(g.nterm))]]);
            let i = r.below(nnt);
            let len = r.below(3);
            let mut alt: Vec<S> = (0..len).map(|_| random_sym(r, nnt, g.nterm)).collect();
            let j = r.below(alt.len() + 1);
            alt.insert(j, S::N(new));
            g.nts[i].push(alt);
            g.origin.push_str("+unproductive");
        }
        _ => {
            // reachable, unproductive, spliced into an existing alternative
            g.nts.push(vec![vec![S::T(r.below(g.nterm)), S::N(new)]]);
            let i = r.below(nnt);
            let k = r.below(g.nts[i].len());
            let j = r.below(g.nts[i][k].len() + 1);
            g.nts[i][k].insert(j, S::N(new));
            g.origin.push_str("+unproductive-spliced");
        }
    }
}

type Decor = BTreeMap<(usize, usize, usize), &'static str>;

/// `.lalrpop` text; `decor` puts `?`, `*`, `+` after chosen symbols (expanded by lalrpop's macro
/// expansion into extra nonterminals with ε / recursive productions); `inline` marks nonterminals
/// `#[inline]`
fn render(g: &Cfg, decor: &Decor, inline: &BTreeSet<usize>) -> String {
    let mut s = String::new();
    if g.lalr {
        s.push_str("#[LALR]\n");
    }
    s.push_str("grammar;\n");
    for (i, alts) in g.nts.iter().enumerate() {
        if inline.contains(&i) {
            s.push_str("#[inline]\n");
        }
        let vis = if g.pubs.contains(&i) { "pub " } else { "" };
        s.push_str(&format!("{vis}N{i}: () = {{\n"));
        for (k, alt) in alts.iter().enumerate() {
            let body: Vec<String> = alt
                .iter()
                .enumerate()
                .map(|(j, x)| {
                    let base = match x {
                        S::T(t) => format!("\"{}\"", term_name(*t)),
                        S::N(n) => format!("N{n}"),
                        S::Bang => "!".to_string(),
                    };
                    format!("{}{}", base, decor.get(&(i, k, j)).copied().unwrap_or(""))
                })
                .collect();
            s.push_str(&format!("    {} => (),\n", body.join(" ")));
        }
        s.push_str("};\n");
    }
    s
}

fn term_name(i: usize) -> String {
    let names = ["a", "b", "c", "d", "e", "f", "g", "h", "i", "j", "k", "l", "m", "o", "p", "q"];
    names[i % names.len()].to_string()
}

struct Generated {
    cfg: Cfg,
    decor: Decor,
    inline: BTreeSet<usize>,
}

fn gen_one(r: &mut Rng) -> Generated {
    let stream = r.below(20);
    let mut g = match stream {
        0..=8 => {
            let bang = r.chance(1, 5);
            gen_cfg(r, bang)
        }
        9..=13 => lr1_family(r),
        14..=16 => lane_paper(r),
        _ => {
            // a second draw of the shared generator, always mutated below
            gen_cfg(r, false)
        }
    };
    // mutations of the structured families: this is what reaches state splitting / merged lookaheads
    if stream >= 9 {
        let k = match r.below(4) {
            0 => 0,
            1 => 1,
            2 => 2,
            _ => 1 + r.below(4),
        };
        for _ in 0..k {
            mutate(r, &mut g);
        }
        if k > 0 {
            g.origin = format!("{}+mut", g.origin);
        }
    }
    if r.chance(1, 5) {
        add_useless(r, &mut g);
    }
    if g.nts.len() > 1 && g.pubs.len() == 1 && r.chance(1, 10) {
        let k = 1 + r.below(g.nts.len() - 1);
        g.pubs.push(k);
    }
    let mut decor = Decor::new();
    if r.chance(1, 7) {
        for (i, alts) in g.nts.iter().enumerate() {
            for (k, alt) in alts.iter().enumerate() {
                for (j, x) in alt.iter().enumerate() {
                    if *x != S::Bang && r.chance(1, 6) {
                        decor.insert((i, k, j), *r.pick(&["?", "*", "+"]));
                    }
                }
            }
        }
        if !decor.is_empty() {
            g.origin.push_str("+repeat");
        }
    }
    let mut inline = BTreeSet::new();
    if r.chance(1, 10) && g.nts.len() > 1 {
        let k = 1 + r.below(g.nts.len() - 1);
        // (lalrpop rejects `#[inline]` on recursive or public nonterminals with a normalize error:
        //  counted as `export:normalize-error`)
        if !g.pubs.contains(&k) {
            inline.insert(k);
            g.origin.push_str("+inline");
        }
    }
    Generated { cfg: g, decor, inline }
}

// ---------------------------------------------------------------------------------------------
// facts about the exported (normalized) grammar

struct Facts {
    eps: bool,
    left_rec: bool,
    right_rec: bool,
    unreachable: bool,
    unproductive: bool,
}

fn sym_nt(s: &str) -> Option<usize> {
    s.strip_prefix('n').and_then(|x| x.parse().ok())
}

fn facts(g: &ExpGrammar, start_nt: usize) -> Facts {
    let nnt = g.nonterminals.len();
    let eps = g.prods.iter().any(|(_, r)| r.is_empty());
    let left_rec = g.prods.iter().any(|(l, r)| r.first().and_then(|s| sym_nt(s)) == Some(*l));
    let right_rec = g.prods.iter().any(|(l, r)| r.len() > 1 && r.last().and_then(|s| sym_nt(s)) == Some(*l));
    let mut reach = vec![false; nnt];
    reach[start_nt] = true;
    let mut productive = vec![false; nnt];
    loop {
        let mut ch = false;
        for (l, r) in &g.prods {
            if reach[*l] {
                for s in r {
                    if let Some(b) = sym_nt(s) {
                        if !reach[b] {
                            reach[b] = true;
                            ch = true;
                        }
                    }
                }
            }
            if !productive[*l] && r.iter().all(|s| sym_nt(s).is_none_or(|b| productive[b])) {
                productive[*l] = true;
                ch = true;
            }
        }
        if !ch {
            break;
        }
    }
    // other synthesized start symbols (`__N3`) are unreachable by construction: not counted
    let user = |i: usize| !g.nonterminals[i].starts_with("__");
    Facts {
        eps,
        left_rec,
        right_rec,
        unreachable: (0..nnt).any(|i| user(i) && !reach[i]),
        unproductive: (0..nnt).any(|i| !productive[i]),
    }
}

/// does some state of the exported automaton need its lookahead (a reduction next to another action)?
fn needs_lookahead(body: &str) -> bool {
    let mut red = 0;
    let mut other = 0;
    for e in body.split('|') {
        if e.starts_with("state") {
            if red > 1 || (red == 1 && other > 0) {
                return true;
            }
            red = 0;
            other = 0;
        } else if e.starts_with("reduce") {
            red += 1;
        } else if e.starts_with("shift") {
            other += 1;
        }
    }
    red > 1 || (red == 1 && other > 0)
}

// ---------------------------------------------------------------------------------------------
// ambiguity search (only run on a disagreement "lalrpop accepts, reference has a conflict")

/// two different derivation trees of `start` with the same yield, by bottom-up enumeration of all
/// trees with yields up to `max_len` tokens
fn find_ambiguity(g: &ExpGrammar, start_nt: usize, max_len: usize, cap: usize) -> Option<(Vec<String>, String, String)> {
    let nnt = g.nonterminals.len();
    // per nonterminal: yield -> up to two distinct trees
    let mut tab: Vec<BTreeMap<Vec<usize>, Vec<String>>> = vec![BTreeMap::new(); nnt];
    for _round in 0..(max_len + nnt + 2) {
        let mut changed = false;
        for (p, (lhs, rhs)) in g.prods.iter().enumerate() {
            // all ways to derive from rhs
            let mut partial: Vec<(Vec<usize>, String)> = vec![(vec![], format!("({p}"))];
            for s in rhs {
                let mut next = vec![];
                if let Some(b) = sym_nt(s) {
                    for (y, tr) in &partial {
                        for (y2, trees) in &tab[b] {
                            if y.len() + y2.len() > max_len {
                                continue;
                            }
                            for t2 in trees {
                                let mut yy = y.clone();
                                yy.extend(y2);
                                next.push((yy, format!("{tr} {t2}")));
                                if next.len() > cap {
                                    break;
                                }
                            }
                        }
                    }
                } else {
                    let a: usize = s[1..].parse().unwrap();
                    for (y, tr) in &partial {
                        if y.len() + 1 > max_len {
                            continue;
                        }
                        let mut yy = y.clone();
                        yy.push(a);
                        next.push((yy, format!("{tr} t{a}")));
                    }
                }
                partial = next;
                if partial.is_empty() {
                    break;
                }
            }
            for (y, tr) in partial {
                let tr = format!("{tr})");
                if tab[*lhs].len() >= cap && !tab[*lhs].contains_key(&y) {
                    continue;
                }
                let e = tab[*lhs].entry(y).or_default();
                if e.len() < 2 && !e.contains(&tr) {
                    e.push(tr);
                    changed = true;
                }
            }
        }
        if let Some((y, trees)) = tab[start_nt].iter().find(|(_, v)| v.len() > 1) {
            let names = y.iter().map(|a| g.terminals[*a].clone()).collect();
            return Some((names, trees[0].clone(), trees[1].clone()));
        }
        if !changed {
            break;
        }
    }
    None
}

// ---------------------------------------------------------------------------------------------

#[derive(Clone)]
enum V {
    Accept(ExpAutomaton),
    Conflict(#[allow(dead_code)] usize),
}

struct AlgoRun {
    grammar: ExpGrammar,
    per_start: BTreeMap<String, V>,
    generated: Result<String, String>,
}

fn run_algo(text: &str, algo: &str, gen_dir: &std::path::Path) -> Result<AlgoRun, String> {
    set_algo(algo);
    match parse_export(&lalrpop::verif_hooks::export_automaton(text, None)) {
        Export::ParseError => Err("parse-error".into()),
        Export::NormalizeError(m) => Err(format!("normalize-error:{}", m.split(' ').take(4).collect::<Vec<_>>().join(" "))),
        Export::Ok { grammar, automata, conflicts } => {
            let mut per_start = BTreeMap::new();
            for a in automata {
                per_start.insert(a.user_start.clone(), V::Accept(a));
            }
            for (s, k) in conflicts {
                per_start.insert(s, V::Conflict(k));
            }
            let generated = generate_parser(gen_dir, "g", text, |_| {});
            Ok(AlgoRun { grammar, per_start, generated })
        }
    }
}

fn start_prod_of(g: &ExpGrammar, user: &str) -> Option<(usize, usize)> {
    let nt = g.nonterminals.iter().position(|x| *x == format!("__{user}"))?;
    let p = g.prods.iter().position(|(l, _)| *l == nt)?;
    Some((nt, p))
}

fn main() {
    let args: Vec<String> = std::env::args().collect();
    if args.get(1).map(|s| s.as_str()) == Some("ambig") {
        let text = std::fs::read_to_string(&args[2]).unwrap();
        set_algo("lr1");
        let mut out = vec![];
        if let Export::Ok { grammar, .. } = parse_export(&lalrpop::verif_hooks::export_automaton(&text, None)) {
            for (i, name) in grammar.nonterminals.iter().enumerate() {
                if let Some(user) = name.strip_prefix("__") {
                    if let Some(user_nt) = grammar.nonterminals.iter().position(|x| x == user) {
                        let _ = i;
                        if let Some((y, t1, t2)) = find_ambiguity(&grammar, user_nt, 9, 4000) {
                            out.push(format!(
                                "{{\"start\":{},\"sentence\":{},\"tree1\":{},\"tree2\":{}}}",
                                json_str(user),
                                json_str(&y.join(" ")),
                                json_str(&t1),
                                json_str(&t2)
                            ));
                        }
                    }
                }
            }
        }
        println!("[{}]", out.join(","));
        return;
    }
    if args.get(1).map(|s| s.as_str()) == Some("lanelog") {
        // lalrpop's own debug log (stdout) of the lane-table construction for FILE; the caller greps it
        // for the step that gave up (`rows: intra-row conflict` / `Merge::walk: failed to union`)
        let text = std::fs::read_to_string(&args[2]).unwrap();
        set_algo("lane");
        let dir = std::path::PathBuf::from(&args[3]);
        let res = generate_parser(&dir, "lanelog", &text, |cfg| {
            cfg.log_debug();
        });
        println!("LANELOG-RESULT {}", if res.is_ok() { "accepted" } else { "rejected" });
        return;
    }
    let o = parse_opts();
    if std::env::var("VERIF_LOUD").is_err() {
        std::panic::set_hook(Box::new(|_| {}));
    }
    let mut st = Streams::create(&o.out, "lrverdict");
    let mut meta = std::io::BufWriter::new(std::fs::File::create(o.out.join("lrverdict.meta")).unwrap());
    let mut gfile = std::io::BufWriter::new(std::fs::File::create(o.out.join("lrverdict.grammars")).unwrap());
    let mut h = Hist::default();
    let mut r = Rng::new(o.seed);
    let gen_dir = o.out.join("gen");
    let mut samples: Vec<String> = vec![];
    let mut distinct: BTreeSet<String> = BTreeSet::new();
    let mut distinct_nontrivial: BTreeSet<String> = BTreeSet::new();
    let mut api_mismatch: Vec<String> = vec![];
    let mut extract_fail: Vec<String> = vec![];
    let mut grammar_differs: Vec<String> = vec![];
    let mut lr1_not_lalr_samples: Vec<String> = vec![];
    let replay_text = o.replay.as_ref().map(|p| std::fs::read_to_string(p).unwrap());
    let total = if replay_text.is_some() { 1 } else { o.n };
    let mut evaluations = 0usize;
    for gi in 0..total {
        // the three texts differ only in the `#[LALR]` attribute
        let (text_plain, text_lalr, origin) = match &replay_text {
            Some(t) => {
                let plain = t.replace("#[LALR]\n", "");
                (plain.clone(), format!("#[LALR]\n{plain}"), "replay".to_string())
            }
            None => {
                let g = gen_one(&mut r);
                let mut c = g.cfg.clone();
                c.lalr = false;
                let plain = render(&c, &g.decor, &g.inline);
                c.lalr = true;
                (plain, render(&c, &g.decor, &g.inline), g.cfg.origin.clone())
            }
        };
        writeln!(gfile, "{}", json_str(&text_plain)).unwrap();
        let family = origin.split('+').next().unwrap().to_string();
        h.hit(&format!("origin:{family}"));
        for tag in origin.split('+').skip(1) {
            if !tag.starts_with("mut") {
                h.hit(&format!("decoration:{tag}"));
            } else {
                h.hit("decoration:mutated");
            }
        }
        let mut runs: BTreeMap<&str, AlgoRun> = BTreeMap::new();
        let mut failed = false;
        for algo in ["lane", "lr1", "lalr"] {
            let text = if algo == "lalr" { &text_lalr } else { &text_plain };
            match run_algo(text, algo, &gen_dir) {
                Ok(run) => {
                    runs.insert(algo, run);
                }
                Err(e) => {
                    h.hit(&format!("export:{e}"));
                    failed = true;
                    break;
                }
            }
        }
        if failed {
            continue;
        }
        // same normalized grammar under the three configurations
        let base = &runs["lane"].grammar;
        for algo in ["lr1", "lalr"] {
            let g = &runs[algo].grammar;
            if g.prods != base.prods || g.terminals != base.terminals || g.nonterminals != base.nonterminals {
                grammar_differs.push(format!("{algo}\n{text_plain}"));
            }
        }
        // `Configuration::process_file` fails exactly when some start symbol has conflicts
        for algo in ["lane", "lr1", "lalr"] {
            let run = &runs[algo];
            let all_ok = run.per_start.values().all(|v| matches!(v, V::Accept(_)));
            evaluations += 1;
            h.hit(&format!("grammar-verdict:{}:{}", algo, if all_ok { "accepted" } else { "rejected" }));
            if run.generated.is_ok() != all_ok {
                api_mismatch.push(format!(
                    "{algo}: process_file {} but export says conflict-free={all_ok}\n{}",
                    match &run.generated {
                        Ok(_) => "succeeded".to_string(),
                        Err(e) => format!("failed ({})", e.chars().take(200).collect::<String>()),
                    },
                    if algo == "lalr" { &text_lalr } else { &text_plain }
                ));
            }
        }
        let starts: Vec<String> = runs["lane"].per_start.keys().cloned().collect();
        for user in &starts {
            let Some((start_nt, start_prod)) = start_prod_of(base, user) else {
                grammar_differs.push(format!("no start production for {user}\n{text_plain}"));
                continue;
            };
            let user_nt = base.nonterminals.iter().position(|x| x == user).unwrap_or(start_nt);
            let mut case = |req: &str, imp: &str, algo: &str, kind: &str| {
                st.case(req, imp);
                writeln!(meta, "{gi}\t{user}\t{algo}\t{kind}").unwrap();
            };
            let gline = base.line(start_prod);
            case(&gline, "ok", "-", "grammar");
            let verdict = |algo: &str| match runs[algo].per_start.get(user) {
                Some(V::Accept(_)) => "ok",
                Some(V::Conflict(_)) => "conflict",
                None => "missing",
            };
            let (vl, v1, v2) = (verdict("lane"), verdict("lr1"), verdict("lalr"));
            h.hit(&format!("verdict:lane:{vl}"));
            h.hit(&format!("verdict:lr1:{v1}"));
            h.hit(&format!("verdict:lalr:{v2}"));
            let class = match (v1, v2) {
                ("ok", "ok") => "LALR(1)",
                ("ok", _) => "LR(1)-not-LALR(1)",
                _ => "not-LR(1)",
            };
            h.hit(&format!("class:{class}"));
            h.hit(&format!("class-by-origin:{family}:{class}"));
            if class == "LR(1)-not-LALR(1)" && lr1_not_lalr_samples.len() < 2 && family != "lr1-not-lalr" {
                lr1_not_lalr_samples.push(text_plain.clone());
            }
            let f = facts(base, start_nt);
            for (name, on) in [
                ("epsilon-production", f.eps),
                ("left-recursion", f.left_rec),
                ("right-recursion", f.right_rec),
                ("unreachable-nonterminal", f.unreachable),
                ("unproductive-nonterminal", f.unproductive),
            ] {
                if on {
                    h.hit(&format!("feature:{name}"));
                    h.hit(&format!("feature:{name}:{class}"));
                }
            }
            let _ = user_nt;
            let fresh = distinct.insert(gline.clone());
            let nontrivial = v1 != "ok"
                || v2 != "ok"
                || matches!(runs["lr1"].per_start.get(user), Some(V::Accept(a)) if needs_lookahead(&a.body));
            if fresh && nontrivial {
                distinct_nontrivial.insert(gline.clone());
            }
            // --- the verdicts
            case("verdict lr1 algo=lane", vl, "lane", "verdict");
            case("verdict lr1 algo=lr1", v1, "lr1", "verdict");
            case("verdict lalr algo=lalr", v2, "lalr", "verdict");
            // --- the reference automata are themselves validated parsers
            case("selfcheck lr1", if v1 == "ok" { "valid" } else { "-" }, "lr1", "selfcheck");
            case("selfcheck lalr", if v2 == "ok" { "valid" } else { "-" }, "lalr", "selfcheck");
            // --- what lalrpop accepted: same construction ⇒ same automaton; emitted tables validate
            for algo in ["lane", "lr1", "lalr"] {
                let run = &runs[algo];
                let Some(V::Accept(a)) = run.per_start.get(user) else { continue };
                if algo != "lane" {
                    case(&format!("states {algo}"), &a.nstates.to_string(), algo, "states");
                } else if let Some(V::Accept(a1)) = runs["lr1"].per_start.get(user) {
                    h.hit(match a.nstates.cmp(&a1.nstates) {
                        std::cmp::Ordering::Less => "lane-states:fewer-than-canonical",
                        std::cmp::Ordering::Equal => "lane-states:same-as-canonical",
                        std::cmp::Ordering::Greater => "lane-states:more-than-canonical",
                    });
                }
                case(&format!("automaton states={} {}", a.nstates, a.body), "ok", algo, "load");
                if algo != "lane" {
                    case(&format!("iso {algo}"), "iso", algo, "iso");
                }
                if let Ok(gen_text) = &run.generated {
                    match extract_tables(gen_text, user, base.nonterminals.len()) {
                        Ok(tables) => {
                            case(&tables.line(), "ok", algo, "load");
                            case("validate", "valid", algo, "validate");
                            h.hit(&format!("validated-output:{algo}"));
                        }
                        Err(e) => extract_fail.push(format!("{algo}: {e}\n{text_plain}")),
                    }
                }
            }
            if samples.len() < 3 && nontrivial {
                samples.push(format!("{text_plain}// verdicts: lane={vl} lr1={v1} lalr={v2}"));
            }
        }
    }
    let cases = st.count;
    st.finish();
    meta.flush().unwrap();
    gfile.flush().unwrap();
    let _ = std::fs::remove_dir_all(&gen_dir);
    let js = |v: &Vec<String>| v.iter().map(|s| json_str(s)).collect::<Vec<_>>().join(",");
    println!(
        "{{\"cases\":{},\"grammars\":{},\"evaluations\":{},\"distinct\":{},\"distinct_nontrivial\":{},\"api_mismatch\":[{}],\"extract_fail\":[{}],\"grammar_differs\":[{}],\"samples\":[{}],\"lr1_not_lalr_samples\":[{}],\"hist\":{}}}",
        cases,
        total,
        evaluations,
        distinct.len(),
        distinct_nontrivial.len(),
        js(&api_mismatch),
        js(&extract_fail),
        js(&grammar_differs),
        js(&samples),
        js(&lr1_not_lalr_samples),
        h.json()
    );
}
