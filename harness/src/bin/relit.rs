//! C10: literal and regex terminals match exactly their language.
//!
//! Streams (request / real implementation answer; the Lean answers come from `lpm_relit`):
//!   esc      `escape <s>`            regex_syntax::escape
//!   plit     `parselit <s>`          HIR of `parse_literal(s)`
//!   dbg      `escdebug <s> <flags>`  the text between the quotes of `format!("{s:?}")`
//!   rer      `matchall | <hir> | <w>…`  the `regex` crate on the ORIGINAL regex text, per word
//!   readstr  `readstr <text>`        what rustc makes of the quoted text (with `--rustc`: a scratch crate of constants)
//! and direct property checks written to findings.jsonl:
//!   * re-rendering: regex crate on `r`  ==  regex crate on `format!("{hir}")`  ==  runtime MatcherBuilder on it,
//!     on all strings of length <= 4 over an alphabet drawn from the regex's own classes, plus samples;
//!   * literals: `parse_literal(s)` rendered, in the runtime matcher, matches `s` and none of its one-edit neighbours.
#[path = "../lexgen.rs"]
mod lexgen;
use lalrpop::verif_hooks::lex as hooks;
use lalrpop_util::lexer::MatcherBuilder;
use lexgen::*;
use std::collections::BTreeSet;
use std::io::Write;
use verif_harness::*;

fn runtime_full_match(b: &MatcherBuilder, w: &str) -> bool {
    let mut m = b.matcher::<()>(w);
    matches!(m.next(), Some(Ok((0, _, e))) if e == w.len())
}

fn strange_string(r: &mut Rng) -> String {
    let pool: &[char] = &[
        'a', 'Z', '0', ' ', '"', '\'', '\\', '\n', '\r', '\t', '\0', '\u{7f}', '\u{85}', '\u{a0}', '\u{ad}', 'é', '\u{301}',
        '\u{200d}', '\u{e000}', '\u{fffd}', '\u{10ffff}', '😀', '\u{1f3fb}', '{', '}', 'u', 'x', '\u{1b}', '\u{2028}', '\u{fe0f}',
        'λ', '\u{d7ff}', '\u{300}',
    ];
    let n = r.below(7);
    (0..n).map(|_| *r.pick(pool)).collect()
}

/// `Option<bool>` as JSON (`true` / `false` / `null`)
fn jopt(v: Option<bool>) -> &'static str {
    match v {
        Some(true) => "true",
        Some(false) => "false",
        None => "null",
    }
}

fn main() {
    let o = parse_opts();
    let with_rustc = o.extra.iter().any(|a| a == "--rustc");
    let mut h = Hist::default();
    let mut r = Rng::new(o.seed);
    let mut findings = std::io::BufWriter::new(std::fs::File::create(o.out.join("findings.jsonl")).unwrap());
    let mut n_findings = 0u64;

    // ------------------------------------------------------------ literals: escape, parse_literal, neighbours
    let mut esc = Streams::create(&o.out, "esc");
    let mut plit = Streams::create(&o.out, "plit");
    let mut lits: Vec<String> = vec![
        "".into(), "a".into(), "+".into(), "a.c".into(), "\\".into(), "é".into(), "-".into(), "#&~".into(), "[a-z]*".into(),
        "😀".into(), "a b".into(), "\t\n".into(), "(?i)x".into(), "\\d+".into(), "$^".into(), "{2}".into(),
    ];
    let full = GenCfg::full();
    for _ in 0..o.n {
        lits.push(if r.chance(1, 5) { strange_string(&mut r) } else { gen_literal(&mut r, &full) });
    }
    let mut quoted_texts: Vec<(String, String)> = vec![]; // (string, its {:?} form)
    let (mut lit_cases, mut neighbour_checks) = (0u64, 0u64);
    let mut lit_nontrivial: BTreeSet<String> = BTreeSet::new();
    let subst_pool = ['a', 'b', '.', '\\', 'é', 'A', ' ', '+'];
    for s in &lits {
        esc.case(&format!("escape {}", enc_str(s)), &enc_str(&hooks::regex_escape(s)));
        plit.case(&format!("parselit {}", enc_str(s)), &hooks::hir_dump(s, true));
        if s.is_empty() {
            continue;
        }
        let Some((re, quoted)) = hooks::rendered_regex(s, true) else {
            writeln!(findings, "{{\"kind\":\"literal-does-not-parse\",\"literal\":{}}}", json_str(s)).unwrap();
            n_findings += 1;
            continue;
        };
        quoted_texts.push((re.clone(), quoted));
        lit_cases += 1;
        if s.chars().any(|c| META_CHARS.contains(&c)) || !s.is_ascii() {
            lit_nontrivial.insert(s.clone());
        }
        // one-edit neighbours
        let cs: Vec<char> = s.chars().collect();
        let mut words: Vec<String> = vec![s.clone(), String::new()];
        for i in 0..cs.len() {
            let mut d = cs.clone();
            d.remove(i);
            words.push(d.iter().collect());
            for k in 0..3 {
                let c = subst_pool[(i + k + r.below(8)) % subst_pool.len()];
                if c != cs[i] {
                    let mut t = cs.clone();
                    t[i] = c;
                    words.push(t.iter().collect());
                }
            }
            if cs[i].is_alphabetic() {
                let mut t = cs.clone();
                let sw: Vec<char> = if cs[i].is_uppercase() { cs[i].to_lowercase().collect() } else { cs[i].to_uppercase().collect() };
                if sw.len() == 1 && sw[0] != cs[i] {
                    t[i] = sw[0];
                    words.push(t.iter().collect());
                }
            }
        }
        for i in 0..=cs.len() {
            for k in 0..2 {
                let mut t = cs.clone();
                t.insert(i, subst_pool[(i + k) % subst_pool.len()]);
                words.push(t.iter().collect());
            }
        }
        let refs: Vec<&str> = words.iter().map(|w| w.as_str()).collect();
        let by_regex = hooks::regex_full_match(&re, &refs);
        let builder = MatcherBuilder::new([(re.as_str(), false)]);
        for (wi, w) in words.iter().enumerate() {
            neighbour_checks += 1;
            let expect = w == s;
            let a = by_regex.as_ref().map(|v| v[wi]);
            let c = match (&builder, w.is_empty()) {
                (Ok(b), false) => Some(runtime_full_match(b, w)),
                _ => None,
            };
            if a.map_or(true, |x| x != expect) || c.map_or(false, |x| x != expect) {
                writeln!(
                    findings,
                    "{{\"kind\":\"literal-matches-wrong-string\",\"literal\":{},\"rendered\":{},\"string\":{},\"expected\":{expect},\"regex_crate\":{},\"runtime_matcher\":{}}}",
                    json_str(s), json_str(&re), json_str(w), jopt(a), jopt(c)
                )
                .unwrap();
                n_findings += 1;
            }
        }
    }
    let (esc_cases, plit_cases) = (esc.count, plit.count);
    esc.finish();
    plit.finish();

    // ------------------------------------------------------------ {:?} quoting
    let mut dbg = Streams::create(&o.out, "dbg");
    let mut dbg_strings: Vec<String> = (0..o.n).map(|_| strange_string(&mut r)).collect();
    dbg_strings.extend(quoted_texts.iter().map(|(re, _)| re.clone()));
    let mut dbg_nontrivial: BTreeSet<String> = BTreeSet::new();
    for s in &dbg_strings {
        let q = format!("{s:?}");
        let inner = &q[1..q.len() - 1];
        let flags: String = s.chars().map(|c| if c.escape_debug().to_string().starts_with("\\u") { '1' } else { '0' }).collect();
        let req = if s.is_empty() { format!("escdebug {}", enc_str(s)) } else { format!("escdebug {} {flags}", enc_str(s)) };
        if inner != s.as_str() {
            dbg_nontrivial.insert(s.clone());
        }
        dbg.case(&req, &enc_str(inner));
    }
    let dbg_cases = dbg.count;
    dbg.finish();

    // ------------------------------------------------------------ re-rendering, 3(+1)-way
    let mut rer = Streams::create(&o.out, "rer");
    let mut rer_nontrivial: BTreeSet<String> = BTreeSet::new();
    let (mut rer_regexes, mut rer_words, mut rer_unparsable, mut rer_lean_unsupported) = (0u64, 0u64, 0u64, 0u64);
    let n_re = o.n / 4 + 30;
    let fixed_re = [
        // probes for the known regex-syntax printer defect (a repetition of a repetition is printed without a group)
        "(?:b+){0,1}b+", "(?:a{2,3}){0,1}", "(?:a+)?b", "(?:a*)?b",
        "(?i)ab", "[^a]", "a{2,3}", "(a|b)*c", "\\p{Greek}+", "(?x) a b # c", "[a-c&&b-d]", "\\d+\\.\\d*", "é|[é-ê]x", "a*?",
        "(?s).", ".", "\\x{e9}", "[[:alpha:]]+", "(?U)a+", "a|", "(?:)", "\\u{1F600}", "[\\s--\\n]", "(?i:k)", "\\bx\\b",
    ];
    let mut regexes: Vec<(String, String)> = fixed_re.iter().map(|s| (s.to_string(), String::new())).collect();
    for _ in 0..n_re {
        let cfg = if r.chance(1, 2) { GenCfg::full() } else { GenCfg { unsupported: r.chance(1, 8), ..GenCfg::small() } };
        regexes.push(gen_regex_sample(&mut r, 2, &cfg));
    }
    for (re, sample) in &regexes {
        let Ok(hir) = hooks::parse_terminal(re, false) else {
            rer_unparsable += 1;
            continue;
        };
        let Some((s2, quoted)) = hooks::rendered_regex(re, false) else { continue };
        quoted_texts.push((s2.clone(), quoted));
        // alphabet from the regex's own classes / literals
        let bps = hooks::hir_breakpoints(std::slice::from_ref(&hir));
        let mut alpha: Vec<char> = vec![];
        for &c in bps.iter().skip(1) {
            if let Some(ch) = char::from_u32(c) {
                if alpha.len() < 3 && !alpha.contains(&ch) {
                    alpha.push(ch);
                }
            }
        }
        if alpha.len() < 3 {
            for ch in ['a', 'b', ' '] {
                if alpha.len() < 3 && !alpha.contains(&ch) {
                    alpha.push(ch);
                }
            }
        }
        if r.chance(1, 3) {
            alpha.push(*r.pick(&['é', 'A', '\n', '0', 'k', '\u{212a}']));
            alpha.dedup();
        }
        let mut words = all_strings(&alpha, 4);
        words.push(sample.clone());
        let mut pert: Vec<char> = sample.chars().collect();
        if !pert.is_empty() {
            let i = r.below(pert.len());
            pert[i] = alpha[0];
            words.push(pert.iter().collect());
        }
        let refs: Vec<&str> = words.iter().map(|w| w.as_str()).collect();
        let (Some(a), Some(b)) = (hooks::regex_full_match(re, &refs), hooks::regex_full_match(&s2, &refs)) else {
            rer_unparsable += 1;
            continue;
        };
        let builder = MatcherBuilder::new([(s2.as_str(), false)]);
        rer_regexes += 1;
        rer_words += words.len() as u64;
        if a.iter().any(|&x| x) && a.iter().any(|&x| !x) && re != &s2 {
            rer_nontrivial.insert(re.clone());
        }
        // criterion computed from the HIR: a Repetition whose sub-expression is itself a Repetition
        // (regex-syntax prints the two suffixes next to each other: `(?:b+)?` comes out as the lazy `b+?`)
        let sexp = hooks::hir_sexp(&hir);
        let rep_of_rep = sexp.match_indices("(rep ").any(|(i, _)| {
            let rest = &sexp[i + 5..];
            let mut it = rest.splitn(4, ' ');
            let (_, _, _) = (it.next(), it.next(), it.next());
            it.next().map_or(false, |sub| sub.starts_with("(rep "))
        });
        for (wi, w) in words.iter().enumerate() {
            if a[wi] != b[wi] {
                let kind = if rep_of_rep { "rerender:repetition-of-repetition-printed-without-group" } else { "rerender-changes-language" };
                let rt = match (&builder, w.is_empty()) {
                    (Ok(bd), false) => format!("{}", runtime_full_match(bd, w)),
                    _ => "null".to_string(),
                };
                writeln!(
                    findings,
                    "{{\"kind\":\"{kind}\",\"regex\":{},\"rerendered\":{},\"pattern_in_generated_source\":{},\"string\":{},\"original_matches\":{},\"rerendered_matches\":{},\"runtime_matcher_on_rerendered\":{rt},\"hir\":{}}}",
                    json_str(re), json_str(&s2), json_str(&format!("{s2:?}")), json_str(w), a[wi], b[wi], json_str(&sexp)
                )
                .unwrap();
                n_findings += 1;
                break;
            }
            if let (Ok(bd), false) = (&builder, w.is_empty()) {
                let c = runtime_full_match(bd, w);
                if c != b[wi] {
                    writeln!(
                        findings,
                        "{{\"kind\":\"runtime-matcher-deviates\",\"regex\":{},\"rerendered\":{},\"string\":{},\"regex_crate\":{},\"runtime_matcher\":{c}}}",
                        json_str(re), json_str(&s2), json_str(w), b[wi]
                    )
                    .unwrap();
                    n_findings += 1;
                    break;
                }
            }
        }
        // the Lean matcher on the HIR lalrpop works with (only for HIRs its NFA construction supports)
        if hooks::nfa_dump(&hir).starts_with("ok") {
            let bits: String = a.iter().map(|&x| if x { '1' } else { '0' }).collect();
            rer.case(
                &format!("matchall | {} | {}", hooks::hir_sexp(&hir), words.iter().map(|w| enc_str(w)).collect::<Vec<_>>().join(" ")),
                &bits,
            );
        } else {
            rer_lean_unsupported += 1;
            h.hit("rer:unsupported-by-lalrpop");
        }
    }
    let rer_cases = rer.count;
    rer.finish();

    // ------------------------------------------------------------ rustc reads the quoted text back
    let mut rs = Streams::create(&o.out, "readstr");
    let mut rustc_status = "skipped".to_string();
    if with_rustc {
        quoted_texts.extend(dbg_strings.iter().take(300).map(|s| (s.clone(), format!("{s:?}"))));
        quoted_texts.truncate(1200);
        let mut src = String::from("const S: &[&str] = &[\n");
        for (_, q) in &quoted_texts {
            src.push_str("    ");
            src.push_str(q);
            src.push_str(",\n");
        }
        src.push_str("];\nfn main() {\n    for s in S {\n        let mut o = String::from(\"x\");\n        for b in s.as_bytes() { o.push_str(&format!(\"{:02x}\", b)); }\n        println!(\"{o}\");\n    }\n}\n");
        match build_scratch_crate(&o.out.join("relit_consts"), "relit_consts", &[("src/main.rs".to_string(), src)]) {
            Ok(exe) => {
                let out = std::process::Command::new(exe).output().unwrap();
                let text = String::from_utf8_lossy(&out.stdout).to_string();
                let lines: Vec<&str> = text.lines().collect();
                rustc_status = format!("compiled:{}", lines.len());
                for ((s, q), line) in quoted_texts.iter().zip(lines.iter()) {
                    // model input: everything after the opening quote, plus some trailing source text
                    let after = format!("{};rest", &q[1..]);
                    rs.case(&format!("readstr {}", enc_str(&after)), &format!("ok {line} 5"));
                    if *line != enc_str(s) {
                        writeln!(
                            findings,
                            "{{\"kind\":\"debug-quote-not-read-back\",\"string\":{},\"quoted\":{},\"rustc_reads\":{}}}",
                            json_str(s), json_str(q), json_str(line)
                        )
                        .unwrap();
                        n_findings += 1;
                    }
                }
            }
            Err(e) => {
                rustc_status = "rustc-error".to_string();
                writeln!(findings, "{{\"kind\":\"quoted-constants-do-not-compile\",\"stderr\":{}}}", json_str(&e[..e.len().min(1500)])).unwrap();
                n_findings += 1;
            }
        }
    }
    let rs_cases = rs.count;
    rs.finish();
    findings.flush().unwrap();

    println!(
        "{{\"esc_cases\":{esc_cases},\"plit_cases\":{plit_cases},\"literal_cases\":{lit_cases},\"literal_nontrivial\":{},\"neighbour_checks\":{neighbour_checks},\"dbg_cases\":{dbg_cases},\"dbg_nontrivial\":{},\"rer_cases\":{rer_cases},\"rer_regexes\":{rer_regexes},\"rer_nontrivial\":{},\"rer_words\":{rer_words},\"rer_unparsable\":{rer_unparsable},\"rer_lean_unsupported\":{rer_lean_unsupported},\"readstr_cases\":{rs_cases},\"rustc\":{},\"findings\":{n_findings},\"hist\":{}}}",
        lit_nontrivial.len(),
        dbg_nontrivial.len(),
        rer_nontrivial.len(),
        json_str(&rustc_status),
        h.json()
    );
}
