//! C21: random build histories against the real `lalrpop::Configuration` in scratch directories.
//! Writes buildhist.req / buildhist.impl (protocol of `lpm_build`) and buildhist.findings
//! (property-level violations found on the real code, one JSON object per line); prints one JSON
//! stats line.  `--replay FILE`: execute the operation lines of FILE instead of random histories.
#[path = "wpd_common/mod.rs"]
mod common;
use common::*;
use std::collections::BTreeMap;
use std::fs;
use std::io::Write;
use std::path::PathBuf;
use verif_harness::*;

struct World {
    root: PathBuf,
    dir: PathBuf,
    n: usize,
    texts: Vec<Option<Vec<u8>>>,
    used: Vec<Vec<Vec<u8>>>,
    oracle: Oracle,
    defined: std::collections::HashSet<Vec<u8>>,
    streams: Streams,
    hist: Hist,
    ops: Vec<String>,
    /// kind -> (history length, json)
    findings: BTreeMap<String, (usize, String)>,
    finding_count: BTreeMap<String, u64>,
    checks: u64,
    nontrivial: std::collections::HashSet<String>,
}

fn json_list(v: &[String]) -> String {
    format!("[{}]", v.iter().map(|s| json_str(s)).collect::<Vec<_>>().join(","))
}

impl World {
    fn finding(&mut self, kind: &str, i: usize, detail: &str) {
        *self.finding_count.entry(kind.to_string()).or_insert(0) += 1;
        let better = match self.findings.get(kind) {
            Some((l, _)) => self.ops.len() < *l,
            None => true,
        };
        if better {
            let j = format!(
                "{{\"kind\":{},\"grammar\":{},\"detail\":{},\"history\":{}}}",
                json_str(kind),
                i,
                json_str(detail),
                json_list(&self.ops)
            );
            self.findings.insert(kind.to_string(), (self.ops.len(), j));
        }
    }

    fn case(&mut self, req: &str, imp: &str) {
        self.streams.case(req, imp);
    }

    fn ensure_def(&mut self, text: &[u8]) {
        if self.defined.insert(text.to_vec()) {
            let line = self.oracle.def_line(text);
            if let Some(a) = self.oracle.get(text).anomaly {
                self.finding("oracle-anomaly", 0, &a);
            }
            self.ops.push(line.clone());
            self.case(&line, "def hyp=true");
        }
    }

    fn reset(&mut self, n: usize, k: usize) {
        self.dir = self.root.join(format!("h{k}"));
        let _ = fs::remove_dir_all(&self.dir);
        fs::create_dir_all(&self.dir).unwrap();
        self.n = n;
        self.texts = vec![None; n];
        self.used = vec![vec![]; n];
        self.ops.clear();
        // the model keeps its definitions across resets; the replayable history needs them again
        let line = format!("reset {n}");
        self.ops.push(format!("version {}", enc_str(&version_header())));
        self.ops.push(line.clone());
        self.case(&line, "ok");
    }

    /// property-level check after `process_file` on grammar i (independent of the model)
    fn check_build(&mut self, i: usize, forced: bool, pre: &Option<Vec<u8>>, res: &Result<(), String>, fresh: bool) {
        let Some(text) = self.texts[i].clone() else { return };
        let o = self.oracle.get(&text);
        let cur = fs::read(rspath(&self.dir, i)).ok();
        self.checks += 1;
        let utf8 = std::str::from_utf8(&text).is_ok();
        match res {
            Ok(()) => {
                match (&o.full, &cur) {
                    (Some(want), Some(have)) if want == have => {
                        if !forced && pre.as_ref() == Some(want) && fresh {
                            self.finding("current-output-rewritten", i, "output was byte-identical to the forced output and was rewritten by a non-forced build");
                        }
                        self.nontrivial.insert(format!("ok:{}:{}", forced, if fresh { "rebuilt" } else { "kept" }));
                    }
                    (Some(want), Some(have)) => {
                        let (l1, r1) = split_line(have);
                        let (l2, r2) = split_line(r1);
                        let t = |b: &[u8]| String::from_utf8_lossy(b).trim().to_string();
                        let kind = if Some(r2) == o.body.as_deref() && t(l1) == version_header() && t(l2) == o.hash {
                            "ws-padded-header-kept"
                        } else if want.starts_with(have) {
                            "truncated-output-kept"
                        } else {
                            "stale-output-kept"
                        };
                        self.finding(kind, i, &format!("after Ok build the output ({} bytes) differs from the forced output ({} bytes)", have.len(), want.len()));
                    }
                    (Some(_), None) => self.finding("ok-build-without-output", i, "build returned Ok but there is no output"),
                    (None, Some(_)) => self.finding("erroneous-grammar-output-kept", i, "forced build fails for this grammar but the non-forced build returned Ok and an output exists"),
                    (None, None) => self.finding("ok-build-of-erroneous-grammar", i, "forced build fails but non-forced build returned Ok"),
                }
            }
            Err(e) => {
                if cur.is_some() {
                    let kind = if !utf8 {
                        "non-utf8-grammar-keeps-old-output"
                    } else if e.contains("valid UTF-8") {
                        "non-utf8-header-blocks-build"
                    } else {
                        "failed-build-leaves-output"
                    };
                    self.finding(kind, i, &format!("build failed ({e}) and an output file exists afterwards"));
                } else if o.full.is_some() {
                    self.finding("build-fails-for-valid-grammar", i, &format!("forced build succeeds, this build failed: {e}"));
                }
                self.nontrivial.insert(format!("err:{}:{}", forced, if cur.is_some() { "left" } else { "none" }));
            }
        }
    }

    /// execute one operation line on the real file system; returns the answer in lpm_build format
    fn exec(&mut self, line: &str) -> String {
        let w: Vec<&str> = line.split_whitespace().collect();
        let n = self.n;
        let idx = |s: &str| s.parse::<usize>().unwrap();
        mark(&self.dir, n);
        match w[0] {
            "edit" => {
                let i = idx(w[1]);
                let t = dec_bytes(w[2]).unwrap();
                fs::write(gpath(&self.dir, i), &t).unwrap();
                if !self.used[i].contains(&t) {
                    self.used[i].push(t.clone());
                }
                self.texts[i] = Some(t);
                format!("- | {}", show_state(&self.dir, n, &fresh_flags(&self.dir, n)))
            }
            "touch" => {
                let i = idx(w[1]);
                set_mtime(&gpath(&self.dir, i), std::time::SystemTime::now() + std::time::Duration::from_secs(5));
                format!("- | {}", show_state(&self.dir, n, &fresh_flags(&self.dir, n)))
            }
            "delout" => {
                let _ = fs::remove_file(rspath(&self.dir, idx(w[1])));
                format!("- | {}", show_state(&self.dir, n, &fresh_flags(&self.dir, n)))
            }
            "alter" => {
                let i = idx(w[1]);
                let p = rspath(&self.dir, i);
                if let Ok(old) = fs::read(&p) {
                    let (_, r1) = split_line(&old);
                    let (_, r2) = split_line(r1);
                    let mut newb = dec_bytes(w[2]).unwrap();
                    newb.extend(dec_bytes(w[3]).unwrap());
                    newb.extend_from_slice(r2);
                    fs::write(&p, newb).unwrap();
                }
                format!("- | {}", show_state(&self.dir, n, &fresh_flags(&self.dir, n)))
            }
            "setout" => {
                fs::write(rspath(&self.dir, idx(w[1])), dec_bytes(w[2]).unwrap()).unwrap();
                format!("- | {}", show_state(&self.dir, n, &fresh_flags(&self.dir, n)))
            }
            "build" | "fbuild" => {
                let i = idx(w[1]);
                let forced = w[0] == "fbuild";
                let report = w.contains(&"report");
                let pre = fs::read(rspath(&self.dir, i)).ok();
                let res = real_build(&self.dir, i, forced, report);
                let fresh = fresh_flags(&self.dir, n);
                self.check_build(i, forced, &pre, &res, fresh[i]);
                format!("{} | {}", if res.is_ok() { "ok" } else { "err" }, show_state(&self.dir, n, &fresh))
            }
            "builddir" | "fbuilddir" => {
                let forced = w[0] == "fbuilddir";
                let report = w.contains(&"report");
                let pres: Vec<_> = (0..n).map(|i| fs::read(rspath(&self.dir, i)).ok()).collect();
                let res = real_build_dir(&self.dir, forced, report);
                let fresh = fresh_flags(&self.dir, n);
                // only the overall result is observable; per-file property checks when it is Ok
                if res.is_ok() {
                    for i in 0..n {
                        if self.texts[i].is_some() {
                            self.check_build(i, forced, &pres[i], &Ok(()), fresh[i]);
                        }
                    }
                }
                format!("{} | {}", if res.is_ok() { "ok" } else { "err" }, show_state(&self.dir, n, &fresh))
            }
            _ => panic!("bad op line {line}"),
        }
    }
}

fn pad_variants(line: &[u8], rng: &mut Rng) -> Vec<u8> {
    // white-space variations of a header line that `trim` removes again
    let core: Vec<u8> = line.strip_suffix(b"\n").unwrap_or(line).to_vec();
    let ws: [&[u8]; 8] = [b" ", b"\t", b"\r", "\u{a0}".as_bytes(), "\u{2003}".as_bytes(), "\u{3000}".as_bytes(), "\u{85}".as_bytes(), b"  "];
    let mut out = vec![];
    if rng.chance(1, 3) {
        out.extend_from_slice(ws[rng.below(ws.len())]);
    }
    out.extend_from_slice(&core);
    out.extend_from_slice(ws[rng.below(ws.len())]);
    out.push(b'\n');
    out
}

fn gen_alter(w: &World, i: usize, rng: &mut Rng, hist: &mut Hist) -> Option<String> {
    let old = fs::read(rspath(&w.dir, i)).ok()?;
    let (l1, r1) = split_line(&old);
    let (l2, _) = split_line(r1);
    let (a, b): (Vec<u8>, Vec<u8>) = match rng.below(12) {
        0 => {
            hist.hit("alter:version-junk");
            (b"// auto-generated: \"lalrpop 0.0.0\"\n".to_vec(), l2.to_vec())
        }
        1 => {
            hist.hit("alter:hash-junk");
            let h: String = (0..64).map(|_| b"0123456789abcdef"[rng.below(16)] as char).collect();
            (l1.to_vec(), format!("// sha3: {h}\n").into_bytes())
        }
        2 | 3 => {
            hist.hit("alter:pad-version");
            (pad_variants(l1, rng), l2.to_vec())
        }
        4 => {
            hist.hit("alter:pad-hash");
            (l1.to_vec(), pad_variants(l2, rng))
        }
        5 => {
            hist.hit("alter:drop-version-line");
            (vec![], l2.to_vec())
        }
        6 => {
            hist.hit("alter:no-newline");
            (b"garbage".to_vec(), l2.to_vec())
        }
        7 => {
            hist.hit("alter:non-utf8-version");
            (vec![0xff, 0xfe, b'\n'], l2.to_vec())
        }
        8 => {
            hist.hit("alter:non-utf8-hash");
            (l1.to_vec(), vec![b'/', b'/', 0xc3, b'\n'])
        }
        9 => {
            hist.hit("alter:swap-lines");
            (l2.to_vec(), l1.to_vec())
        }
        10 => {
            hist.hit("alter:blank-line-first");
            let mut a = b"\n".to_vec();
            a.extend_from_slice(l1);
            (a, l2.to_vec())
        }
        _ => {
            hist.hit("alter:truncate-hash");
            let k = l2.len() / 2;
            let mut b = l2[..k].to_vec();
            b.push(b'\n');
            (l1.to_vec(), b)
        }
    };
    Some(format!("alter {i} {} {}", enc_bytes(&a), enc_bytes(&b)))
}

fn main() {
    let opts = parse_opts();
    let mut stats_out = silence_stdio();
    let mut rng = Rng::new(opts.seed);
    let root = opts.out.join("buildhist");
    let _ = fs::remove_dir_all(&root);
    fs::create_dir_all(&root).unwrap();
    let mut w = World {
        root: root.clone(),
        dir: root.clone(),
        n: 0,
        texts: vec![],
        used: vec![],
        oracle: Oracle::new(root.join("oracle")),
        defined: Default::default(),
        streams: Streams::create(&opts.out, "buildhist"),
        hist: Hist::default(),
        ops: vec![],
        findings: BTreeMap::new(),
        finding_count: BTreeMap::new(),
        checks: 0,
        nontrivial: Default::default(),
    };
    let variant = opts
        .extra
        .iter()
        .position(|a| a == "--variant")
        .map(|k| opts.extra[k + 1].clone())
        .unwrap_or_else(|| "old".into());
    w.case(&format!("variant {}", variant.replace(',', " ")), "ok");
    w.case(&format!("version {}", enc_str(&version_header())), "ok");

    let mut histories = 0u64;
    let mut steps = 0u64;
    if let Some(rp) = &opts.replay {
        // operation lines of a recorded history
        let text = fs::read_to_string(rp).unwrap();
        for line in text.lines() {
            let line = line.trim();
            if line.is_empty() {
                continue;
            }
            if line.starts_with("def ") || line.starts_with("version ") {
                // definitions are re-derived from the real code (the texts are in the edit lines)
                continue;
            }
            if let Some(n) = line.strip_prefix("reset ") {
                w.reset(n.trim().parse().unwrap(), histories as usize);
                histories += 1;
                continue;
            }
            if let Some(rest) = line.strip_prefix("edit ") {
                let t = dec_bytes(rest.split_whitespace().nth(1).unwrap()).unwrap();
                w.ensure_def(&t);
            }
            w.ops.push(line.to_string());
            let a = w.exec(line);
            w.case(line, &a);
            steps += 1;
        }
    } else {
        let pool = make_pool(&mut rng, 10);
        for k in 0..opts.n {
            let n = 1 + rng.below(3);
            w.reset(n, k);
            histories += 1;
            let nops = 10 + rng.below(31);
            // initial texts
            for i in 0..n {
                let t = pool.valid[rng.below(pool.valid.len())].clone();
                w.ensure_def(&t);
                let line = format!("edit {i} {}", enc_bytes(&t));
                w.ops.push(line.clone());
                let a = w.exec(&line);
                w.case(&line, &a);
            }
            for _ in 0..nops {
                let i = rng.below(n);
                let r = rng.below(100);
                let line: Option<String> = if r < 25 {
                    w.hist.hit("build");
                    Some(format!("build {i}{}", if rng.chance(1, 6) { " report" } else { "" }))
                } else if r < 33 {
                    w.hist.hit("builddir");
                    Some("builddir".to_string())
                } else if r < 38 {
                    w.hist.hit("fbuild");
                    Some(format!("fbuild {i}"))
                } else if r < 40 {
                    w.hist.hit("fbuilddir");
                    Some("fbuilddir".to_string())
                } else if r < 60 {
                    let q = rng.below(100);
                    let t = if q < 40 {
                        w.hist.hit("edit:valid");
                        pool.valid[rng.below(pool.valid.len())].clone()
                    } else if q < 65 && !w.used[i].is_empty() {
                        w.hist.hit("edit:revert");
                        w.used[i][rng.below(w.used[i].len())].clone()
                    } else if q < 90 {
                        let (name, t) = &pool.invalid[rng.below(pool.invalid.len())];
                        w.hist.hit(&format!("edit:error:{name}"));
                        t.clone()
                    } else {
                        w.hist.hit("edit:comment-only");
                        let mut t = w.texts[i].clone().unwrap_or_default();
                        if std::str::from_utf8(&t).is_ok() {
                            t.extend_from_slice(format!("// e{}\n", rng.below(1000)).as_bytes());
                        }
                        t
                    };
                    w.ensure_def(&t);
                    Some(format!("edit {i} {}", enc_bytes(&t)))
                } else if r < 65 {
                    w.hist.hit("touch");
                    Some(format!("touch {i}"))
                } else if r < 73 {
                    w.hist.hit("delout");
                    Some(format!("delout {i}"))
                } else if r < 93 {
                    let mut h = std::mem::take(&mut w.hist);
                    let l = gen_alter(&w, i, &mut rng, &mut h);
                    w.hist = h;
                    l
                } else {
                    let d: Vec<u8> = match rng.below(4) {
                        0 => {
                            w.hist.hit("setout:empty");
                            vec![]
                        }
                        1 => {
                            w.hist.hit("setout:random");
                            (0..rng.below(200)).map(|_| rng.below(256) as u8).collect()
                        }
                        2 => {
                            w.hist.hit("setout:other-grammar-output");
                            let t = pool.valid[rng.below(pool.valid.len())].clone();
                            w.ensure_def(&t);
                            w.oracle.get(&t).full.unwrap_or_default()
                        }
                        _ => {
                            w.hist.hit("setout:text");
                            b"fn main() {}\n".to_vec()
                        }
                    };
                    Some(format!("setout {i} {}", enc_bytes(&d)))
                };
                let Some(line) = line else { continue };
                w.ops.push(line.clone());
                let a = w.exec(&line);
                w.case(&line, &a);
                steps += 1;
            }
            let _ = fs::remove_dir_all(&w.dir);
        }
    }
    // findings file
    let mut f = fs::File::create(opts.out.join("buildhist.findings")).unwrap();
    for (_, (_, j)) in &w.findings {
        writeln!(f, "{j}").unwrap();
    }
    let fc: Vec<String> = w.finding_count.iter().map(|(k, v)| format!("{}:{}", json_str(k), v)).collect();
    let nt: Vec<String> = w.nontrivial.iter().map(|s| json_str(s)).collect();
    let cases = w.streams.count;
    let World { streams, hist, oracle, checks, .. } = w;
    streams.finish();
    writeln!(
        stats_out,
        "{{\"cases\":{cases},\"histories\":{histories},\"steps\":{steps},\"property_checks\":{checks},\"oracle_builds\":{},\"finding_counts\":{{{}}},\"outcome_classes\":[{}],\"hist\":{}}}",
        oracle.builds,
        fc.join(","),
        nt.join(","),
        hist.json()
    )
    .unwrap();
}
