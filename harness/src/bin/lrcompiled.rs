//! Layer 4 of DESIGN §7 C01: generated parsers compiled by rustc (table-driven and
//! `#[recursive_ascent]`) run on generated inputs; the same cases go to `lpm_lr` (`runc`), which
//! runs the model driver over the tables extracted from the generated table-driven source.
//!
//! Writes <out>/lrc.req + lrc.impl (model protocol; impl = table-driven result) and
//! <out>/lrc.ascent (one line per `runc` request: the ascent result, or `-`).
//! args: --seed S --n GRAMMARS --out DIR [inputs=K]
use verif_harness::gram::*;
use verif_harness::lr::*;
use verif_harness::*;

/// grammar text with extern tokens; every alternative renders `(p l r kids…)`, logs `p`, and is
/// fallible when `fallible[p]`
fn render_actions(cfg: &Cfg, attrs: &str, prod_index: &dyn Fn(usize, usize) -> usize, fallible: &[bool]) -> String {
    let mut s = String::new();
    s.push_str("use crate::{Tk, Ctx};\nuse lalrpop_util::ErrorRecovery;\n");
    s.push_str(attrs);
    s.push_str("grammar(ctx: &Ctx);\n");
    s.push_str("extern {\n    type Location = i64;\n    type Error = u64;\n    enum Tk {\n");
    for i in 0..cfg.nterm {
        s.push_str(&format!("        \"{}\" => Tk::K{}(<usize>),\n", term_name(i), i));
    }
    s.push_str("    }\n}\n");
    for (i, alts) in cfg.nts.iter().enumerate() {
        let vis = if cfg.pubs.contains(&i) { "pub " } else { "" };
        s.push_str(&format!("{vis}N{i}: String = {{\n"));
        for (ai, alt) in alts.iter().enumerate() {
            let p = prod_index(i, ai);
            let mut body = vec!["<l:@L>".to_string()];
            let mut fmt = String::new();
            let mut args = vec![];
            for (k, x) in alt.iter().enumerate() {
                match x {
                    S::T(t) => {
                        body.push(format!("<x{k}:\"{}\">", term_name(*t)));
                        fmt.push_str(" t{}");
                        args.push(format!("x{k}"));
                    }
                    S::N(n) => {
                        body.push(format!("<x{k}:N{n}>"));
                        fmt.push_str(" {}");
                        args.push(format!("x{k}"));
                    }
                    S::Bang => {
                        body.push(format!("<x{k}:!>"));
                        fmt.push_str(" {}");
                        args.push(format!("crate::show_rec(&x{k}, TERMS)"));
                    }
                }
            }
            body.push("<r:@R>".to_string());
            let value = format!(
                "format!(\"({p} {{}} {{}}{fmt})\", l, r{}{})",
                if args.is_empty() { "" } else { ", " },
                args.join(", ")
            );
            if fallible[p] {
                s.push_str(&format!("    {} =>? crate::act(ctx, {p}, {value}),\n", body.join(" ")));
            } else {
                s.push_str(&format!("    {} => crate::act_ok(ctx, {p}, {value}),\n", body.join(" ")));
            }
        }
        s.push_str("};\n");
    }
    s
}

const MAIN_PRELUDE: &str = r#"
#![allow(unused, non_snake_case, clippy::all)]
use lalrpop_util::{ErrorRecovery, ParseError};
use std::cell::{Cell, RefCell};

#[derive(Clone, Debug)]
pub enum Tk { K0(usize), K1(usize), K2(usize), K3(usize), K4(usize), K5(usize), K6(usize), K7(usize), K8(usize), K9(usize), K10(usize), K11(usize), Unknown(usize) }
impl Tk {
    fn id(&self) -> usize {
        match self { Tk::K0(i) | Tk::K1(i) | Tk::K2(i) | Tk::K3(i) | Tk::K4(i) | Tk::K5(i) | Tk::K6(i) | Tk::K7(i) | Tk::K8(i) | Tk::K9(i) | Tk::K10(i) | Tk::K11(i) | Tk::Unknown(i) => *i }
    }
    fn make(kind: Option<usize>, id: usize) -> Tk {
        match kind { Some(0) => Tk::K0(id), Some(1) => Tk::K1(id), Some(2) => Tk::K2(id), Some(3) => Tk::K3(id),
            Some(4) => Tk::K4(id), Some(5) => Tk::K5(id), Some(6) => Tk::K6(id), Some(7) => Tk::K7(id), Some(8) => Tk::K8(id), Some(9) => Tk::K9(id), Some(10) => Tk::K10(id), Some(11) => Tk::K11(id), _ => Tk::Unknown(id) }
    }
}
pub struct Ctx { pub acts: Cell<usize>, pub fail_at: Option<usize>, pub log: RefCell<Vec<usize>> }
pub type PE = ParseError<i64, Tk, u64>;
pub fn act(ctx: &Ctx, p: usize, v: String) -> Result<String, PE> {
    let k = ctx.acts.get();
    ctx.acts.set(k + 1);
    ctx.log.borrow_mut().push(p);
    if ctx.fail_at == Some(k) { Err(ParseError::User { error: 1000 + k as u64 }) } else { Ok(v) }
}
pub fn act_ok(ctx: &Ctx, p: usize, v: String) -> String {
    let k = ctx.acts.get();
    ctx.acts.set(k + 1);
    ctx.log.borrow_mut().push(p);
    v
}
fn exp(ex: &[String], terms: &[&str]) -> String {
    ex.iter().map(|s| terms.iter().position(|t| t == s).map(|i| i.to_string()).unwrap_or_else(|| format!("?{s}"))).collect::<Vec<_>>().join(",")
}
pub fn show_perr(e: &PE, terms: &[&str]) -> String {
    match e {
        ParseError::InvalidToken { location } => format!("IT({location})"),
        ParseError::UnrecognizedEof { location, expected } => format!("UE({location};{})", exp(expected, terms)),
        ParseError::UnrecognizedToken { token: (l, t, r), expected } => format!("UT({l},{},{r};{})", t.id(), exp(expected, terms)),
        ParseError::ExtraToken { token: (l, t, r) } => format!("ET({l},{},{r})", t.id()),
        ParseError::User { error } => format!("US({error})"),
    }
}
pub fn show_rec(r: &ErrorRecovery<i64, Tk, u64>, terms: &[&str]) -> String {
    format!("(! {} [{}])", show_perr(&r.error, terms), r.dropped_tokens.iter().map(|t| t.1.id().to_string()).collect::<Vec<_>>().join(","))
}
fn parse_items(s: &str) -> Vec<Result<(i64, Tk, i64), u64>> {
    if s.is_empty() { return vec![]; }
    s.split(',').enumerate().map(|(id, it)| {
        if let Some(e) = it.strip_prefix('E') { Err(e.parse().unwrap()) } else {
            let f: Vec<&str> = it.split(':').collect();
            Ok((f[0].parse().unwrap(), Tk::make(f[1].parse().ok(), id), f[2].parse().unwrap()))
        }
    }).collect()
}
fn finish(res: std::thread::Result<Result<String, PE>>, terms: &[&str], pulled: usize, ctx: &Ctx) -> String {
    let log = ctx.log.borrow().iter().map(|p| p.to_string()).collect::<Vec<_>>().join(".");
    match res {
        Ok(Ok(v)) => format!("ok {v} pulled={pulled} log={log}"),
        Ok(Err(e)) => format!("err {} pulled={pulled} log={log}", show_perr(&e, terms)),
        Err(_) => "panic".to_string(),
    }
}
macro_rules! run_one {
    ($parser:expr, $terms:expr, $fail:expr, $items:expr) => {{
        let ctx = Ctx { acts: Cell::new(0), fail_at: $fail, log: RefCell::new(vec![]) };
        let pulled = Cell::new(0usize);
        let mut it = $items.clone().into_iter();
        let stream = std::iter::from_fn(|| { pulled.set(pulled.get() + 1); it.next() });
        let res = std::panic::catch_unwind(std::panic::AssertUnwindSafe(|| $parser.parse(&ctx, stream)));
        finish(res, $terms, pulled.get(), &ctx)
    }};
}
"#;

fn main() {
    let o = parse_opts();
    std::panic::set_hook(Box::new(|_| {}));
    let per_grammar: usize = o
        .extra
        .iter()
        .find_map(|e| e.strip_prefix("inputs=").map(|v| v.parse().unwrap()))
        .unwrap_or(30);
    let bang_always = o.extra.iter().any(|e| e == "bang=always");
    let mut r = Rng::new(o.seed);
    let mut h = Hist::default();
    let gen_dir = o.out.join("gen");
    let mut files: Vec<(String, String)> = vec![];
    let mut dispatch = String::new();
    // (request lines for lpm, case lines for the compiled runner)
    let mut reqs: Vec<String> = vec![];
    let mut cases: Vec<String> = vec![];
    let mut grammars_text: Vec<String> = vec![];
    let mut ctxfile = String::new();
    let mut ng = 0usize;
    let mut attempts = 0usize;
    unsafe { std::env::remove_var("LALRPOP_LANE_TABLE") };
    while ng < o.n && attempts < o.n * 6 {
        attempts += 1;
        let allow_bang = r.chance(1, 4);
        let cfg = if bang_always { gen_cfg_recovery(&mut r) } else { gen_cfg_indexed(&mut r, attempts - 1, allow_bang || attempts <= n_templates()) };
        if cfg.nterm > 12 {
            continue;
        }
        // first pass with placeholder indices to learn lalrpop's production numbering
        let dummy = render_actions(&cfg, "", &|_, _| 0, &vec![false; 1]);
        let Export::Ok { grammar, automata, conflicts } = parse_export(&lalrpop::verif_hooks::export_automaton(&dummy, None)) else {
            h.hit("skip:normalize-error");
            continue;
        };
        if !conflicts.is_empty() || automata.is_empty() {
            h.hit("skip:conflicts");
            continue;
        }
        let ntname = |i: usize| format!("N{i}");
        let prod_index = |nt: usize, alt: usize| -> usize {
            // productions of a nonterminal keep their order
            let lhs = grammar.nonterminals.iter().position(|n| *n == ntname(nt)).unwrap();
            let first = grammar.prods.iter().position(|(l, _)| *l == lhs).unwrap();
            first + alt
        };
        let nprods = grammar.prods.len();
        // synthesized start productions (`__N = N`) have an internal, infallible action
        let fallible: Vec<bool> = (0..nprods)
            .map(|p| r.chance(1, 5) && !grammar.nonterminals[grammar.prods[p].0].starts_with("__"))
            .collect();
        let text_td = render_actions(&cfg, "", &prod_index, &fallible);
        let td = match generate_parser(&gen_dir, "g", &text_td, |_| {}) {
            Ok(t) => t,
            Err(e) => {
                h.hit(&format!("skip:generate-td-failed:{}", e.chars().take(30).collect::<String>()));
                continue;
            }
        };
        // the grammar with actions must number productions like the unit grammar did
        let Export::Ok { grammar: g2, automata: a2, .. } = parse_export(&lalrpop::verif_hooks::export_automaton(&text_td, None)) else { continue };
        if g2.prods != grammar.prods || g2.terminals != grammar.terminals {
            h.hit("skip:numbering-differs");
            continue;
        }
        let ra = if cfg.uses_bang() {
            None
        } else {
            let text_ra = render_actions(&cfg, "#[recursive_ascent]\n", &prod_index, &fallible);
            match generate_parser(&gen_dir, "g", &text_ra, |_| {}) {
                Ok(t) => Some(t),
                Err(e) => {
                    h.hit(&format!("ascent-generate-failed:{}", e.chars().take(30).collect::<String>()));
                    None
                }
            }
        };
        let a = &a2[0];
        let mut tables = match extract_tables(&td, &a.user_start, g2.nonterminals.len()) {
            Ok(t) => t,
            Err(e) => {
                h.hit(&format!("skip:extract:{e}"));
                continue;
            }
        };
        tables.fallible = fallible.clone();
        let gi = ng;
        ng += 1;
        h.hit(&format!("origin:{}", cfg.origin.split('+').next().unwrap()));
        h.hit(if ra.is_some() { "backend:both" } else { "backend:table-only" });
        grammars_text.push(text_td.clone());
        let terms_decl = format!(
            "const TERMS: &[&str] = &[{}];\n",
            tables.terminal_repr.iter().map(|t| format!("r###\"{t}\"###")).collect::<Vec<_>>().join(", ")
        );
        files.push((format!("src/g{gi}_td.rs"), format!("{terms_decl}{td}")));
        if let Some(ra) = &ra {
            files.push((format!("src/g{gi}_ra.rs"), format!("{terms_decl}{ra}")));
        }
        let start = &a.user_start;
        dispatch.push_str(&format!(
            "        {gi} => {{ let td = run_one!(g{gi}_td::{start}Parser::new(), g{gi}_td::TERMS_PUB, fail, items); let ra = {}; (td, ra) }}\n",
            if ra.is_some() { format!("run_one!(g{gi}_ra::{start}Parser::new(), g{gi}_ra::TERMS_PUB, fail, items)") } else { "String::from(\"-\")".to_string() }
        ));
        ctxfile.push_str(&format!("{}\tlane\t{}\t{}\n", reqs.len(), a.user_start, enc_str(&text_td)));
        reqs.push(tables.line());
        reqs.push(g2.line(a.start_prod));
        reqs.push(format!("automaton states={} {}", a.nstates, a.body));
        reqs.push("validate".into());
        cases.push("-".into());
        cases.push("-".into());
        cases.push("-".into());
        cases.push("-".into());
        // inputs
        let tidx: Vec<usize> = (0..cfg.nterm)
            .map(|i| {
                let name = format!("\"{}\"", term_name(i));
                g2.terminals.iter().position(|t| *t == name).unwrap_or(usize::MAX)
            })
            .collect();
        let used: Vec<usize> = tidx.iter().copied().filter(|x| *x != usize::MAX).collect();
        let start_nt_of_cfg: usize = a.user_start[1..].parse().unwrap();
        // systematic truncation: every proper prefix of a few short sentences (end-of-input error paths)
        let mut prefix_inputs: Vec<Vec<Option<usize>>> = vec![];
        for _ in 0..4 {
            if let Some(s) = { let b = 2 + r.below(10); cfg.sample(&mut r, start_nt_of_cfg, b) } {
                if s.len() <= 9 && s.iter().all(|t| tidx[*t] != usize::MAX) {
                    for k in 0..s.len() {
                        prefix_inputs.push(s[..k].iter().map(|t| Some(tidx[*t])).collect());
                    }
                }
            }
        }
        prefix_inputs.sort();
        prefix_inputs.dedup();
        prefix_inputs.truncate(24);
        for pi in 0..per_grammar + prefix_inputs.len() {
            let is_prefix_input = pi >= per_grammar;
            let mut kinds: Vec<Option<usize>> = if is_prefix_input { prefix_inputs[pi - per_grammar].clone() } else { match r.below(10) {
                0..=6 => match { let b = 2 + r.below(25); cfg.sample(&mut r, start_nt_of_cfg, b) } {
                    Some(s) => s.iter().map(|t| Some(tidx[*t])).collect(),
                    None => vec![],
                },
                _ => {
                    let n = r.below(7);
                    (0..n).map(|_| if used.is_empty() { None } else { Some(*r.pick(&used)) }).collect()
                }
            } };
            kinds.retain(|k| *k != Some(usize::MAX));
            if !is_prefix_input && r.chance(1, 6) && !kinds.is_empty() {
                let keep = r.below(kinds.len());
                kinds.truncate(keep);
            }
            if !is_prefix_input && r.chance(1, 8) && !used.is_empty() {
                let j = r.below(kinds.len() + 1);
                for _ in 0..2 + r.below(3) {
                    kinds.insert(j, Some(*r.pick(&used)));
                }
            }
            for _ in 0..(if is_prefix_input { 0 } else { r.below(3) }) {
                match r.below(4) {
                    0 if !kinds.is_empty() => {
                        let j = r.below(kinds.len());
                        kinds.remove(j);
                    }
                    1 if !used.is_empty() => {
                        let j = r.below(kinds.len() + 1);
                        kinds.insert(j, Some(*r.pick(&used)));
                    }
                    2 if !kinds.is_empty() && !used.is_empty() => {
                        let j = r.below(kinds.len());
                        kinds[j] = Some(*r.pick(&used));
                    }
                    3 if !kinds.is_empty() && r.chance(1, 4) => {
                        let j = r.below(kinds.len());
                        kinds[j] = None;
                    }
                    _ => {}
                }
            }
            // gapped, strictly increasing spans starting after 0 (so Default::default() is visible)
            let mut pos: i64 = 1 + r.range(0, 3);
            let mut items: Vec<StreamItem> = kinds
                .iter()
                .map(|k| {
                    let l = pos + r.range(0, 2);
                    let rr = l + r.range(1, 3);
                    pos = rr;
                    StreamItem::Tok(l, *k, rr)
                })
                .collect();
            if !is_prefix_input && r.chance(1, 12) {
                let j = r.below(items.len() + 1);
                items.insert(j, StreamItem::Err(r.below(50) as u64));
            }
            let fail_at = if !is_prefix_input && r.chance(1, 6) { Some(r.below(6)) } else { None };
            let f = fail_at.map(|f| f.to_string()).unwrap_or_else(|| "-".into());
            reqs.push(format!("runc fail={f} start=0 input={}", items_field(&items)));
            cases.push(format!("{gi} {f} {}", items_field(&items)));
            if ra.is_some() {
                // the ascent backend's expected list, predicted by the model (`runx`)
                reqs.push(format!("runx fail={f} start=0 input={}", items_field(&items)));
                cases.push(format!("X{gi} {f} {}", items_field(&items)));
            }
        }
    }
    // the runner
    let mut main_rs = String::from(MAIN_PRELUDE);
    for (path, _) in &files {
        let m = path.trim_start_matches("src/").trim_end_matches(".rs");
        main_rs.push_str(&format!("mod {m};\n"));
    }
    main_rs.push_str(
        "fn dispatch(g: usize, fail: Option<usize>, items: Vec<Result<(i64, Tk, i64), u64>>) -> (String, String) {\n    match g {\n",
    );
    main_rs.push_str(&dispatch);
    main_rs.push_str("        _ => (String::from(\"?\"), String::from(\"?\")),\n    }\n}\n");
    main_rs.push_str(
        r#"fn main() {
    std::panic::set_hook(Box::new(|_| {}));
    let path = std::env::args().nth(1).unwrap();
    let text = std::fs::read_to_string(path).unwrap();
    let mut out = String::new();
    for line in text.lines() {
        if line == "-" { out.push_str("-\t-\n"); continue; }
        let f: Vec<&str> = line.splitn(3, ' ').collect();
        if let Some(gx) = f[0].strip_prefix('X') {
            let g: usize = gx.parse().unwrap();
            let fail = f[1].parse::<usize>().ok();
            let items = parse_items(f.get(2).copied().unwrap_or(""));
            let (_, ra) = dispatch(g, fail, items);
            // `err UT(l,id,r;EXP) …` / `err UE(loc;EXP) …`
            let x = if ra.starts_with("err UT(") || ra.starts_with("err UE(") {
                let inner = &ra[ra.find(';').unwrap() + 1..ra.find(')').unwrap()];
                format!("x={inner}")
            } else { "-".to_string() };
            out.push_str(&format!("{x}\t-\n"));
            continue;
        }
        let g: usize = f[0].parse().unwrap();
        let fail = f[1].parse::<usize>().ok();
        let items = parse_items(f.get(2).copied().unwrap_or(""));
        let (td, ra) = dispatch(g, fail, items);
        out.push_str(&format!("{td}\t{ra}\n"));
    }
    print!("{out}");
}
"#,
    );
    // each generated module refers to TERMS inside the grammar's action module; expose it
    let files: Vec<(String, String)> = files
        .into_iter()
        .map(|(p, c)| (p, format!("{c}\npub const TERMS_PUB: &[&str] = TERMS;\n")))
        .chain(std::iter::once(("src/main.rs".to_string(), main_rs)))
        .collect();
    let crate_dir = o.out.join("crate");
    let t0 = std::time::Instant::now();
    let built = build_scratch_crate(&crate_dir, "lrc_runner", &files);
    let compile_s = t0.elapsed().as_secs_f64();
    let mut st = Streams::create(&o.out, "lrc");
    let mut ascent = String::new();
    let mut rustc_error = String::new();
    match built {
        Ok(exe) => {
            let cases_path = o.out.join("cases.txt");
            std::fs::write(&cases_path, cases.join("\n") + "\n").unwrap();
            let outp = std::process::Command::new(&exe).arg(&cases_path).output().unwrap();
            let text = String::from_utf8_lossy(&outp.stdout).into_owned();
            let lines: Vec<&str> = text.lines().collect();
            for (i, req) in reqs.iter().enumerate() {
                let (td, ra) = lines.get(i).and_then(|l| l.split_once('\t')).unwrap_or(("<missing>", "<missing>"));
                let imp = if cases[i] == "-" {
                    if req == "validate" { "valid" } else { "ok" }
                } else {
                    td
                };
                st.case(req, imp);
                ascent.push_str(ra);
                ascent.push('\n');
                if cases[i] != "-" {
                    h.hit(&format!("outcome:{}", td.split(|c| c == ' ' || c == '(').take(2).collect::<Vec<_>>().join(" ")));
                }
            }
        }
        Err(e) => {
            rustc_error = e;
        }
    }
    let total = st.count;
    st.finish();
    std::fs::write(o.out.join("lrc.ascent"), ascent).unwrap();
    std::fs::write(o.out.join("lrc.ctx"), ctxfile).unwrap();
    std::fs::write(o.out.join("lrc.grammars"), grammars_text.join("\n=====\n")).unwrap();
    let _ = std::fs::remove_dir_all(&gen_dir);
    println!(
        "{{\"cases\":{},\"grammars\":{},\"attempts\":{},\"compile_s\":{:.1},\"rustc_error\":{},\"sample_grammar\":{},\"hist\":{}}}",
        total,
        ng,
        attempts,
        compile_s,
        json_str(&rustc_error.chars().take(3000).collect::<String>()),
        json_str(grammars_text.first().map(|s| s.as_str()).unwrap_or("")),
        h.json()
    );
}
