//! C02 (lowering part) and C06 (`@L`/`@R` part): the real lalrpop vs the Lean model `lpm_lower`.
//!
//! `--part lower` writes into --out
//!   lower.req/.impl    stage tie: `stage_dump(tyinfer)` + nonterminal types -> canonical form of
//!                      `stage_dump(lower)` (productions, action fns: patterns, types, code, fallible)
//!   braces.req/.impl   `check_between_braces` through the prevalidation verdict
//!   lowval.req/.impl   value leg: typed grammars compiled by rustc; the value printed by the real
//!                      parser vs the model's lowered action functions evaluated over the derivation
//! `--part look` writes
//!   look.req/.impl     start/end/value sources parsed from generated inline `__actionN` bodies
//!   lookc_t.*, lookc_a.*   compiled parsers (table-driven / recursive ascent) printing every `@L`/`@R`
//!                      on gapped token spans vs the C06 rule evaluated on the derivation
//! args: --seed S --out DIR --part lower|look [--variant 10] [--n N] [--braces K] [--vals G] [--emit K] [--comp G]
use std::collections::{BTreeMap, BTreeSet};
use std::fmt::Write as _;
use verif_harness::*;

// ---------------------------------------------------------------- S-expressions
#[derive(Clone, Debug, PartialEq)]
enum Sx {
    A(String),
    L(Vec<Sx>),
}

fn sx_parse(s: &str) -> Option<Sx> {
    let mut stack: Vec<Vec<Sx>> = vec![vec![]];
    let mut cur = String::new();
    for c in s.chars() {
        match c {
            '(' | ')' | ' ' | '\n' | '\t' => {
                if !cur.is_empty() {
                    stack.last_mut()?.push(Sx::A(std::mem::take(&mut cur)));
                }
                if c == '(' {
                    stack.push(vec![]);
                } else if c == ')' {
                    let top = stack.pop()?;
                    stack.last_mut()?.push(Sx::L(top));
                }
            }
            c => cur.push(c),
        }
    }
    if !cur.is_empty() {
        stack.last_mut()?.push(Sx::A(cur));
    }
    if stack.len() != 1 || stack[0].len() != 1 {
        return None;
    }
    stack.pop()?.pop()
}

impl Sx {
    fn head(&self) -> Option<&str> {
        match self {
            Sx::L(v) => match v.first() {
                Some(Sx::A(a)) => Some(a),
                _ => None,
            },
            _ => None,
        }
    }
    /// items after the head atom
    fn items(&self) -> &[Sx] {
        match self {
            Sx::L(v) if !v.is_empty() => &v[1..],
            _ => &[],
        }
    }
    fn atom(&self) -> Option<&str> {
        match self {
            Sx::A(a) => Some(a),
            _ => None,
        }
    }
    fn find(&self, tag: &str) -> Option<&Sx> {
        self.items().iter().find(|x| x.head() == Some(tag))
    }
    fn show(&self) -> String {
        match self {
            Sx::A(a) => a.clone(),
            Sx::L(v) => format!("({})", v.iter().map(|x| x.show()).collect::<Vec<_>>().join(" ")),
        }
    }
}

fn lst(tag: &str, items: &[String]) -> String {
    let mut s = format!("({tag}");
    for i in items {
        s.push(' ');
        s.push_str(i);
    }
    s.push(')');
    s
}

fn stage(text: &str, st: &str) -> String {
    match std::panic::catch_unwind(|| lalrpop::verif_hooks::stage_dump(text, None, st)) {
        Ok(s) => s,
        Err(_) => "panic".to_string(),
    }
}

// ---------------------------------------------------------------- canonical form of a lower dump
struct PtNt {
    name: String, // hex atom
    is_pub: bool,
    inline: bool,
    alts: Vec<Sx>,
}

fn pt_nts(pt: &Sx) -> Vec<PtNt> {
    let mut out = vec![];
    if let Some(items) = pt.find("items") {
        for it in items.items() {
            if it.head() != Some("nt") {
                continue;
            }
            let f = it.items();
            let name = f[0].atom().unwrap_or("").to_string();
            let is_pub = f[1].atom() != Some("priv");
            let inline = f[2].items().iter().any(|a| {
                a.items().first().and_then(|x| x.atom()).and_then(dec_str).as_deref() == Some("inline")
            });
            let alts = f[5].items().to_vec();
            out.push(PtNt { name, is_pub, inline, alts });
        }
    }
    out
}

fn prefix_hex(g: &Sx) -> String {
    g.find("prefix").and_then(|p| p.items().first()).and_then(|a| a.atom()).unwrap_or("x").to_string()
}

fn types_of(low: &Sx) -> String {
    let mut items = vec![];
    if let Some(nts) = low.find("nonterminals") {
        for nt in nts.items() {
            let f = nt.items();
            items.push(format!("({} {})", f[0].show(), f[2].show()));
        }
    }
    lst("types", &items)
}

fn canon_lower(pt: &Sx, low: &Sx) -> Option<String> {
    let pfx = prefix_hex(pt);
    let nts = pt_nts(pt);
    let mut low_nts: BTreeMap<String, Vec<Sx>> = BTreeMap::new();
    for nt in low.find("nonterminals")?.items() {
        let f = nt.items();
        low_nts.insert(f[0].atom()?.to_string(), f[3].items().to_vec());
    }
    let mut syms_of: BTreeMap<usize, Vec<Sx>> = BTreeMap::new();
    for prods in low_nts.values() {
        for p in prods {
            let f = p.items();
            let idx: usize = f[0].atom()?.parse().ok()?;
            syms_of.insert(idx, f[1].items().to_vec());
        }
    }
    let show_prods = |ps: &Vec<Sx>| ps.iter().map(|p| p.show()).collect::<Vec<_>>().join(" ");
    let mut starts = vec![];
    for n in nts.iter().filter(|n| n.is_pub) {
        let fake = format!("{}{}", pfx, &n.name[1..]);
        let ps = low_nts.get(&fake)?;
        starts.push(format!("(start (nonterminal {}) {})", fake, show_prods(ps)));
    }
    let mut ntl = vec![];
    for n in &nts {
        let ps = low_nts.get(&n.name)?;
        ntl.push(format!("(nt (nonterminal {}) {})", n.name, show_prods(ps)));
    }
    let mut acts = vec![];
    for a in low.find("actions")?.items() {
        let f = a.items();
        let idx: usize = f[0].atom()?.parse().ok()?;
        let kind = &f[3];
        match kind.head() {
            Some("user") => {
                let k = kind.items();
                let syms = syms_of.get(&idx);
                let types: Vec<String> = k[1]
                    .items()
                    .iter()
                    .enumerate()
                    .map(|(i, t)| {
                        let is_term = syms.and_then(|s| s.get(i)).map(|s| s.head() == Some("terminal"));
                        match is_term {
                            Some(true) => "T".to_string(),
                            Some(false) => t.show(),
                            None => "?".to_string(),
                        }
                    })
                    .collect();
                acts.push(format!(
                    "(actionfn {} {} {} (user {} {} {}))",
                    idx,
                    f[1].show(),
                    f[2].show(),
                    k[0].show(),
                    lst("types", &types),
                    k[2].show()
                ));
            }
            Some("lookahead") | Some("lookbehind") => {
                acts.push(format!("(actionfn {} {} L {})", idx, f[1].show(), kind.show()));
            }
            _ => acts.push(a.show()),
        }
    }
    Some(format!("ok {} {} {}", lst("starts", &starts), lst("nts", &ntl), lst("actions", &acts)))
}

// ---------------------------------------------------------------- part 1a: surface grammars for the stage tie
const TERMS: &[&str] = &["a", "b", "c", "d", "e", "f", "g", "h", "i", "j"];

fn gen_code(r: &mut Rng, want_angles: usize, named: bool, loose: bool, h: &mut Hist) -> String {
    // pieces joined with or without blanks; `<>` appears `want_angles` times at the top level of the
    // piece list plus, sometimes, inside strings and braces
    let idents = ["foo", "x", "mk", "Bar", "__q", "a1", "v"];
    let mut parts: Vec<String> = vec![];
    let n_fill = r.below(4);
    for _ in 0..n_fill {
        parts.push(match r.below(9) {
            0 => format!("{}(", r.pick(&idents)),
            1 if loose || named => "\"s<>t\"".to_string(),
            2 if loose || named => "\"{<>}\"".to_string(),
            3 => "< >".to_string(),
            4 => "(1)".to_string(),
            5 => "\"q\"".to_string(),
            6 => "<<".to_string(),
            7 => "[0]".to_string(),
            _ => r.pick(&idents).to_string(),
        });
    }
    for _ in 0..want_angles {
        let form = if named { r.below(7) } else { r.below(5) };
        let p = match form {
            0 | 1 => "<>".to_string(),
            2 => "(<>)".to_string(),
            3 => "<<>>".to_string(),
            4 => "f(<>, 1)".to_string(),
            5 => "P {<>}".to_string(),
            _ => "P { <> }".to_string(),
        };
        let at = r.below(parts.len() + 1);
        parts.insert(at, p);
    }
    // balance the `name(` openers
    let opens = parts.iter().filter(|p| p.ends_with('(')).count();
    let mut s = String::new();
    for (i, p) in parts.iter().enumerate() {
        if i > 0 && r.chance(2, 3) {
            s.push(' ');
        }
        s.push_str(p);
    }
    for _ in 0..opens {
        s.push(')');
    }
    if s.trim().is_empty() {
        s = "()".to_string();
    }
    h.hit(&format!("code:angles={}", want_angles.min(4)));
    s
}

fn wrap_base(r: &mut Rng, nts: &[String]) -> (String, bool) {
    // (text, is a plain terminal/nonterminal)
    match r.below(12) {
        0..=4 => (format!("\"{}\"", r.pick(TERMS)), true),
        5..=7 if !nts.is_empty() => (r.pick(nts).clone(), true),
        8 => (format!("\"{}\"?", r.pick(TERMS)), false),
        9 => (format!("\"{}\"*", r.pick(TERMS)), false),
        10 if !nts.is_empty() => (format!("(\"{}\" <{}>)", r.pick(TERMS), r.pick(nts)), false),
        11 if !nts.is_empty() => (format!("{}+", r.pick(nts)), false),
        _ => (format!("\"{}\"", r.pick(TERMS)), true),
    }
}

fn gen_surface(r: &mut Rng, h: &mut Hist) -> String {
    let mut s = String::new();
    let allow_mismatch = r.chance(1, 7);
    if r.chance(1, 6) {
        s.push_str("// uses __ so that the prefix grows\n");
    }
    s.push_str("grammar;\n");
    // tuple-typed helpers for tuple patterns
    s.push_str("TP: (String, String) = \"t\" \"u\" => (<>.to_string(), <>.to_string());\n");
    s.push_str("TQ: (String, (String, String)) = \"t\" \"v\" <p:TP> => (\"q\".to_string(), p);\n");
    let k = 2 + r.below(4);
    let names: Vec<String> = (0..k).map(|i| format!("N{i}")).collect();
    let var_pool = ["a", "b", "c", "x", "y", "v", "e", "n0", "n1"];
    for i in 0..k {
        let later: Vec<String> = names[i + 1..].to_vec();
        let n_alts = 1 + r.below(3);
        let declared = match r.below(7) {
            0 => Some("()"),
            1 | 2 => Some("String"),
            3 => Some("(String, String)"),
            4 => Some("Vec<String>"),
            _ => None,
        };
        let mut alts: Vec<String> = vec![];
        let untyped = declared.is_none();
        let n_alts = if untyped { 1 } else { n_alts };
        for _ in 0..n_alts {
            let n_sym = if !untyped && r.chance(1, 8) { 0 } else { 1 + r.below(4) };
            let mode = if untyped { r.below(2) } else { r.below(5) }; // 0 plain 1 chosen 2 named 3 tuple(+chosen) 4 named+tuple
            let mut syms: Vec<String> = vec![];
            let mut used: BTreeSet<&str> = BTreeSet::new();
            let mut selected = 0usize;
            let mut chosen = 0usize;
            let mut any_named = false;
            for _ in 0..n_sym {
                let (base, _) = wrap_base(r, &later);
                let fresh = |r: &mut Rng, used: &mut BTreeSet<&'static str>| -> &'static str {
                    for _ in 0..20 {
                        let v = *r.pick(&var_pool);
                        if used.insert(v) {
                            return v;
                        }
                    }
                    "zz"
                };
                let mut used_s: BTreeSet<&'static str> = used.iter().map(|x| *x as &'static str).collect();
                let sym = match mode {
                    1 if r.chance(1, 2) => {
                        chosen += 1;
                        format!("<{base}>")
                    }
                    2 | 4 if r.chance(1, 2) => {
                        any_named = true;
                        selected += 1;
                        let v = fresh(r, &mut used_s);
                        if r.chance(1, 4) {
                            format!("<mut {v}:{base}>")
                        } else {
                            format!("<{v}:{base}>")
                        }
                    }
                    3 | 4 if r.chance(1, 3) => {
                        any_named = true;
                        selected += 1;
                        let (a, b, c) = (fresh(r, &mut used_s), fresh(r, &mut used_s), fresh(r, &mut used_s));
                        match r.below(10) {
                            0..=2 => format!("<({a}, {b}):TP>"),
                            3..=5 => format!("<(mut {a}, {b}):TP>"),
                            6..=8 => format!("<({a}, ({b}, mut {c})):TQ>"),
                            _ => format!("<({a}, {b}, {c}):TP>"), // wrong arity: rejected by tyinfer
                        }
                    }
                    3 if r.chance(1, 3) => {
                        chosen += 1;
                        format!("<{base}>")
                    }
                    _ => base,
                };
                used = used_s;
                syms.push(sym);
            }
            if !any_named {
                selected = if chosen > 0 { chosen } else { n_sym };
            }
            let action = if any_named || n_sym == 0 || (!untyped && r.chance(3, 5)) {
                let want = match r.below(10) {
                    0 => 0,
                    1..=4 => 1,
                    5..=7 => selected,           // counted: matches
                    8 if allow_mismatch => selected + 1, // counted: mismatch (error unless <= 1)
                    9 if allow_mismatch => 2,
                    _ => selected.min(3),
                };
                let code = gen_code(r, want, any_named, allow_mismatch, h);
                let arrow = if r.chance(1, 4) { "=>?" } else { "=>" };
                format!(" {arrow} {code}")
            } else {
                String::new()
            };
            h.hit(&format!("alt:mode={mode}"));
            alts.push(format!("{}{}", syms.join(" "), action));
        }
        let vis = if i == 0 || r.chance(1, 4) { "pub " } else { "" };
        let ty = declared.map(|t| format!(": {t}")).unwrap_or_default();
        writeln!(s, "{vis}{}{ty} = {{ {} }};", names[i], alts.join(", ")).unwrap();
    }
    s
}

/// shape of an alternative in a parse-tree dump: wrapper kinds, action kind, number of `<>`
fn alt_shapes(pt: &Sx, shapes: &mut BTreeSet<String>) -> usize {
    let mut n = 0;
    for nt in pt_nts(pt) {
        for alt in &nt.alts {
            let f = alt.items();
            let kinds: String = f[0]
                .items()
                .iter()
                .map(|s| match s.head() {
                    Some("choose") => 'c',
                    Some("named") => 'n',
                    Some("tupled") => 't',
                    _ => 'p',
                })
                .collect();
            let act = &f[2];
            let code = act.items().first().and_then(|a| a.atom()).and_then(dec_str).unwrap_or_default();
            let angles = code.matches("<>").count();
            shapes.insert(format!("{kinds}/{}/{angles}", act.head().unwrap_or("?")));
            n += 1;
        }
    }
    n
}

// ---------------------------------------------------------------- part 1b: check_between_braces
fn gen_brace_code(r: &mut Rng) -> String {
    let ws = ["", " ", "  ", "\t", "\u{a0}", " \n ", "\u{2003}"];
    // (before, after): balanced as far as lalrpop's tokenizer is concerned
    let pairs: &[(&str, &str)] = &[
        ("", ""),
        ("Foo {", "}"),
        ("{", "}"),
        ("Foo{", "}.f()"),
        ("(", ")"),
        ("\"a{", "}\""),
        ("\"foo\",a{", "}"),
        ("\"foo\",\"a{", "}\""),
        ("f(\"", "\")"),
        ("{ x", "}"),
        ("{", "x }"),
        ("{} ", ""),
        ("\"}\" {", "}"),
        ("{", "} \"{\""),
        ("[{", "}]"),
        ("\"\" {", "}"),
        ("S { a: 1, b: {", "} }"),
        ("\"q\" + {", "} + \"q"),
        ("({", "})"),
        ("{(", ")}"),
        ("x }", "{ y"),
    ];
    let (pre, post) = *r.pick(pairs);
    let mut s = String::new();
    s.push_str(pre);
    s.push_str(*r.pick(&ws));
    if r.chance(9, 10) {
        s.push_str("<>");
    } else {
        s.push_str("< >");
    }
    s.push_str(*r.pick(&ws));
    s.push_str(post);
    if r.chance(1, 4) {
        s.push_str(" + g({<>})");
    }
    if r.chance(1, 6) {
        s = format!("{{<>}} {s}");
    }
    s
}

// ---------------------------------------------------------------- derivations over a parse-tree dump
#[derive(Clone, Debug)]
enum DSym {
    T(String),
    N(String),
}

struct DGram {
    alts: BTreeMap<String, Vec<Vec<DSym>>>,
    height: BTreeMap<String, usize>,
}

fn strip_sym(s: &Sx) -> Option<DSym> {
    match s.head()? {
        "terminal" => {
            let t = &s.items()[0];
            match t.head()? {
                "quoted" => Some(DSym::T(dec_str(t.items()[0].atom()?)?)),
                _ => None,
            }
        }
        "nonterminal" => Some(DSym::N(s.items()[0].atom()?.to_string())),
        "choose" => strip_sym(&s.items()[0]),
        "named" | "tupled" => strip_sym(&s.items()[1]),
        _ => None,
    }
}

fn dgram(pt: &Sx) -> Option<DGram> {
    let mut alts = BTreeMap::new();
    for nt in pt_nts(pt) {
        let mut v = vec![];
        for a in &nt.alts {
            let syms: Option<Vec<DSym>> = a.items()[0].items().iter().map(strip_sym).collect();
            v.push(syms?);
        }
        alts.insert(nt.name.clone(), v);
    }
    // minimal derivation height per nonterminal
    let mut height: BTreeMap<String, usize> = BTreeMap::new();
    loop {
        let mut changed = false;
        for (n, av) in &alts {
            for a in av {
                let mut hmax = 0usize;
                let mut ok = true;
                for s in a {
                    if let DSym::N(m) = s {
                        match height.get(m) {
                            Some(x) => hmax = hmax.max(*x),
                            None => ok = false,
                        }
                    }
                }
                if ok {
                    let hv = hmax + 1;
                    if height.get(n).is_none_or(|old| hv < *old) {
                        height.insert(n.clone(), hv);
                        changed = true;
                    }
                }
            }
        }
        if !changed {
            break;
        }
    }
    Some(DGram { alts, height })
}

fn alt_height(g: &DGram, a: &[DSym]) -> Option<usize> {
    let mut hmax = 0;
    for s in a {
        if let DSym::N(m) = s {
            hmax = hmax.max(*g.height.get(m)?);
        }
    }
    Some(hmax + 1)
}

/// random derivation: returns the tree text `(n x<nt> <alt> kids…)` and appends the tokens
fn derive(g: &DGram, r: &mut Rng, nt: &str, budget: usize, toks: &mut Vec<String>) -> Option<String> {
    let av = g.alts.get(nt)?;
    let fits: Vec<usize> = (0..av.len()).filter(|&i| alt_height(g, &av[i]).is_some_and(|x| x <= budget.max(1))).collect();
    let ai = if fits.is_empty() {
        // take the shallowest
        (0..av.len()).filter(|&i| alt_height(g, &av[i]).is_some()).min_by_key(|&i| alt_height(g, &av[i]).unwrap())?
    } else {
        *r.pick(&fits)
    };
    let mut s = format!("(n {nt} {ai}");
    for sym in &av[ai] {
        match sym {
            DSym::T(t) => {
                toks.push(t.clone());
                write!(s, " (t {})", enc_str(t)).unwrap();
            }
            DSym::N(m) => {
                let sub = derive(g, r, m, budget.saturating_sub(1), toks)?;
                s.push(' ');
                s.push_str(&sub);
            }
        }
    }
    s.push(')');
    Some(s)
}

// ---------------------------------------------------------------- part 1c: typed grammars for the value leg
#[derive(Clone, PartialEq, Debug)]
enum Ty {
    Tok,
    Str,
    Unit,
    Tup(Vec<Ty>),
    Vec(Box<Ty>),
    Opt(Box<Ty>),
}

fn ty_rust(t: &Ty) -> String {
    match t {
        Ty::Tok => "&'input str".into(),
        Ty::Str => "String".into(),
        Ty::Unit => "()".into(),
        Ty::Tup(v) => format!("({})", v.iter().map(ty_rust).collect::<Vec<_>>().join(", ")),
        Ty::Vec(t) => format!("Vec<{}>", ty_rust(t)),
        Ty::Opt(t) => format!("Option<{}>", ty_rust(t)),
    }
}

struct VSym {
    text: String,
    ty: Ty,
}

fn gen_vsym(r: &mut Rng, later: &[(String, Ty)], avoid: Option<&str>) -> VSym {
    let term = |r: &mut Rng| -> &'static str {
        loop {
            let t = *r.pick(TERMS);
            if Some(t) != avoid {
                return t;
            }
        }
    };
    match r.below(20) {
        0..=7 => VSym { text: format!("\"{}\"", term(r)), ty: Ty::Tok },
        8..=13 if !later.is_empty() => {
            let tuples: Vec<&(String, Ty)> = later.iter().filter(|(_, t)| matches!(t, Ty::Tup(v) if v.len() == 2)).collect();
            let (n, t) = if !tuples.is_empty() && r.chance(1, 2) { (*r.pick(&tuples)).clone() } else { r.pick(later).clone() };
            VSym { text: n, ty: t }
        }
        14 => VSym { text: format!("\"{}\"?", term(r)), ty: Ty::Opt(Box::new(Ty::Tok)) },
        15 => VSym { text: format!("\"{}\"*", term(r)), ty: Ty::Vec(Box::new(Ty::Tok)) },
        16 => VSym { text: format!("\"{}\"+", term(r)), ty: Ty::Vec(Box::new(Ty::Tok)) },
        17 if !later.is_empty() => {
            let (n, t) = r.pick(later).clone();
            VSym { text: format!("(\"{}\" <{}>)", term(r), n), ty: t }
        }
        18 if !later.is_empty() => {
            let (n, t) = r.pick(later).clone();
            VSym { text: format!("(\"{}\" {})", term(r), n), ty: Ty::Tup(vec![Ty::Tok, t]) }
        }
        19 if !later.is_empty() => {
            let (n, t) = r.pick(later).clone();
            VSym { text: format!("{}?", n), ty: Ty::Opt(Box::new(t)) }
        }
        _ => VSym { text: format!("\"{}\"", term(r)), ty: Ty::Tok },
    }
}

/// one alternative with an explicit action producing a `String`
fn explicit_alt(r: &mut Rng, label: &str, syms: &[VSym], tuple_fixed: bool, h: &mut Hist) -> String {
    let n = syms.len();
    let vars = ["a", "b", "c", "d", "e"];
    let fallible = r.chance(1, 5);
    let wrap = |code: String| if fallible { format!("=>? Ok({code})") } else { format!("=> {code}") };
    let has_tuple2 = syms.iter().position(|s| matches!(&s.ty, Ty::Tup(v) if v.len() == 2));
    let has_string = syms.iter().position(|s| s.ty == Ty::Str);
    // binding forms that need a particular type are taken when the type is there
    let style = if has_tuple2.is_some() && r.chance(3, 5) {
        6 + r.below(2)
    } else if has_string.is_some() && r.chance(1, 4) {
        5
    } else {
        r.below(8)
    };
    match style {
        // anonymous: all symbols
        0 => {
            h.hit("val:anon-all");
            format!("{} {}", syms.iter().map(|s| s.text.clone()).collect::<Vec<_>>().join(" "), wrap(format!("mk(\"{label}\", (<>))")))
        }
        // `<X>` on a subset
        1 if n > 0 => {
            h.hit("val:anon-chosen");
            let mut any = false;
            let mut parts = vec![];
            for (i, s) in syms.iter().enumerate() {
                if r.chance(1, 2) || (!any && i == n - 1) {
                    any = true;
                    parts.push(format!("<{}>", s.text));
                } else {
                    parts.push(s.text.clone());
                }
            }
            format!("{} {}", parts.join(" "), wrap(format!("mk(\"{label}\", (<>))")))
        }
        // counted `<>`
        2 if n >= 2 => {
            h.hit("val:anon-counted");
            let angles = vec!["<>"; n].join(", ");
            format!("{} {}", syms.iter().map(|s| s.text.clone()).collect::<Vec<_>>().join(" "), wrap(format!("mk(\"{label}\", ({angles}))")))
        }
        // named, names used explicitly in permuted order
        3 | 4 if n > 0 => {
            let mut parts = vec![];
            let mut names = vec![];
            for (i, s) in syms.iter().enumerate() {
                if names.len() < vars.len() && (r.chance(2, 3) || (names.is_empty() && i == n - 1)) {
                    let v = vars[names.len()];
                    names.push(v);
                    parts.push(format!("<{v}:{}>", s.text));
                } else {
                    parts.push(s.text.clone());
                }
            }
            let code = if names == ["a", "b"] && r.chance(1, 2) {
                h.hit("val:named-braces");
                format!("mk(\"{label}\", P {{<>}})")
            } else if style == 3 {
                h.hit("val:named-angle");
                format!("mk(\"{label}\", (<>))")
            } else {
                h.hit("val:named-permuted");
                let mut p: Vec<&str> = names.clone();
                p.reverse();
                if p.len() == 1 {
                    format!("mk(\"{label}\", {})", p[0])
                } else {
                    format!("mk(\"{label}\", ({}))", p.join(", "))
                }
            };
            format!("{} {}", parts.join(" "), wrap(code))
        }
        // `mut` binding of a String that the action changes
        5 if has_string.is_some() => {
            h.hit("val:named-mut");
            let k = has_string.unwrap();
            let mut parts = vec![];
            let mut names = vec![];
            for (i, s) in syms.iter().enumerate() {
                if i == k {
                    names.push("s");
                    parts.push(format!("<mut s:{}>", s.text));
                } else if names.len() < 4 && r.chance(1, 2) {
                    let v = vars[names.len()];
                    names.push(v);
                    parts.push(format!("<{v}:{}>", s.text));
                } else {
                    parts.push(s.text.clone());
                }
            }
            format!("{} {}", parts.join(" "), wrap(format!("{{ s.push('!'); mk(\"{label}\", (<>)) }}")))
        }
        // tuple pattern
        6 | 7 if has_tuple2.is_some() => {
            let k = has_tuple2.unwrap();
            let comp_string = matches!(&syms[k].ty, Ty::Tup(v) if v[0] == Ty::Str);
            let mut parts = vec![];
            let mut others = vec![];
            let with_mut = comp_string && style == 7;
            for (i, s) in syms.iter().enumerate() {
                if i == k {
                    parts.push(if with_mut { format!("<(mut p, q):{}>", s.text) } else { format!("<(p, q):{}>", s.text) });
                } else if others.len() < 3 && r.chance(1, 2) {
                    let v = vars[others.len()];
                    others.push(v);
                    parts.push(format!("<{v}:{}>", s.text));
                } else {
                    parts.push(s.text.clone());
                }
            }
            let code = if with_mut {
                h.hit("val:tuple-mut");
                if tuple_fixed {
                    format!("{{ p.push('!'); mk(\"{label}\", (<>)) }}")
                } else {
                    format!("{{ p.push('!'); mk(\"{label}\", (q, p)) }}")
                }
            } else if r.chance(1, 2) {
                h.hit("val:tuple-angle");
                format!("mk(\"{label}\", (<>))")
            } else {
                h.hit("val:tuple-permuted");
                format!("mk(\"{label}\", (q, p))")
            };
            format!("{} {}", parts.join(" "), wrap(code))
        }
        _ => {
            h.hit("val:anon-all");
            format!("{} {}", syms.iter().map(|s| s.text.clone()).collect::<Vec<_>>().join(" "), wrap(format!("mk(\"{label}\", (<>))")))
        }
    }
}

fn gen_value_grammar(r: &mut Rng, ascent: bool, tuple_fixed: bool, h: &mut Hist) -> String {
    let k = 3 + r.below(4);
    // generated from the last to the first so that references point forward
    let mut defs: Vec<String> = vec![String::new(); k];
    let mut later: Vec<(String, Ty)> = vec![];
    for i in (0..k).rev() {
        let name = format!("V{i}");
        let kind = if i == 0 { r.below(6) } else { r.below(10) };
        let mut text = String::new();
        let ty;
        match kind {
            // explicit actions, String
            0..=5 => {
                let n_alts = 1 + r.below(3);
                let mut alts = vec![];
                let mut markers: Vec<&str> = TERMS.to_vec();
                for ai in 0..n_alts {
                    let m = markers.remove(r.below(markers.len()));
                    let mut syms = vec![VSym { text: format!("\"{m}\""), ty: Ty::Tok }];
                    let extra = r.below(4);
                    let mut last_nullable: Option<String> = None;
                    for _ in 0..extra {
                        let s = gen_vsym(r, &later, last_nullable.as_deref());
                        last_nullable = None;
                        if s.text.ends_with('?') || s.text.ends_with('*') || s.text.ends_with('+') {
                            last_nullable = s.text.get(1..2).map(|x| x.to_string());
                        }
                        syms.push(s);
                    }
                    if r.chance(1, 4) {
                        syms.rotate_left(1); // marker not always first
                    }
                    alts.push(explicit_alt(r, &format!("{name}_{ai}"), &syms, tuple_fixed, h));
                }
                ty = Ty::Str;
                writeln!(text, "{}{name}: String = {{ {} }};", if i == 0 { "pub " } else { "" }, alts.join(", ")).unwrap();
            }
            // default action: single / tuple / all
            6..=8 => {
                let m = *r.pick(TERMS);
                let mut syms = vec![VSym { text: format!("\"{m}\""), ty: Ty::Tok }];
                for _ in 0..r.below(3) {
                    syms.push(gen_vsym(r, &later, None));
                }
                if r.chance(1, 3) {
                    syms.rotate_left(1);
                }
                let choose = r.chance(2, 3);
                let mut sel: Vec<Ty> = vec![];
                let mut parts = vec![];
                if choose {
                    let n = syms.len();
                    for (j, s) in syms.iter().enumerate() {
                        if r.chance(1, 2) || (sel.is_empty() && j == n - 1) {
                            sel.push(s.ty.clone());
                            parts.push(format!("<{}>", s.text));
                        } else {
                            parts.push(s.text.clone());
                        }
                    }
                    h.hit(&format!("val:default-chosen={}", sel.len().min(3)));
                } else {
                    for s in &syms {
                        sel.push(s.ty.clone());
                        parts.push(s.text.clone());
                    }
                    h.hit(&format!("val:default-all={}", sel.len().min(3)));
                }
                ty = if sel.len() == 1 { sel[0].clone() } else { Ty::Tup(sel) };
                let decl = if r.chance(1, 2) { format!(": {}", ty_rust(&ty)) } else { String::new() };
                writeln!(text, "{}{name}{decl} = {};", if i == 0 { "pub " } else { "" }, parts.join(" ")).unwrap();
            }
            // unit
            _ => {
                let m = *r.pick(TERMS);
                let mut parts = vec![format!("\"{m}\"")];
                for _ in 0..r.below(2) {
                    parts.push(gen_vsym(r, &later, None).text);
                }
                ty = Ty::Unit;
                h.hit("val:unit");
                let act = if r.chance(1, 3) { " => ()" } else { "" };
                writeln!(text, "{}{name}: () = {}{act};", if i == 0 { "pub " } else { "" }, parts.join(" ")).unwrap();
            }
        }
        defs[i] = text;
        later.insert(0, (name, ty));
    }
    let mut s = String::from("use crate::{mk, P};\n");
    if ascent {
        s.push_str("#[recursive_ascent]\n");
    }
    s.push_str("grammar;\n");
    for d in defs {
        s.push_str(&d);
    }
    s
}

const VAL_PRELUDE: &str = r#"
#![allow(unused, non_snake_case, clippy::all)]
pub trait Sh { fn sh(&self) -> String; }
impl Sh for String { fn sh(&self) -> String { self.clone() } }
impl<'a> Sh for &'a str { fn sh(&self) -> String { self.to_string() } }
impl Sh for () { fn sh(&self) -> String { "()".to_string() } }
impl<A: Sh> Sh for (A,) { fn sh(&self) -> String { format!("({})", self.0.sh()) } }
impl<A: Sh, B: Sh> Sh for (A, B) { fn sh(&self) -> String { format!("({},{})", self.0.sh(), self.1.sh()) } }
impl<A: Sh, B: Sh, C: Sh> Sh for (A, B, C) { fn sh(&self) -> String { format!("({},{},{})", self.0.sh(), self.1.sh(), self.2.sh()) } }
impl<A: Sh, B: Sh, C: Sh, D: Sh> Sh for (A, B, C, D) { fn sh(&self) -> String { format!("({},{},{},{})", self.0.sh(), self.1.sh(), self.2.sh(), self.3.sh()) } }
impl<A: Sh, B: Sh, C: Sh, D: Sh, E: Sh> Sh for (A, B, C, D, E) { fn sh(&self) -> String { format!("({},{},{},{},{})", self.0.sh(), self.1.sh(), self.2.sh(), self.3.sh(), self.4.sh()) } }
impl<A: Sh, B: Sh, C: Sh, D: Sh, E: Sh, F: Sh> Sh for (A, B, C, D, E, F) { fn sh(&self) -> String { format!("({},{},{},{},{},{})", self.0.sh(), self.1.sh(), self.2.sh(), self.3.sh(), self.4.sh(), self.5.sh()) } }
impl<T: Sh> Sh for Vec<T> { fn sh(&self) -> String { format!("[{}]", self.iter().map(|x| x.sh()).collect::<Vec<_>>().join(",")) } }
impl<T: Sh> Sh for Option<T> { fn sh(&self) -> String { match self { None => "None".to_string(), Some(x) => format!("Some({})", x.sh()) } } }
pub struct P<A, B> { pub a: A, pub b: B }
impl<A: Sh, B: Sh> Sh for P<A, B> { fn sh(&self) -> String { format!("{{a={},b={}}}", self.a.sh(), self.b.sh()) } }
pub fn mk<T: Sh>(l: &str, t: T) -> String { format!("{l}{}", t.sh()) }
"#;

// ---------------------------------------------------------------- part 2: `@L`/`@R`
#[derive(Clone, Debug)]
enum It {
    T(usize),
    N(usize),
    Opt(usize),
    Star(usize),
    L,
    R,
    Param,                 // the parameter `T` inside a macro definition
    M(usize, Box<It>),     // use of the macro `nts[i]` with a terminal or nonterminal argument
}

#[derive(Clone, Debug)]
struct A2 {
    items: Vec<It>,
    label: String,
}

#[derive(Clone, Debug)]
struct N2 {
    inline: bool,
    is_macro: bool,
    alts: Vec<A2>,
}

fn gen_look_grammar(r: &mut Rng, h: &mut Hist) -> Vec<N2> {
    let k = 3 + r.below(4);
    // user macros `M<T>` live behind the ordinary nonterminals (indices k..)
    let n_macros = if r.chance(2, 3) { 1 + r.below(2) } else { 0 };
    let mut nts: Vec<N2> = vec![];
    for i in 0..k {
        let inline = i > 0 && r.chance(1, 2);
        let shape = r.below(10); // 0,1: a single empty alternative; 2,3: normal + empty; else normal (1-2 alternatives)
        let mut alts = vec![];
        let mut markers: Vec<usize> = (0..TERMS.len()).collect();
        let look_run = |r: &mut Rng, items: &mut Vec<It>| {
            for _ in 0..(1 + r.below(3)) {
                items.push(if r.chance(1, 2) { It::L } else { It::R });
            }
        };
        let normal = |r: &mut Rng, markers: &mut Vec<usize>, h: &mut Hist| -> Vec<It> {
            let mut items = vec![];
            let m = markers.remove(r.below(markers.len()));
            if r.chance(1, 3) {
                look_run(r, &mut items);
                h.hit("look:front");
            }
            items.push(It::T(m));
            let extra = if i == 0 { 3 + r.below(4) } else { r.below(5) };
            let mut last_inner: Option<usize> = None;
            for e in 0..extra {
                let avoid = last_inner.take();
                let mut term = |r: &mut Rng| loop {
                    let t = r.below(TERMS.len());
                    if Some(t) != avoid {
                        return t;
                    }
                };
                let roll = if i == 0 && e < 2 { 3 } else if i == 0 && e == 2 && n_macros > 0 { 12 } else { r.below(14) };
                match roll {
                    12 | 13 if n_macros > 0 => {
                        let arg = if i + 1 < k && r.chance(1, 2) { It::N(i + 1 + r.below(k - i - 1)) } else { It::T(term(r)) };
                        items.push(It::M(k + r.below(n_macros), Box::new(arg)));
                        h.hit("look:macro-use");
                    }
                    0..=1 => items.push(It::T(term(r))),
                    2..=5 if i + 1 < k => items.push(It::N(i + 1 + r.below(k - i - 1))),
                    6 | 7 => {
                        look_run(r, &mut items);
                        h.hit("look:middle");
                    }
                    8 | 9 => {
                        let t = term(r);
                        last_inner = Some(t);
                        items.push(It::Opt(t));
                        h.hit("look:near-opt");
                    }
                    10 => {
                        let t = term(r);
                        last_inner = Some(t);
                        items.push(It::Star(t));
                        h.hit("look:near-star");
                    }
                    _ => items.push(It::T(term(r))),
                }
            }
            if r.chance(1, 3) {
                look_run(r, &mut items);
                h.hit("look:end");
            }
            items
        };
        let empty = |r: &mut Rng, h: &mut Hist| -> Vec<It> {
            let mut items = vec![];
            if r.chance(4, 5) {
                look_run(r, &mut items);
            }
            h.hit("look:empty-alternative");
            items
        };
        match shape {
            0 | 1 if i > 0 => alts.push(empty(r, h)),
            2 | 3 if i > 0 => {
                alts.push(normal(r, &mut markers, h));
                alts.push(empty(r, h));
            }
            4..=6 => {
                alts.push(normal(r, &mut markers, h));
                alts.push(normal(r, &mut markers, h));
            }
            _ => alts.push(normal(r, &mut markers, h)),
        }
        let alts = alts.into_iter().enumerate().map(|(ai, items)| A2 { items, label: format!("N{i}_{ai}") }).collect();
        nts.push(N2 { inline, is_macro: false, alts });
    }
    // macro definitions: `@L`/`@R` around the parameter, `@R` followed by further symbols,
    // `@L` preceded by symbols
    for m in 0..n_macros {
        let looks = |r: &mut Rng, items: &mut Vec<It>| {
            for _ in 0..(1 + r.below(2)) {
                items.push(if r.chance(1, 2) { It::L } else { It::R });
            }
        };
        let n_alts = 1 + r.below(2);
        let mut markers: Vec<usize> = (0..TERMS.len()).collect();
        let mut alts = vec![];
        for ai in 0..n_alts {
            let mut items = vec![];
            if n_alts > 1 || r.chance(1, 2) {
                if r.chance(1, 3) {
                    looks(r, &mut items);
                }
                items.push(It::T(markers.remove(r.below(markers.len()))));
            }
            if r.chance(3, 4) {
                looks(r, &mut items);
            }
            items.push(It::Param);
            if r.chance(4, 5) {
                looks(r, &mut items);
            }
            if r.chance(3, 4) {
                items.push(It::T(r.below(TERMS.len())));
                if r.chance(1, 2) {
                    looks(r, &mut items);
                }
            }
            h.hit("look:macro-alternative");
            alts.push(A2 { items, label: format!("M{m}_{ai}") });
        }
        nts.push(N2 { inline: false, is_macro: true, alts });
    }
    nts
}

/// number of productions after inlining (cross product of the alternatives of inlined symbols)
fn look_size(nts: &[N2]) -> u64 {
    let k = nts.len();
    let mut count = vec![0u64; k];
    for i in (0..k).rev() {
        let mut total = 0u64;
        for a in &nts[i].alts {
            let mut p = 1u64;
            for it in &a.items {
                let f = match it {
                    It::N(j) if nts[*j].inline => count[*j].max(1),
                    It::Opt(_) | It::Star(_) => 2,
                    // every use instantiates the macro: count its productions with the host
                    It::M(m, arg) => {
                        let a = match **arg {
                            It::N(j) if nts[j].inline => count[j].max(1),
                            _ => 1,
                        };
                        1 + count[*m].saturating_mul(a) / 4
                    }
                    _ => 1,
                };
                p = p.saturating_mul(f);
            }
            total = total.saturating_add(p);
        }
        count[i] = total;
    }
    (0..k).filter(|&i| !nts[i].inline).map(|i| count[i]).fold(0u64, |a, b| a.saturating_add(b))
}

fn render_item(it: &It) -> String {
    match it {
        It::T(t) => format!("\"{}\"", TERMS[*t]),
        It::N(j) => format!("N{j}"),
        It::Opt(t) => format!("\"{}\"?", TERMS[*t]),
        It::Star(t) => format!("\"{}\"*", TERMS[*t]),
        It::L => "@L".to_string(),
        It::R => "@R".to_string(),
        It::Param => "T".to_string(),
        It::M(m, arg) => format!("M{m}<{}>", render_item(arg)),
    }
}

fn render_look(nts: &[N2], ascent: bool) -> String {
    let mut s = String::from("use crate::R;\n");
    if ascent {
        s.push_str("#[recursive_ascent]\n");
    }
    s.push_str("grammar;\n");
    let k = nts.iter().filter(|n| !n.is_macro).count();
    for (i, n) in nts.iter().enumerate() {
        if n.inline {
            s.push_str("#[inline]\n");
        }
        if n.is_macro {
            write!(s, "M{}<T>: String = {{\n", i - k).unwrap();
        } else {
            write!(s, "{}N{i}: String = {{\n", if i == 0 { "pub " } else { "" }).unwrap();
        }
        for a in &n.alts {
            let mut parts = vec![];
            let mut args = vec![];
            for (x, it) in a.items.iter().enumerate() {
                let sym = match it {
                    It::M(m, arg) => format!("M{}<{}>", m - k, render_item(arg)),
                    other => render_item(other),
                };
                parts.push(format!("<x{x}:{sym}>"));
                args.push(format!("x{x}.r()"));
            }
            let fmt = vec!["{}"; args.len()].join(" ");
            let sep = if args.is_empty() { "" } else { " " };
            let comma = if args.is_empty() { "" } else { ", " };
            writeln!(s, "    {} => format!(\"({}{sep}{fmt})\"{comma}{}),", parts.join(" "), a.label, args.join(", ")).unwrap();
        }
        s.push_str("};\n");
    }
    s
}

/// derivation tree of the look grammars; tokens get their index, spans are filled in afterwards
#[derive(Clone, Debug)]
enum LT {
    U(Option<String>, String, Vec<LT>), // name of the nonterminal when it is inlined, label, kids
    O(String, Vec<LT>),                 // name of the `X?` nonterminal
    S(String, Vec<LT>),
    T(String, usize),
    L,
    R,
}

fn derive_item(nts: &[N2], r: &mut Rng, it: &It, param: Option<&It>, toks: &mut Vec<String>) -> LT {
    match it {
        It::T(t) => {
            toks.push(TERMS[*t].to_string());
            LT::T(TERMS[*t].to_string(), toks.len() - 1)
        }
        It::N(j) => derive_look(nts, r, *j, None, toks),
        It::Opt(t) => {
            let name = format!("\"{}\"?", TERMS[*t]);
            if r.chance(1, 2) {
                toks.push(TERMS[*t].to_string());
                LT::O(name, vec![LT::T(TERMS[*t].to_string(), toks.len() - 1)])
            } else {
                LT::O(name, vec![])
            }
        }
        It::Star(t) => {
            let mut v = vec![];
            for _ in 0..r.below(4) {
                toks.push(TERMS[*t].to_string());
                v.push(LT::T(TERMS[*t].to_string(), toks.len() - 1));
            }
            LT::S(format!("\"{}\"*", TERMS[*t]), v)
        }
        It::L => LT::L,
        It::R => LT::R,
        // the parameter stands for the argument of this instance (a terminal or a nonterminal)
        It::Param => match param {
            Some(a) => derive_item(nts, r, a, None, toks),
            None => LT::L,
        },
        It::M(m, arg) => derive_look(nts, r, *m, Some(arg), toks),
    }
}

fn derive_look(nts: &[N2], r: &mut Rng, i: usize, param: Option<&It>, toks: &mut Vec<String>) -> LT {
    let n = &nts[i];
    let a = r.pick(&n.alts);
    let mut kids = vec![];
    for it in &a.items {
        kids.push(derive_item(nts, r, it, param, toks));
    }
    LT::U(if n.inline { Some(format!("N{i}")) } else { None }, a.label.clone(), kids)
}

fn show_lt(t: &LT, spans: &[(usize, usize)], rank: &BTreeMap<String, usize>) -> String {
    let rk = |n: &str| rank.get(n).map(|x| x.to_string()).unwrap_or_else(|| "?".to_string());
    match t {
        LT::U(inl, l, ks) => {
            let mut s = match inl {
                Some(n) => format!("(u 1 {} {}", rk(n), enc_str(l)),
                None => format!("(u 0 - {}", enc_str(l)),
            };
            for k in ks {
                s.push(' ');
                s.push_str(&show_lt(k, spans, rank));
            }
            s.push(')');
            s
        }
        LT::O(n, ks) | LT::S(n, ks) => {
            let mut s = format!("({} {}", if matches!(t, LT::O(..)) { "o" } else { "s" }, rk(n));
            for k in ks {
                s.push(' ');
                s.push_str(&show_lt(k, spans, rank));
            }
            s.push(')');
            s
        }
        LT::T(x, i) => format!("(t {} {} {})", enc_str(x), spans[*i].0, spans[*i].1),
        LT::L => format!("(L {})", rk("@L")),
        LT::R => format!("(R {})", rk("@R")),
    }
}

/// position of every `#[inline]` nonterminal in `inline_order`, from the model of the inliner
/// (`lpm_inline order`, the C14 driver), keyed by name
fn inline_ranks(lpm_inline: &str, text: &str) -> BTreeMap<String, usize> {
    use std::io::Write;
    let mut m = BTreeMap::new();
    let lower = stage(text, "lower");
    let Some(lower_sx) = lower.strip_prefix("ok ") else { return m };
    let pt = stage(text, "tyinfer");
    let Some(psx) = pt.strip_prefix("ok ").and_then(sx_parse) else { return m };
    let names: Vec<String> = pt_nts(&psx).into_iter().filter(|n| n.inline).map(|n| n.name).collect();
    let names_s = if names.is_empty() { "-".to_string() } else { names.join(",") };
    let Ok(mut child) = std::process::Command::new(lpm_inline)
        .stdin(std::process::Stdio::piped())
        .stdout(std::process::Stdio::piped())
        .spawn()
    else {
        return m;
    };
    writeln!(child.stdin.take().unwrap(), "order {names_s} {lower_sx}").unwrap();
    let out = child.wait_with_output().unwrap();
    let line = String::from_utf8_lossy(&out.stdout).trim().to_string();
    if let Some(list) = line.strip_prefix("ok ") {
        for (i, hexname) in list.split(',').enumerate() {
            if let Some(n) = dec_str(hexname) {
                m.insert(n, i);
            }
        }
    }
    m
}

const LOOK_PRELUDE: &str = r#"
#![allow(unused, non_snake_case, clippy::all)]
pub trait R { fn r(&self) -> String; }
impl R for String { fn r(&self) -> String { self.clone() } }
impl<'a> R for &'a str { fn r(&self) -> String { self.to_string() } }
impl R for usize { fn r(&self) -> String { self.to_string() } }
impl<T: R> R for Option<T> { fn r(&self) -> String { match self { None => "~".to_string(), Some(x) => x.r() } } }
impl<T: R> R for Vec<T> { fn r(&self) -> String { format!("[{}]", self.iter().map(|x| x.r()).collect::<Vec<_>>().join(" ")) } }
"#;

// ---- emitted bodies -------------------------------------------------------------------------
/// (parameter lines, body lines) of `fn {prefix}action{idx}`, trimmed
fn action_fn(code: &str, prefix: &str, idx: usize) -> Option<(Vec<String>, Vec<String>)> {
    let head1 = format!("fn {prefix}action{idx}<");
    let head2 = format!("fn {prefix}action{idx}(");
    let lines: Vec<&str> = code.lines().collect();
    let start = lines.iter().position(|l| l.starts_with(&head1) || l.starts_with(&head2))?;
    let open = (start..lines.len()).find(|&i| lines[i] == "{")?;
    let close = (open..lines.len()).find(|&i| lines[i] == "}")?;
    // parameters: the lines between the line `>(` (or the header line ending in `(`) and `) -> …`
    let pstart = (start..open).find(|&i| lines[i].trim_end().ends_with('('))?;
    let pend = (pstart..open).find(|&i| lines[i].starts_with(')'))?;
    let params = lines[pstart + 1..pend].iter().map(|l| l.trim().to_string()).collect();
    let body = lines[open + 1..close].iter().map(|l| l.trim().to_string()).collect();
    Some((params, body))
}

fn src_of(rhs: &str, prefix: &str) -> String {
    // `__3.0.clone()` -> a3.0 ; `__lookbehind.clone()` -> lb
    let x = rhs.trim_end_matches(';').trim_end_matches(".clone()");
    if let Some(rest) = x.strip_prefix(prefix) {
        if rest == "lookbehind" {
            return "lb".into();
        }
        if rest == "lookahead" {
            return "la".into();
        }
        if let Some((i, f)) = rest.split_once('.') {
            if i.chars().all(|c| c.is_ascii_digit()) && (f == "0" || f == "2") {
                return format!("a{i}.{f}");
            }
        }
    }
    format!("?{rhs}")
}

/// what the generated body of an inline action function does, in the vocabulary of `lookAnswer`
fn emitted_look(code: &str, prefix: &str, idx: usize, looks: &BTreeMap<usize, char>) -> Option<String> {
    let (_, body) = action_fn(code, prefix, idx)?;
    let mut starts: BTreeMap<usize, String> = BTreeMap::new();
    let mut ends: BTreeMap<usize, String> = BTreeMap::new();
    let mut order: Vec<usize> = vec![];
    let mut values: BTreeMap<usize, String> = BTreeMap::new();
    let ps = format!("let {prefix}start");
    let pe = format!("let {prefix}end");
    let pt = format!("let {prefix}temp");
    let mut i = 0;
    while i < body.len() {
        let l = &body[i];
        if let Some(rest) = l.strip_prefix(&ps) {
            let (k, rhs) = rest.split_once(" = ")?;
            let k: usize = k.parse().ok()?;
            order.push(k);
            starts.insert(k, src_of(rhs, prefix));
        } else if let Some(rest) = l.strip_prefix(&pe) {
            let (k, rhs) = rest.split_once(" = ")?;
            ends.insert(k.parse().ok()?, src_of(rhs, prefix));
        } else if let Some(rest) = l.strip_prefix(&pt) {
            let (k, rhs) = rest.split_once(" = ")?;
            let k: usize = k.parse().ok()?;
            let call = format!("{prefix}action");
            if let Some(r2) = rhs.strip_prefix(&call) {
                let act: usize = r2.trim_end_matches('(').parse().ok()?;
                // positional arguments that are locations
                let mut locs: Vec<String> = vec![];
                let mut j = i + 1;
                let mut flat_args = 0;
                while j < body.len() && !body[j].starts_with(')') {
                    let a = body[j].trim_end_matches(',');
                    if let Some(x) = a.strip_prefix('&') {
                        locs.push(x.to_string());
                    } else if a.starts_with(prefix) {
                        flat_args += 1;
                    }
                    j += 1;
                }
                if let Some(kind) = looks.get(&act) {
                    if flat_args > 0 || locs.len() != 2 {
                        values.insert(k, "nonempty-lookaround".into());
                    } else {
                        // which parameter does the lookaround function return?
                        let (params, lbody) = action_fn(code, prefix, act)?;
                        let loc_params: Vec<String> = params
                            .iter()
                            .filter_map(|p| p.split_once(':').map(|(n, _)| n.trim().to_string()))
                            .filter(|n| n == &format!("{prefix}lookbehind") || n == &format!("{prefix}lookahead"))
                            .collect();
                        let ret = lbody.first()?.trim_start_matches('*').to_string();
                        let pos = loc_params.iter().position(|p| *p == ret)?;
                        let actual = &locs[pos];
                        let v = if *actual == format!("{prefix}start{k}") {
                            starts.get(&k).cloned()
                        } else if *actual == format!("{prefix}end{k}") {
                            ends.get(&k).cloned()
                        } else {
                            Some(format!("?{actual}"))
                        }?;
                        let _ = kind;
                        values.insert(k, v);
                    }
                }
                i = j;
            }
        }
        i += 1;
    }
    let mut items = vec![];
    for k in order {
        items.push(format!("S{k}={}", starts.get(&k)?));
        items.push(format!("E{k}={}", ends.get(&k)?));
        if let Some(v) = values.get(&k) {
            items.push(format!("V{k}={v}"));
        }
    }
    Some(items.join("|"))
}

fn look_cases(inl_dump: &str, code: &str, st: &mut Streams, h: &mut Hist, shapes: &mut BTreeSet<String>) {
    let Some(top) = sx_parse(inl_dump.strip_prefix("ok ").unwrap_or("")) else { return };
    let prefix_hex = prefix_hex(&top);
    let prefix = dec_str(&prefix_hex).unwrap_or_default();
    let Some(actions) = top.find("actions") else { return };
    let mut looks: BTreeMap<usize, char> = BTreeMap::new();
    for a in actions.items() {
        let f = a.items();
        let idx: usize = f[0].atom().unwrap().parse().unwrap();
        match f[3].head() {
            Some("lookahead") => {
                looks.insert(idx, 'L');
            }
            Some("lookbehind") => {
                looks.insert(idx, 'R');
            }
            _ => {}
        }
    }
    let looks_s = if looks.is_empty() {
        "-".to_string()
    } else {
        looks.iter().map(|(i, k)| format!("{i}:{k}")).collect::<Vec<_>>().join(",")
    };
    for a in actions.items() {
        let f = a.items();
        let idx: usize = f[0].atom().unwrap().parse().unwrap();
        let kind = &f[3];
        if kind.head() != Some("inline") {
            continue;
        }
        // only functions that inline at least one symbol without symbols are interesting here
        let syms = kind.items()[1].items();
        let has_empty = syms.iter().any(|s| s.head() == Some("inlined") && s.items()[1].items().is_empty());
        if !has_empty {
            continue;
        }
        let req = format!("look {} {} {}", prefix_hex, looks_s, kind.show());
        let imp = emitted_look(code, &prefix, idx, &looks).unwrap_or_else(|| "unparsed-body".to_string());
        // shape: o = original, e = inlined empty lookaround, z = inlined empty other, n = inlined non-empty
        let shape: String = syms
            .iter()
            .map(|s| {
                if s.head() == Some("original") {
                    'o'
                } else {
                    let act: usize = s.items()[0].atom().unwrap().parse().unwrap();
                    let empty = s.items()[1].items().is_empty();
                    match (empty, looks.get(&act)) {
                        (true, Some('L')) => 'L',
                        (true, Some(_)) => 'R',
                        (true, None) => 'z',
                        (false, _) => 'n',
                    }
                }
            })
            .collect();
        shapes.insert(shape);
        h.hit("look:inline-action-fn");
        st.case(&req, &imp);
    }
}

// ---------------------------------------------------------------- main
fn main() {
    let o = parse_opts();
    std::panic::set_hook(Box::new(|_| {}));
    let mut part = String::from("lower");
    let mut variant = String::from("10");
    let mut n_braces = 400usize;
    let mut n_vals = 24usize;
    let mut n_emit = 60usize;
    let mut n_comp = 12usize;
    let mut lpm_inline = String::from("/verif/lean/.lake/build/bin/lpm_inline");
    let mut it = o.extra.iter();
    while let Some(a) = it.next() {
        match a.as_str() {
            "--part" => part = it.next().unwrap().clone(),
            "--variant" => variant = it.next().unwrap().clone(),
            "--braces" => n_braces = it.next().unwrap().parse().unwrap(),
            "--vals" => n_vals = it.next().unwrap().parse().unwrap(),
            "--emit" => n_emit = it.next().unwrap().parse().unwrap(),
            "--comp" => n_comp = it.next().unwrap().parse().unwrap(),
            "--lpm-inline" => lpm_inline = it.next().unwrap().clone(),
            _ => {}
        }
    }
    let tuple_fixed = variant.ends_with('1');
    let mut r = Rng::new(o.seed);
    let mut h = Hist::default();
    let mut findings: Vec<String> = vec![];
    if part == "lower" {
        // ---- 1a. stage tie
        let mut st = Streams::create(&o.out, "lower");
        let mut shapes: BTreeSet<String> = BTreeSet::new();
        let mut alts_total = 0usize;
        let mut tries = 0usize;
        let mut sample = String::new();
        // fixed witnesses first: the panic / error path of an empty alternative, tuple names
        let mut texts: Vec<String> = vec![
            "grammar;\npub A: String = => foo(<>, <>);\n".into(),
            "grammar;\npub A: String = \"a\" => foo(<>, <>);\n".into(),
            "grammar;\npub A: String = <(mut a, b):B> \"c\" => format!(\"{}\", (<>).0);\nB: (String, String) = \"x\" \"y\" => (<>.to_string(), <>.to_string());\n".into(),
            "grammar;\npub A: String = <(a, b):B> <c:\"c\"> => P {<>}.show();\nB: (String, String) = \"x\" \"y\" => (<>.to_string(), <>.to_string());\n".into(),
            "grammar;\npub A: () = \"a\" B;\nB = \"b\" <\"c\"> \"d\";\npub C = \"c\" \"d\";\nD: () = => ();\nE: String = => <>;\n".into(),
        ];
        while st.count < o.n && tries < o.n * 6 {
            tries += 1;
            let text = if !texts.is_empty() { texts.remove(0) } else { gen_surface(&mut r, &mut h) };
            let pt = stage(&text, "tyinfer");
            if !pt.starts_with("ok ") {
                let stg = pt.split(' ').nth(1).unwrap_or("?").to_string();
                h.hit(&format!("rejected:{stg}"));
                if std::env::var("LOWER_DUMP_REJECTED").is_ok() {
                    eprintln!("REJECTED {pt}\n{text}");
                }
                continue;
            }
            let pt_sx_text = &pt[3..];
            let Some(pt_sx) = sx_parse(pt_sx_text) else { continue };
            let low = stage(&text, "lower");
            let (types, imp) = if let Some(l) = low.strip_prefix("ok ") {
                let Some(lsx) = sx_parse(l) else { continue };
                (types_of(&lsx), canon_lower(&pt_sx, &lsx).unwrap_or_else(|| "uncanonical".into()))
            } else {
                h.hit(&format!("lower-outcome:{}", low.split(' ').next().unwrap_or("?")));
                ("(types)".to_string(), low.clone())
            };
            alts_total += alt_shapes(&pt_sx, &mut shapes);
            if sample.is_empty() && st.count == 7 {
                sample = text.clone();
            }
            st.case(&format!("lower {variant} {types} {pt_sx_text}"), &imp);
        }
        let stage_cases = st.count;
        st.finish();

        // ---- 1b. check_between_braces
        let mut bt = Streams::create(&o.out, "braces");
        let mut btries = 0;
        while bt.count < n_braces && btries < n_braces * 4 {
            btries += 1;
            let code = gen_brace_code(&mut r);
            let text = format!("grammar;\npub A: () = \"a\" => {code};\n");
            let p = stage(&text, "parse");
            let Some(psx) = p.strip_prefix("ok ").and_then(sx_parse) else {
                h.hit("braces:unparsable");
                continue;
            };
            let nts = pt_nts(&psx);
            let Some(act) = nts.first().and_then(|n| n.alts.first()).map(|a| a.items()[2].clone()) else { continue };
            if act.head() != Some("user") {
                continue;
            }
            let hex = act.items()[0].atom().unwrap_or("x").to_string();
            let v = stage(&text, "prevalidate");
            let imp = if v.starts_with("ok ") {
                "other"
            } else if v.starts_with("error prevalidate ") {
                let msg = v.split(' ').nth(2).and_then(dec_str).unwrap_or_default();
                if msg.starts_with("Using `<>` between curly braces") {
                    "curly"
                } else {
                    h.hit("braces:other-error");
                    continue;
                }
            } else {
                continue;
            };
            h.hit(&format!("braces:{imp}"));
            bt.case(&format!("braces {hex}"), imp);
        }
        let brace_cases = bt.count;
        bt.finish();

        // ---- 1c. value leg
        let mut vt = Streams::create(&o.out, "lowval");
        let gen_dir = o.out.join("lowgen");
        struct VG {
            text: String,
            req: String,
            n_actions: String,
            inputs: Vec<(String, String)>, // (input text, tree)
        }
        let mut grams: Vec<VG> = vec![];
        let mut vtries = 0;
        let mut files: Vec<(String, String)> = vec![];
        while grams.len() < n_vals && vtries < n_vals * 40 {
            vtries += 1;
            let ascent = grams.len() % 2 == 1;
            let text = gen_value_grammar(&mut r, ascent, tuple_fixed, &mut h);
            let pt = stage(&text, "tyinfer");
            let Some(pt_text) = pt.strip_prefix("ok ") else {
                h.hit(&format!("val-rejected:{}", pt.split(' ').nth(1).unwrap_or("?")));
                continue;
            };
            let low = stage(&text, "lower");
            let Some(lsx) = low.strip_prefix("ok ").and_then(sx_parse) else {
                h.hit("val-rejected:lower");
                continue;
            };
            let stem = format!("g{}", grams.len());
            let code = match generate_parser(&gen_dir, &stem, &text, |_| {}) {
                Ok(c) => c,
                Err(_) => {
                    h.hit("val-rejected:not-lr1");
                    continue;
                }
            };
            let Some(psx) = sx_parse(pt_text) else { continue };
            let Some(dg) = dgram(&psx) else {
                h.hit("val-rejected:underivable");
                continue;
            };
            let start = enc_str("V0");
            let mut inputs = vec![];
            let mut seen = BTreeSet::new();
            for _ in 0..40 {
                let mut toks = vec![];
                let budget = 2 + r.below(5);
                if let Some(tree) = derive(&dg, &mut r, &start, budget, &mut toks) {
                    let inp = toks.join(" ");
                    if seen.insert(inp.clone()) {
                        inputs.push((inp, tree));
                    }
                }
                if inputs.len() >= 12 {
                    break;
                }
            }
            if inputs.is_empty() {
                continue;
            }
            let n_actions = lsx.find("actions").map(|a| a.items().len()).unwrap_or(0);
            h.hit(if ascent { "val:backend=ascent" } else { "val:backend=table" });
            files.push((format!("src/{stem}.rs"), code));
            grams.push(VG {
                req: format!("vgram {variant} {} {pt_text}", types_of(&lsx)),
                n_actions: format!("ok {n_actions}"),
                text,
                inputs,
            });
        }
        let mut val_inputs = 0usize;
        if !grams.is_empty() {
            let mut main = String::from(VAL_PRELUDE);
            let mut body = String::from("fn main() {\n");
            for (gi, g) in grams.iter().enumerate() {
                writeln!(main, "mod g{gi};").unwrap();
                writeln!(
                    main,
                    "const INPUTS_{gi}: &[&str] = &[{}];",
                    g.inputs.iter().map(|(s, _)| format!("{s:?}")).collect::<Vec<_>>().join(", ")
                )
                .unwrap();
                writeln!(body, "    {{ let p = g{gi}::V0Parser::new();").unwrap();
                writeln!(body, "      for (i, inp) in INPUTS_{gi}.iter().enumerate() {{").unwrap();
                writeln!(body, "        match p.parse(inp) {{ Ok(v) => println!(\"{gi} {{i}} {{}}\", v.sh()), Err(e) => println!(\"{gi} {{i}} ERR {{:?}}\", e) }}").unwrap();
                writeln!(body, "    }} }}").unwrap();
            }
            body.push_str("}\n");
            main.push_str(&body);
            files.push(("src/main.rs".into(), main));
            match build_scratch_crate(&o.out.join("lowcrate"), "lower_vals", &files) {
                Ok(exe) => {
                    let outp = std::process::Command::new(&exe).output().expect("run value exe");
                    let text = String::from_utf8_lossy(&outp.stdout).into_owned();
                    let mut table: BTreeMap<(usize, usize), String> = BTreeMap::new();
                    for line in text.lines() {
                        let mut f = line.splitn(3, ' ');
                        let (Some(g), Some(i), Some(rest)) = (f.next(), f.next(), f.next()) else { continue };
                        table.insert((g.parse().unwrap(), i.parse().unwrap()), rest.to_string());
                    }
                    for (gi, g) in grams.iter().enumerate() {
                        vt.case(&g.req, &g.n_actions);
                        for (ii, (_, tree)) in g.inputs.iter().enumerate() {
                            let imp = table.get(&(gi, ii)).cloned().unwrap_or_else(|| "<no output>".into());
                            vt.case(&format!("veval {tree}"), &imp);
                            val_inputs += 1;
                        }
                    }
                }
                Err(e) => {
                    // lalrpop accepted every module: a rustc error is a finding of its own (C19)
                    findings.push(format!(
                        "{{\"kind\":\"rustc-error\",\"stderr\":{},\"grammars\":[{}]}}",
                        json_str(&e.chars().take(3000).collect::<String>()),
                        grams.iter().map(|g| json_str(&g.text)).collect::<Vec<_>>().join(",")
                    ));
                }
            }
        }
        let val_grammars = grams.len();
        let val_sample = grams.first().map(|g| g.text.clone()).unwrap_or_default();
        // texts of the grammars by index, for replays of value disagreements
        let gram_texts: Vec<String> = grams.iter().map(|g| json_str(&g.text)).collect();
        let input_texts: Vec<String> = grams
            .iter()
            .map(|g| format!("[{}]", g.inputs.iter().map(|(s, _)| json_str(s)).collect::<Vec<_>>().join(",")))
            .collect();
        vt.finish();
        println!(
            "{{\"part\":\"lower\",\"stage_cases\":{stage_cases},\"alternatives\":{alts_total},\"distinct_alt_shapes\":{},\"brace_cases\":{brace_cases},\"val_grammars\":{val_grammars},\"val_inputs\":{val_inputs},\"hist\":{},\"sample_grammar\":{},\"val_sample_grammar\":{},\"val_grammar_texts\":[{}],\"val_inputs_texts\":[{}],\"findings\":[{}]}}",
            shapes.len(),
            h.json(),
            json_str(&sample),
            json_str(&val_sample),
            gram_texts.join(","),
            input_texts.join(","),
            findings.join(",")
        );
    } else {
        // ---- 2a. emitted bodies, 2b. compiled parsers
        let mut st = Streams::create(&o.out, "look");
        let gen_dir = o.out.join("lookgen");
        let mut shapes: BTreeSet<String> = BTreeSet::new();
        struct LG {
            text_t: String,
            inputs: Vec<(String, String)>, // (input text, tree)
        }
        let mut comp: Vec<LG> = vec![];
        let mut files: Vec<(String, String)> = vec![];
        let mut emitted = 0usize;
        let mut comp_bytes = 0usize;
        let mut tries = 0usize;
        let mut sample = String::new();
        while (emitted < n_emit || (comp.len() < n_comp && comp_bytes < 900_000)) && tries < (n_emit + n_comp) * 12 {
            tries += 1;
            let nts = if tries == 1 {
                // fixed witness: `@L` directly followed by `@R` between two tokens
                vec![N2 { inline: false, is_macro: false, alts: vec![A2 { items: vec![It::T(2), It::L, It::R, It::T(3)], label: "W".into() }] }]
            } else if tries == 2 {
                // fixed witness: `@L`/`@R` inside a macro definition, `@R` followed by a further symbol,
                // instantiated with a terminal and with a nonterminal
                vec![
                    N2 { inline: false, is_macro: false, alts: vec![A2 { items: vec![It::M(2, Box::new(It::T(0))), It::M(2, Box::new(It::N(1)))], label: "W2".into() }] },
                    N2 { inline: false, is_macro: false, alts: vec![A2 { items: vec![It::T(4), It::R], label: "W2b".into() }] },
                    N2 { inline: false, is_macro: true, alts: vec![A2 { items: vec![It::L, It::Param, It::R, It::T(3)], label: "M0_0".into() }] },
                ]
            } else {
                gen_look_grammar(&mut r, &mut h)
            };
            if look_size(&nts) > 160 {
                h.hit("look-skipped:too-many-inlined-productions");
                continue;
            }
            let text_t = render_look(&nts, false);
            let t_try = std::time::Instant::now();
            let trace = std::env::var("LOWER_TRACE").is_ok();
            let inl = stage(&text_t, "inline");
            if trace {
                eprintln!("try {tries}: inline dump {} bytes in {:?}", inl.len(), t_try.elapsed());
            }
            if !inl.starts_with("ok ") || inl.len() > 60_000 {
                h.hit("look-rejected:normalize-or-size");
                continue;
            }
            let stem = format!("l{}", emitted);
            let code_t = match generate_parser(&gen_dir, &stem, &text_t, |_| {}) {
                Ok(c) => c,
                Err(_) => {
                    h.hit("look-rejected:not-lr1");
                    continue;
                }
            };
            if trace {
                eprintln!("try {tries}: generated {} bytes at {:?}", code_t.len(), t_try.elapsed());
            }
            look_cases(&inl, &code_t, &mut st, &mut h, &mut shapes);
            emitted += 1;
            if sample.is_empty() {
                sample = text_t.clone();
            }
            if comp.len() < n_comp && code_t.len() < 110_000 && comp_bytes < 900_000 {
                let text_a = render_look(&nts, true);
                if trace {
                    eprintln!("try {tries}: ascent generation starts (table-driven {} bytes)\n{text_t}", code_t.len());
                }
                let code_a = match generate_parser(&gen_dir, &format!("{stem}a"), &text_a, |_| {}) {
                    Ok(c) => c,
                    Err(_) => {
                        h.hit("look-rejected:ascent-generation");
                        continue;
                    }
                };
                if code_a.len() > 200_000 {
                    h.hit("look-skipped:ascent-too-large");
                    continue;
                }
                comp_bytes += code_t.len() + code_a.len();
                let rank = inline_ranks(&lpm_inline, &text_t);
                if rank.is_empty() {
                    h.hit("look-skipped:no-inline-order");
                    continue;
                }
                let mut inputs = vec![];
                let mut seen = BTreeSet::new();
                for _ in 0..60 {
                    let mut toks = vec![];
                    let tree = derive_look(&nts, &mut r, 0, None, &mut toks);
                    // layout: leading gap 0-3, gaps 1-3 between tokens, trailing gap 0-2
                    let mut text = " ".repeat(r.below(4));
                    let mut spans = vec![];
                    for (i, t) in toks.iter().enumerate() {
                        if i > 0 {
                            text.push_str(&" ".repeat(1 + r.below(3)));
                        }
                        spans.push((text.len(), text.len() + t.len()));
                        text.push_str(t);
                    }
                    text.push_str(&" ".repeat(r.below(3)));
                    if seen.insert(toks.join(" ")) {
                        inputs.push((text, show_lt(&tree, &spans, &rank)));
                    }
                    if inputs.len() >= 14 {
                        break;
                    }
                }
                let gi = comp.len();
                files.push((format!("src/t{gi}.rs"), code_t));
                files.push((format!("src/a{gi}.rs"), code_a));
                comp.push(LG { text_t, inputs });
            }
        }
        let look_cases_n = st.count;
        st.finish();
        let mut ct = Streams::create(&o.out, "lookc_t");
        let mut ca = Streams::create(&o.out, "lookc_a");
        let mut cr = Streams::create(&o.out, "lookrule");
        let mut comp_inputs = 0usize;
        if !comp.is_empty() {
            let mut main = String::from(LOOK_PRELUDE);
            let mut body = String::from("fn main() {\n");
            for (gi, g) in comp.iter().enumerate() {
                writeln!(main, "mod t{gi};\nmod a{gi};").unwrap();
                writeln!(
                    main,
                    "const INPUTS_{gi}: &[&str] = &[{}];",
                    g.inputs.iter().map(|(s, _)| format!("{s:?}")).collect::<Vec<_>>().join(", ")
                )
                .unwrap();
                for v in ["t", "a"] {
                    writeln!(body, "    {{ let p = {v}{gi}::N0Parser::new();").unwrap();
                    writeln!(body, "      for (i, inp) in INPUTS_{gi}.iter().enumerate() {{").unwrap();
                    writeln!(body, "        match p.parse(inp) {{ Ok(v) => println!(\"{v} {gi} {{i}} {{}}\", v), Err(e) => println!(\"{v} {gi} {{i}} ERR {{:?}}\", e) }}").unwrap();
                    writeln!(body, "    }} }}").unwrap();
                }
            }
            body.push_str("}\n");
            main.push_str(&body);
            files.push(("src/main.rs".into(), main));
            match build_scratch_crate(&o.out.join("lookcrate"), "look_vals", &files) {
                Ok(exe) => {
                    let outp = std::process::Command::new(&exe).output().expect("run look exe");
                    let text = String::from_utf8_lossy(&outp.stdout).into_owned();
                    let mut table: BTreeMap<(String, usize, usize), String> = BTreeMap::new();
                    for line in text.lines() {
                        let mut f = line.splitn(4, ' ');
                        let (Some(v), Some(g), Some(i), Some(rest)) = (f.next(), f.next(), f.next(), f.next()) else { continue };
                        table.insert((v.to_string(), g.parse().unwrap(), i.parse().unwrap()), rest.to_string());
                    }
                    for (gi, g) in comp.iter().enumerate() {
                        for (ii, (_, tree)) in g.inputs.iter().enumerate() {
                            let req = format!("lookmodel {tree}");
                            let t_out = table.get(&("t".into(), gi, ii)).cloned().unwrap_or_else(|| "<no output>".into());
                            ct.case(&req, &t_out);
                            ca.case(&req, &table.get(&("a".into(), gi, ii)).cloned().unwrap_or_else(|| "<no output>".into()));
                            // the property itself: the C06 rule on the derivation vs the real parser
                            cr.case(&format!("lookeval {tree}"), &t_out);
                            comp_inputs += 1;
                        }
                    }
                }
                Err(e) => {
                    findings.push(format!(
                        "{{\"kind\":\"rustc-error\",\"stderr\":{},\"grammars\":[{}]}}",
                        json_str(&e.chars().take(3000).collect::<String>()),
                        comp.iter().map(|g| json_str(&g.text_t)).collect::<Vec<_>>().join(",")
                    ));
                }
            }
        }
        ct.finish();
        ca.finish();
        cr.finish();
        let gram_texts: Vec<String> = comp.iter().map(|g| json_str(&g.text_t)).collect();
        let input_texts: Vec<String> = comp
            .iter()
            .map(|g| format!("[{}]", g.inputs.iter().map(|(s, _)| json_str(s)).collect::<Vec<_>>().join(",")))
            .collect();
        println!(
            "{{\"part\":\"look\",\"emit_grammars\":{emitted},\"look_cases\":{look_cases_n},\"distinct_symbol_shapes\":{},\"comp_grammars\":{},\"comp_inputs\":{comp_inputs},\"hist\":{},\"sample_grammar\":{},\"comp_grammar_texts\":[{}],\"comp_inputs_texts\":[{}],\"findings\":[{}]}}",
            shapes.len(),
            comp.len(),
            h.json(),
            json_str(&sample),
            gram_texts.join(","),
            input_texts.join(","),
            findings.join(",")
        );
    }
}
