//! C23: output path mapping.  Random directory trees (nesting, `src` at several depths, symlinked
//! files and directories, dangling links, loops, fifos, dotted / hidden / white-space / non-UTF-8
//! names, non-`.lalrpop` files) are processed by the real API (`process_dir`, `process`,
//! `use_cargo_dir_conventions`, `generate_in_source_tree`, `process_file`) in-process and by the
//! CLI binary, in scratch directories; the resulting `.rs` files, the rerun directives printed to
//! stdout and the result are written in the format of `lpm_path` (paths.req / paths.impl).
#[path = "wpd_common/mod.rs"]
mod common;
use common::*;
use std::ffi::OsString;
use std::fs;
use std::io::Write;
use std::os::unix::ffi::{OsStrExt, OsStringExt};
use std::path::{Component, Path, PathBuf};
use verif_harness::*;

unsafe extern "C" {
    fn dup(fd: i32) -> i32;
    fn dup2(a: i32, b: i32) -> i32;
    fn mkfifo(path: *const u8, mode: u32) -> i32;
}

const GOOD: &str = "grammar;\npub T: () = \"a\" => ();\n";
const BAD: &str = "grammar;\npub T: () = \"a\" X => ();\n";

#[derive(Clone, Debug)]
enum N {
    File(bool),
    Dir(Vec<(Vec<u8>, N)>),
    LinkFile(bool),
    LinkDir(Vec<(Vec<u8>, N)>),
    Dangling,
    Fifo,
    Loop,
}

fn os(name: &[u8]) -> OsString {
    OsString::from_vec(name.to_vec())
}

fn enc_path(p: &Path) -> String {
    let mut v = vec![];
    for c in p.components() {
        v.push(match c {
            Component::RootDir => "R".to_string(),
            Component::CurDir => "C".to_string(),
            Component::ParentDir => "P".to_string(),
            Component::Normal(n) => format!("N{}", &enc_bytes(n.as_bytes())[1..]),
            Component::Prefix(_) => "X".to_string(),
        });
    }
    if v.is_empty() { "E".into() } else { v.join("/") }
}

const DIR_NAMES: &[&[u8]] = &[b"a", b"b", b"src", b"sub", b"x.y", b".hid", b"sp ace", "ünï".as_bytes(), b"a.lalrpop", b"\xffd", b"deep"];
const FILE_NAMES: &[&[u8]] = &[
    b"g.lalrpop", b"h.lalrpop", b"src.lalrpop", b"x.y.lalrpop", b".hid.lalrpop", b".lalrpop", b"..lalrpop",
    b"a..lalrpop", b"sp ace.lalrpop", b"tab\t.lalrpop", "nb\u{a0}sp.lalrpop".as_bytes(), "\u{3000}.lalrpop".as_bytes(),
    b"\xff.lalrpop", "ünï.lalrpop".as_bytes(), b"g.LALRPOP", b"g.lalrpop.bak", b"g.txt", b"noext", b"g.lalrpop ",
    b"lalrpop", b"z.lalrpop", b"m.n.o.lalrpop",
];

fn gen_entries(rng: &mut Rng, depth: usize, links: bool, hist: &mut Hist) -> Vec<(Vec<u8>, N)> {
    let n = if depth == 0 { 2 + rng.below(5) } else { rng.below(5) };
    let mut used: Vec<Vec<u8>> = vec![];
    let mut out = vec![];
    for _ in 0..n {
        let r = rng.below(100);
        let is_dirlike = r >= 55 && r < 85;
        let name = if is_dirlike { rng.pick(DIR_NAMES).to_vec() } else { rng.pick(FILE_NAMES).to_vec() };
        if used.contains(&name) {
            continue;
        }
        used.push(name.clone());
        let node = if r < 55 {
            hist.hit("node:file");
            N::File(!rng.chance(1, 7))
        } else if r < 80 {
            if depth < 3 {
                hist.hit("node:dir");
                N::Dir(gen_entries(rng, depth + 1, links, hist))
            } else {
                N::Dir(vec![])
            }
        } else if r < 85 {
            if links && depth < 3 {
                hist.hit("node:link-to-dir");
                N::LinkDir(gen_entries(rng, depth + 1, false, hist))
            } else {
                N::Dir(vec![])
            }
        } else if r < 91 {
            hist.hit("node:link-to-file");
            N::LinkFile(!rng.chance(1, 7))
        } else if r < 96 {
            hist.hit("node:dangling-link");
            N::Dangling
        } else if r < 98 {
            hist.hit("node:fifo");
            N::Fifo
        } else if links {
            hist.hit("node:link-loop");
            N::Loop
        } else {
            N::Dangling
        };
        out.push((name, node));
    }
    out
}

struct Mk {
    ext: PathBuf,
    k: usize,
}

fn create(path: &Path, node: &N, mk: &mut Mk) {
    match node {
        N::File(good) => fs::write(path, if *good { GOOD } else { BAD }).unwrap(),
        N::Dir(es) => {
            fs::create_dir_all(path).unwrap();
            for (n, c) in es {
                create(&path.join(os(n)), c, mk);
            }
        }
        N::LinkFile(good) => {
            mk.k += 1;
            let t = mk.ext.join(format!("f{}.lalrpop", mk.k));
            fs::write(&t, if *good { GOOD } else { BAD }).unwrap();
            std::os::unix::fs::symlink(&t, path).unwrap();
        }
        N::LinkDir(es) => {
            mk.k += 1;
            let t = mk.ext.join(format!("d{}", mk.k));
            create(&t, &N::Dir(es.clone()), mk);
            std::os::unix::fs::symlink(&t, path).unwrap();
        }
        N::Dangling => {
            mk.k += 1;
            std::os::unix::fs::symlink(mk.ext.join(format!("missing{}", mk.k)), path).unwrap();
        }
        N::Fifo => {
            let mut b = path.as_os_str().as_bytes().to_vec();
            b.push(0);
            unsafe {
                mkfifo(b.as_ptr(), 0o644);
            }
        }
        N::Loop => {
            let parent = fs::canonicalize(path.parent().unwrap()).unwrap();
            std::os::unix::fs::symlink(parent, path).unwrap();
        }
    }
}

/// flat description for the model + the files whose generation fails
fn describe(node: &N, rel: &mut Vec<Vec<u8>>, entries: &mut Vec<String>, bad: &mut Vec<Vec<Vec<u8>>>) {
    let name = rel.iter().map(|n| enc_bytes(n)[1..].to_string()).collect::<Vec<_>>().join("/");
    let kind = match node {
        N::File(g) | N::LinkFile(g) => {
            if !*g {
                bad.push(rel.clone());
            }
            "f"
        }
        N::Dir(_) | N::LinkDir(_) => "d",
        N::Dangling => "x",
        N::Fifo => "o",
        N::Loop => "l",
    };
    entries.push(format!("{name}={kind}"));
    if let N::Dir(es) | N::LinkDir(es) = node {
        for (n, c) in es {
            rel.push(n.clone());
            describe(c, rel, entries, bad);
            rel.pop();
        }
    }
}

/// all files (not following links) under `dir` whose name ends in `.rs`, as absolute paths
fn list_rs(dir: &Path, out: &mut Vec<PathBuf>) {
    let Ok(rd) = fs::read_dir(dir) else { return };
    for e in rd.flatten() {
        let p = e.path();
        let Ok(ft) = e.file_type() else { continue };
        if ft.is_dir() {
            list_rs(&p, out);
        } else if ft.is_file() && p.as_os_str().as_bytes().ends_with(b".rs") {
            out.push(p);
        }
    }
}

fn classify(e: &str) -> &'static str {
    if e.contains("contradict previously set in_dir") {
        "conflict"
    } else if e.contains("missing OUT_DIR") {
        "missing-out-dir"
    } else if e.contains("cannot contain whitespace") {
        "resolve:whitespace"
    } else if e.contains("must be valid UTF-8") {
        "resolve:notUtf8"
    } else if e.contains("could not extract a valid file name") {
        "resolve:noFileName"
    } else if e.starts_with("panic:") && e.contains("Option::unwrap()") {
        "resolve:panic"
    } else if e.starts_with("panic:") {
        "panic"
    } else if e.contains("File system loop") || e.contains("IO error for operation on") {
        "walkerr"
    } else {
        "builderr"
    }
}

/// run `f` with fd 1 redirected into a file; returns what was printed
fn capture_stdout(file: &Path, f: impl FnOnce() -> Result<(), String>) -> (Result<(), String>, String) {
    use std::os::fd::AsRawFd;
    let _ = std::io::stdout().flush();
    let out = fs::File::create(file).unwrap();
    let r;
    unsafe {
        let saved = dup(1);
        dup2(out.as_raw_fd(), 1);
        r = f();
        let _ = std::io::stdout().flush();
        dup2(saved, 1);
    }
    drop(out);
    (r, fs::read_to_string(file).unwrap_or_default())
}

fn rerun_lines(stdout: &str) -> Vec<String> {
    stdout
        .lines()
        .filter_map(|l| {
            if let Some(p) = l.strip_prefix("cargo:rerun-if-changed=") {
                Some(format!("rerun:{}", enc_path(Path::new(p))))
            } else if l.starts_with("cargo:warning=") {
                Some("rerun-warning".to_string())
            } else {
                None
            }
        })
        .collect()
}

fn optp(p: &Option<PathBuf>) -> String {
    match p {
        None => "-".into(),
        Some(p) => enc_path(p),
    }
}

fn main() {
    let opts = parse_opts();
    let mut stats_out = silence_stdio();
    let mut rng = Rng::new(opts.seed);
    let root = fs::canonicalize(&opts.out).unwrap().join("paths");
    let _ = fs::remove_dir_all(&root);
    fs::create_dir_all(&root).unwrap();
    let cli = opts
        .extra
        .iter()
        .position(|a| a == "--cli")
        .map(|k| PathBuf::from(&opts.extra[k + 1]));
    // `--fallback`: the source has `strip_prefix(in_dir).unwrap_or("")` (told by the check, which reads the source)
    let suffix = if opts.extra.iter().any(|a| a == "--fallback") { "+fallback" } else { "" };
    let mut st = Streams::create(&opts.out, "paths");
    let mut hist = Hist::default();
    let mut outcomes = Hist::default();
    let mut files_processed = 0u64;
    let home = std::env::current_dir().unwrap();

    // cases 0..2 are fixed probes (a good grammar named `..lalrpop`; process_dir on a file; process_file
    // on a directory whose output path already exists)
    for k in 0..opts.n + 3 {
        let forced: Option<u8> = if k < 3 { Some(k as u8) } else { None };
        let case = root.join(format!("c{k}"));
        let w = case.join("w");
        let ext = case.join("ext");
        let envout = case.join("envout");
        fs::create_dir_all(&w).unwrap();
        fs::create_dir_all(&ext).unwrap();
        let mode = match if forced == Some(0) || forced == Some(2) { 8 } else if forced == Some(1) { 0 } else { rng.below(10) } {
            0..=3 => "dir",
            4..=5 => "proc",
            6 => "cargo",
            7 => "insrc",
            8 => "files",
            _ => if cli.is_some() { "cli" } else { "files" },
        };
        hist.hit(&format!("mode:{mode}"));
        let out_dir: Option<PathBuf> = match mode {
            "cargo" | "insrc" => None,
            _ if forced == Some(2) => Some(PathBuf::from("out")),
            _ if forced.is_some() => None,
            _ => match rng.below(7) {
                0 | 1 => None,
                2 => Some(PathBuf::from("out")),
                3 => Some(PathBuf::from("./out/deep")),
                4 => Some(case.join("absout")),
                5 => Some(PathBuf::from(".")),
                _ => Some(PathBuf::from("gen/")),
            },
        };
        // outputs written through a symlinked directory land elsewhere physically: directory links only
        // when the outputs go to a directory of their own
        let links = matches!(mode, "dir" | "proc" | "cargo") && out_dir != Some(PathBuf::from("."));
        // where the tree lives (relative to the working directory w)
        let loc: &str = match mode {
            "cargo" => "src",
            "insrc" => ".",
            _ if forced.is_some() => "src",
            _ => *rng.pick(&["src", "sub/src", "in", ".", "src"]),
        };
        let tree = if forced == Some(0) {
            N::Dir(vec![(b"..lalrpop".to_vec(), N::File(true))])
        } else if forced == Some(1) {
            N::File(true)
        } else if forced == Some(2) {
            N::Dir(vec![(b"g.lalrpop".to_vec(), N::File(true)), (b"g".to_vec(), N::Dir(vec![]))])
        } else if rng.chance(1, 25) && mode == "dir" {
            hist.hit("root:is-a-file");
            N::File(true)
        } else if rng.chance(1, 40) && mode == "dir" {
            hist.hit("root:missing");
            N::Dangling // placeholder, nothing created
        } else {
            N::Dir(gen_entries(&mut rng, 0, links, &mut hist))
        };
        let root_missing = matches!(tree, N::Dangling);
        let root_is_file = matches!(tree, N::File(_));
        let tree_path = if root_is_file { w.join("rootfile.lalrpop") } else { w.join(loc) };
        let mut mk = Mk { ext: ext.clone(), k: 0 };
        if !root_missing {
            if let Some(p) = tree_path.parent() {
                fs::create_dir_all(p).unwrap();
            }
            create(&tree_path, &tree, &mut mk);
        }
        // spelling of the input directory handed to the API
        let loc_s = if root_is_file { "rootfile.lalrpop".to_string() } else if root_missing { "nowhere".to_string() } else { loc.to_string() };
        let spell = |rng: &mut Rng, s: &str| -> PathBuf {
            match rng.below(6) {
                0 => PathBuf::from(format!("./{s}")),
                // a trailing slash / dot is invisible in the components but makes the OS refuse a non-directory
                1 if !root_is_file => PathBuf::from(format!("{s}/")),
                2 => w.join(s),
                3 if s != "." && !root_is_file => PathBuf::from(format!("{s}/.")),
                _ => PathBuf::from(s),
            }
        };
        let arg = if forced.is_some() { PathBuf::from(&loc_s) } else { spell(&mut rng, &loc_s) };
        // configuration
        let env_out: Option<PathBuf> =
            if mode == "cargo" || forced.is_some() || rng.chance(5, 6) { Some(envout.clone()) } else { None };
        let rerun = rng.chance(1, 2);
        let in_dir: Option<PathBuf> = match mode {
            _ if forced.is_some() => None,
            "dir" => match rng.below(10) {
                0 => Some(arg.clone()),
                1 => Some(spell(&mut rng, &loc_s)),
                2 => Some(PathBuf::from("elsewhere")),
                _ => None,
            },
            "proc" => if loc == "." && rng.chance(1, 2) { None } else { Some(arg.clone()) },
            "files" | "cli" => if mode == "files" && rng.chance(1, 8) { Some(PathBuf::from("src")) } else { None },
            _ => None,
        };
        // model description of the tree
        let mut entries = vec![];
        let mut bad_rel = vec![];
        if !root_missing {
            describe(&tree, &mut vec![], &mut entries, &mut bad_rel);
        }
        let walk_root: PathBuf = match mode {
            "dir" => arg.clone(),
            "proc" => in_dir.clone().unwrap_or_else(|| PathBuf::from(".")),
            "cargo" => PathBuf::from("src"),
            "insrc" => PathBuf::from("."),
            _ => PathBuf::from(loc),
        };
        let join_rel = |rel: &Vec<Vec<u8>>| -> PathBuf {
            let mut p = walk_root.clone();
            for n in rel {
                p.push(os(n));
            }
            p
        };
        // arguments of the file modes: files of the tree (any name), sometimes odd paths
        let mut args: Vec<PathBuf> = vec![];
        let mut bad: Vec<PathBuf> = bad_rel.iter().map(&join_rel).collect();
        let mut gone: Vec<PathBuf> = vec![];
        if mode == "files" || mode == "cli" {
            let mut all = vec![];
            // (relative path, generation succeeds, readable as a file)
            fn collect(node: &N, rel: &mut Vec<Vec<u8>>, all: &mut Vec<(Vec<Vec<u8>>, bool, bool)>) {
                match node {
                    N::File(g) | N::LinkFile(g) => all.push((rel.clone(), *g, true)),
                    N::Dir(es) | N::LinkDir(es) => {
                        // directories are not offered as `process_file` arguments: when the output path
                        // already exists, hash_file's `read_to_end(..).unwrap()` panics on a directory
                        // (robustness issue outside this property; noted in the report)
                        for (n, c) in es {
                            rel.push(n.clone());
                            collect(c, rel, all);
                            rel.pop();
                        }
                    }
                    N::Fifo => {} // opening a fifo blocks
                    _ => all.push((rel.clone(), false, false)),
                }
            }
            collect(&tree, &mut vec![], &mut all);
            if forced == Some(2) {
                // `src/g.lalrpop` then the directory `src/g`: both map to out/g.rs
                args.push(PathBuf::from("src/g.lalrpop"));
                args.push(PathBuf::from("src/g"));
                bad.push(PathBuf::from("src/g"));
                gone.push(PathBuf::from("src/g"));
            }
            let na = if forced == Some(2) { 0 } else if forced.is_some() { 1 } else { 1 + rng.below(4) };
            for _ in 0..na {
                if forced.is_none() && (all.is_empty() || rng.chance(1, 10)) {
                    let odd = *rng.pick(&["src/..", ".", "missing.lalrpop", "nodir/x.lalrpop"]);
                    args.push(PathBuf::from(odd));
                    bad.push(PathBuf::from(odd));
                    gone.push(PathBuf::from(odd));
                } else {
                    let (rel, good, readable) = rng.pick(&all).clone();
                    let p = join_rel(&rel);
                    if !good {
                        bad.push(p.clone());
                    }
                    if !readable {
                        gone.push(p.clone());
                    }
                    args.push(p);
                }
            }
            // the CLI cannot be given an empty or non-UTF-8-hostile argument list; keep as is
        }
        // ------------------------------------------------------------ run the real code
        std::env::set_current_dir(&w).unwrap();
        unsafe {
            match &env_out {
                Some(p) => std::env::set_var("OUT_DIR", p),
                None => std::env::remove_var("OUT_DIR"),
            }
        }
        let capfile = case.join("stdout.txt");
        let (res, printed): (Result<(), String>, String) = if mode == "cli" {
            let mut cmd = std::process::Command::new(cli.as_ref().unwrap());
            cmd.current_dir(&w).arg("-l").arg("quiet");
            if let Some(o) = &out_dir {
                cmd.arg("-o").arg(o);
            }
            for a in &args {
                cmd.arg(a);
            }
            match cmd.output() {
                Ok(o) if o.status.success() => (Ok(()), String::new()),
                Ok(o) => {
                    let e = String::from_utf8_lossy(&o.stderr).to_string();
                    let e = if e.contains("panicked at") { format!("panic: {e}") } else { e };
                    (Err(e), String::new())
                }
                Err(e) => (Err(format!("spawn: {e}")), String::new()),
            }
        } else {
            capture_stdout(&capfile, || {
                let mut cfg = lalrpop::Configuration::new();
                cfg.log_quiet().emit_rerun_directives(rerun);
                match mode {
                    "cargo" => {
                        cfg.use_cargo_dir_conventions();
                    }
                    "insrc" => {
                        cfg.generate_in_source_tree();
                    }
                    _ => {
                        if let Some(i) = &in_dir {
                            cfg.set_in_dir(i);
                        }
                        if let Some(o) = &out_dir {
                            cfg.set_out_dir(o);
                        }
                    }
                }
                match mode {
                    "dir" => guarded(|| cfg.process_dir(&arg)),
                    "proc" | "cargo" | "insrc" => guarded(|| cfg.process()),
                    _ => {
                        for a in &args {
                            guarded(|| cfg.process_file(a))?;
                        }
                        Ok(())
                    }
                }
            })
        };
        std::env::set_current_dir(&home).unwrap();
        // ------------------------------------------------------------ observe
        let outcome = match &res {
            Ok(()) => "ok",
            Err(e) => classify(e),
        };
        outcomes.hit(&format!("{mode}:{outcome}"));
        let mut found = vec![];
        list_rs(&case, &mut found);
        let mut gens: Vec<String> = found.iter().map(|p| format!("gen:{}", enc_path(p))).collect();
        gens.sort();
        gens.dedup();
        files_processed += gens.len() as u64;
        let reruns = rerun_lines(&printed);
        let imp = format!("{outcome} | {} | {}", reruns.join(" "), gens.join(" "));
        // ------------------------------------------------------------ request for the model
        let (m_mode, m_in, m_out, m_rerun) = match mode {
            "dir" => ("dir", in_dir.clone(), out_dir.clone(), rerun),
            "proc" => ("proc", in_dir.clone(), out_dir.clone(), rerun),
            "cargo" => ("proc", Some(PathBuf::from("src")), env_out.clone(), rerun),
            "insrc" => ("proc", Some(PathBuf::from(".")), Some(PathBuf::from(".")), rerun),
            "files" => ("files", in_dir.clone(), out_dir.clone(), rerun),
            _ => ("files", None, out_dir.clone(), false),
        };
        let m_args = match mode {
            "dir" => enc_path(&arg),
            "files" | "cli" => args.iter().map(|a| enc_path(a)).collect::<Vec<_>>().join(","),
            _ => "E".to_string(),
        };
        let req = format!(
            "{m_mode}{suffix} in={} out={} env={} rerun={} cwd={} args={} tree={} bad={} gone={}",
            optp(&m_in),
            optp(&m_out),
            optp(&env_out),
            if m_rerun { 1 } else { 0 },
            enc_path(&w),
            m_args,
            if entries.is_empty() { "-".to_string() } else { entries.join(";") },
            if bad.is_empty() { "-".to_string() } else { bad.iter().map(|b| enc_path(b)).collect::<Vec<_>>().join(",") },
            if gone.is_empty() { "-".to_string() } else { gone.iter().map(|b| enc_path(b)).collect::<Vec<_>>().join(",") }
        );
        st.case(&req, &imp);
        let _ = fs::remove_dir_all(&case);
    }
    let cases = st.count;
    st.finish();
    writeln!(
        stats_out,
        "{{\"cases\":{cases},\"outputs_generated\":{files_processed},\"outcomes\":{},\"hist\":{}}}",
        outcomes.json(),
        hist.json()
    )
    .unwrap();
}
