//! C20: byte equality of generated code.  Every grammar of the corpus (seeded random grammars +
//! grammars shipped in /repo) is generated in several fresh processes (fresh `RandomState`),
//! several times in this process, under another file name, and inside `process_dir` batches of
//! different composition and file order; all outputs for one grammar text must be identical.
//! Prints one JSON stats line; differences are listed in it.
//!   determ --seed S --n <grammars> --out DIR [--procs P]      |      determ child <src> <rs-dir>
#[path = "wpd_common/mod.rs"]
mod common;
use common::*;
use std::collections::{BTreeMap, BTreeSet};
use std::fs;
use std::io::Write;
use std::path::{Path, PathBuf};
use std::process::{Command, Stdio};
use verif_harness::*;

fn ident(rng: &mut Rng) -> String {
    let n = 1 + rng.below(4);
    (0..n).map(|_| (b'a' + rng.below(26) as u8) as char).collect()
}

/// macros with one and two parameters, several instantiations (macro_expand's hash maps)
fn macro_grammar(rng: &mut Rng) -> String {
    let mut s = String::from("grammar;\n");
    s.push_str("Comma<T>: Vec<T> = { <mut v:(<T> \",\")*> <e:T?> => match e { None => v, Some(e) => { v.push(e); v } } };\n");
    s.push_str("Tier<Op, Next>: String = { <l:Tier<Op, Next>> <o:Op> <r:Next> => format!(\"{l}{o}{r}\"), Next };\n");
    s.push_str("Pair<A, B>: (A, B) = { <A> \":\" <B> };\n");
    let n = 2 + rng.below(4);
    let mut items = vec![];
    for k in 0..n {
        let t = ident(rng);
        items.push(format!("I{k}"));
        s.push_str(&format!("I{k}: String = {{ \"{t}{k}\" => String::new(), \"[\" <Comma<I{k}>> \"]\" => String::new() }};\n"));
    }
    s.push_str(&format!("Op1: String = {{ \"+\" => String::new(), \"-\" => String::new() }};\nOp2: String = \"*\" => String::new();\n"));
    s.push_str(&format!("pub Top: Vec<(String, String)> = Comma<Pair<Tier<Op1, Tier<Op2, {}>>, {}>>;\n", items[0], items[n - 1]));
    if rng.chance(1, 2) {
        s.push_str(&format!("pub Other: Vec<String> = Comma<{}>;\n", items[rng.below(n)]));
    }
    s
}

/// many nonterminals whose types are inferred through each other (tyinfer's hash-ordered loop)
fn inferred_grammar(rng: &mut Rng) -> String {
    let n = 6 + rng.below(18);
    let mut s = String::from("grammar;\n");
    for i in 0..n {
        if i + 1 == n {
            s.push_str(&format!("N{i}: u32 = \"z{}\" => 0;\n", ident(rng)));
        } else {
            let j = i + 1 + rng.below(n - i - 1);
            let k = i + 1 + rng.below(n - i - 1);
            let vis = if i == 0 || rng.chance(1, 6) { "pub " } else { "" };
            match rng.below(3) {
                0 => s.push_str(&format!("{vis}N{i} = {{ <N{j}> \"{}{i}\" <N{k}> }};\n", ident(rng))),
                1 => s.push_str(&format!("{vis}N{i} = {{ \"({i}\" <N{j}> \")\" }};\n")),
                _ => s.push_str(&format!("{vis}N{i} = {{ <N{j}?> \"q{i}\" <N{k}*> }};\n")),
            }
        }
    }
    s
}

fn extern_grammar(rng: &mut Rng) -> String {
    let a = ident(rng);
    format!(
        "grammar;\nextern {{ type Location = usize; type Error = (); enum Tok {{ \"{a}\" => Tok::A, \"b\" => Tok::B, \"n\" => Tok::N(<i32>) }} }}\n\
         pub E: i32 = {{ <l:E> \"{a}\" <r:T> => l + r, T }};\nT: i32 = {{ \"n\", \"b\" <E> \"b\" }};\n"
    )
}

fn match_grammar(rng: &mut Rng) -> String {
    let a = ident(rng);
    format!(
        "grammar;\nmatch {{ \"{a}\" => KW, r\"[a-z]+\" => ID }} else {{ r\"[0-9]+\" => NUM, _ }}\n\
         pub S: Vec<String> = {{ <v:W*> => v }};\nW: String = {{ KW => String::from(\"kw\"), <ID> => <>.to_string(), <NUM> => <>.to_string(), \"+\" => String::new() }};\n"
    )
}

struct Entry {
    name: String,
    text: Vec<u8>,
}

fn child_main(args: &[String]) -> ! {
    let src = PathBuf::from(&args[0]);
    let outdir = PathBuf::from(&args[1]);
    let r = guarded(|| {
        let mut cfg = lalrpop::Configuration::new();
        cfg.log_quiet().force_build(true).set_out_dir(&outdir);
        cfg.process_file(&src)
    });
    std::process::exit(if r.is_ok() { 0 } else { 1 });
}

fn gen_in_process(src: &Path, outdir: &Path) -> Option<Vec<u8>> {
    let stem = src.file_stem().unwrap().to_str().unwrap().to_string();
    let rs = outdir.join(format!("{stem}.rs"));
    let _ = fs::remove_file(&rs);
    let r = guarded(|| {
        let mut cfg = lalrpop::Configuration::new();
        cfg.log_quiet().force_build(true).set_out_dir(outdir);
        cfg.process_file(src)
    });
    if r.is_ok() { fs::read(&rs).ok() } else { None }
}

fn gen_in_child(src: &Path, outdir: &Path) -> Option<Vec<u8>> {
    let stem = src.file_stem().unwrap().to_str().unwrap().to_string();
    let rs = outdir.join(format!("{stem}.rs"));
    let _ = fs::remove_file(&rs);
    let st = Command::new(std::env::current_exe().unwrap())
        .arg("child")
        .arg(src)
        .arg(outdir)
        .stdin(Stdio::null())
        .stdout(Stdio::null())
        .stderr(Stdio::null())
        .status()
        .ok()?;
    if st.success() { fs::read(&rs).ok() } else { None }
}

fn main() {
    let argv: Vec<String> = std::env::args().collect();
    if argv.len() > 1 && argv[1] == "child" {
        child_main(&argv[2..]);
    }
    let opts = parse_opts();
    let mut stats_out = silence_stdio();
    let procs: usize = opts
        .extra
        .iter()
        .position(|a| a == "--procs")
        .map(|k| opts.extra[k + 1].parse().unwrap())
        .unwrap_or(5);
    let mut rng = Rng::new(opts.seed);
    let root = opts.out.join("determ");
    let _ = fs::remove_dir_all(&root);
    fs::create_dir_all(&root).unwrap();
    let mut hist = Hist::default();

    // ------------------------------------------------------------------ corpus
    let mut corpus: Vec<Entry> = vec![];
    let mut repo_files: Vec<PathBuf> = vec![];
    for dir in ["/repo/doc/calculator/src", "/repo/doc/nobol/src", "/repo/doc/lexer/src", "/repo/doc/whitespace/src", "/repo/lalrpop-test/src"] {
        if let Ok(rd) = fs::read_dir(dir) {
            let mut v: Vec<PathBuf> = rd.flatten().map(|e| e.path()).filter(|p| p.extension().map(|e| e == "lalrpop").unwrap_or(false)).collect();
            v.sort();
            repo_files.extend(v);
        }
    }
    let n_random = (opts.n * 2).div_ceil(3);
    for k in 0..n_random {
        let (kind, text) = match k % 5 {
            0 => ("macro", macro_grammar(&mut rng)),
            1 => ("inferred", inferred_grammar(&mut rng)),
            2 => ("extern", extern_grammar(&mut rng)),
            3 => ("match", match_grammar(&mut rng)),
            _ => ("small", valid_grammar(&mut rng, k % 2 == 0)),
        };
        hist.hit(&format!("corpus:{kind}"));
        corpus.push(Entry { name: format!("{kind}{k}"), text: text.into_bytes() });
    }
    while corpus.len() < opts.n && !repo_files.is_empty() {
        let p = repo_files.remove(rng.below(repo_files.len()));
        if let Ok(t) = fs::read(&p) {
            hist.hit("corpus:repo");
            corpus.push(Entry { name: format!("repo_{}", p.file_stem().unwrap().to_string_lossy()), text: t });
        }
    }

    // ------------------------------------------------------------------ single-file generations
    let mut generations = 0u64;
    let mut differences: Vec<String> = vec![];
    let mut failed: Vec<String> = vec![];
    let mut reference: BTreeMap<usize, Vec<u8>> = BTreeMap::new();
    let mut distinct: BTreeSet<u64> = BTreeSet::new();
    let compare = |gi: usize, name: &str, how: &str, got: Option<Vec<u8>>, reference: &mut BTreeMap<usize, Vec<u8>>, differences: &mut Vec<String>, text: &[u8]| {
        match (reference.get(&gi), got) {
            (Some(r), Some(g)) => {
                if *r != g {
                    let at = r.iter().zip(g.iter()).position(|(a, b)| a != b).unwrap_or(r.len().min(g.len()));
                    differences.push(format!(
                        "{{\"grammar\":{},\"how\":{},\"first_differing_byte\":{at},\"len_a\":{},\"len_b\":{},\"context_a\":{},\"context_b\":{},\"grammar_text\":{}}}",
                        json_str(name), json_str(how), r.len(), g.len(),
                        json_str(&String::from_utf8_lossy(&r[at.saturating_sub(60)..(at + 60).min(r.len())])),
                        json_str(&String::from_utf8_lossy(&g[at.saturating_sub(60)..(at + 60).min(g.len())])),
                        json_str(&String::from_utf8_lossy(text))
                    ));
                }
            }
            (Some(_), None) => differences.push(format!(
                "{{\"grammar\":{},\"how\":{},\"note\":\"generation failed here but succeeded before\",\"grammar_text\":{}}}",
                json_str(name), json_str(&format!("{how}:failed")), json_str(&String::from_utf8_lossy(text)))),
            _ => {}
        }
    };
    for (gi, e) in corpus.iter().enumerate() {
        let dir = root.join(format!("g{gi}"));
        let out = dir.join("out");
        fs::create_dir_all(&out).unwrap();
        let src = dir.join("m.lalrpop");
        fs::write(&src, &e.text).unwrap();
        // reference: first in-process generation
        let Some(first) = gen_in_process(&src, &out) else {
            failed.push(e.name.clone());
            continue;
        };
        generations += 1;
        distinct.insert(fnv(&first));
        reference.insert(gi, first);
        for _ in 0..2 {
            generations += 1;
            hist.hit("gen:in-process-repeat");
            compare(gi, &e.name, "in-process-repeat", gen_in_process(&src, &out), &mut reference, &mut differences, &e.text);
        }
        for _ in 0..procs {
            generations += 1;
            hist.hit("gen:fresh-process");
            compare(gi, &e.name, "fresh-process", gen_in_child(&src, &out), &mut reference, &mut differences, &e.text);
        }
        // another file name and directory
        let other = dir.join("deep").join("zz_other.name.lalrpop");
        fs::create_dir_all(other.parent().unwrap()).unwrap();
        fs::write(&other, &e.text).unwrap();
        generations += 1;
        hist.hit("gen:other-file-name");
        compare(gi, &e.name, "other-file-name", gen_in_process(&other, &out), &mut reference, &mut differences, &e.text);
    }
    // ------------------------------------------------------------------ process_dir batches
    let good: Vec<usize> = reference.keys().copied().collect();
    let nbatches = if good.len() < 2 { 0 } else { opts.n.max(8) };
    let mut batches = 0u64;
    for b in 0..nbatches {
        let dir = root.join(format!("b{b}"));
        let out = dir.join("out");
        let src = dir.join("src");
        fs::create_dir_all(src.join("sub")).unwrap();
        fs::create_dir_all(&out).unwrap();
        // composition: 2–5 grammars, names chosen so that the order of processing varies
        let k = 2 + rng.below(4);
        let mut members: Vec<(usize, PathBuf)> = vec![];
        for j in 0..k {
            let gi = *rng.pick(&good);
            let name = match rng.below(4) {
                0 => format!("a{j}_{}.lalrpop", ident(&mut rng)),
                1 => format!("z{j}_{}.lalrpop", ident(&mut rng)),
                2 => format!("sub/m{j}.lalrpop"),
                _ => format!("{}{j}.lalrpop", ident(&mut rng)),
            };
            fs::write(src.join(&name), &corpus[gi].text).unwrap();
            members.push((gi, PathBuf::from(name)));
        }
        hist.hit(&format!("batch:size{k}"));
        let r = guarded(|| {
            let mut cfg = lalrpop::Configuration::new();
            cfg.log_quiet().force_build(true).set_in_dir(&src).set_out_dir(&out);
            cfg.process()
        });
        batches += 1;
        for (gi, name) in &members {
            generations += 1;
            let rs = out.join(name).with_extension("rs");
            let got = if r.is_ok() { fs::read(&rs).ok() } else { None };
            compare(*gi, &corpus[*gi].name, &format!("process_dir-batch-of-{k}"), got, &mut reference, &mut differences, &corpus[*gi].text);
        }
        let _ = fs::remove_dir_all(&dir);
    }
    let first = differences.first().cloned().unwrap_or_else(|| "null".to_string());
    let list: Vec<String> = differences.iter().take(5).cloned().collect();
    writeln!(
        stats_out,
        "{{\"grammars\":{},\"procs\":{procs},\"generations\":{generations},\"distinct_outputs\":{},\"batches\":{batches},\"failed\":{},\"failed_names\":[{}],\"differences\":{},\"first_difference\":{first},\"difference_list\":[{}],\"hist\":{}}}",
        corpus.len(),
        distinct.len(),
        failed.len(),
        failed.iter().map(|f| json_str(f)).collect::<Vec<_>>().join(","),
        differences.len(),
        list.join(","),
        hist.json()
    )
    .unwrap();
}
