//! smoke test of generate_parser + build_scratch_crate
use verif_harness::*;
fn main() {
    let dir = std::path::PathBuf::from(std::env::args().nth(1).unwrap());
    let g = "grammar;\npub S: String = { <e:E> \"x\" => format!(\"S({e})\"), };\nE: String = { \"a\" <e:E> => format!(\"E(a {e})\"), => String::from(\"E()\"), };\n";
    let text = generate_parser(&dir.join("gen"), "g1", g, |_| {}).unwrap();
    let main = "mod g1;\nfn main(){ let p = g1::SParser::new(); for a in std::env::args().skip(1) { println!(\"{:?}\", p.parse(&a)); } }\n";
    let t = std::time::Instant::now();
    let exe = build_scratch_crate(&dir.join("crate"), "scratch_smoke", &[("src/main.rs".into(), main.into()), ("src/g1.rs".into(), text)]).unwrap();
    eprintln!("built in {:?}", t.elapsed());
    let o = std::process::Command::new(exe).args(["a a x", "a b"]).output().unwrap();
    print!("{}", String::from_utf8_lossy(&o.stdout));
}
