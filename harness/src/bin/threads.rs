//! C27 tie: generated parsers (built-in lexer and extern tokens, table-driven and
//! `#[recursive_ascent]`) compiled into ONE scratch crate whose `main` shares one parser value
//! per grammar among T threads (scoped threads + `Arc`), every thread parsing every input in its
//! own shuffled order with random yields/sleeps between calls; every result is compared with the
//! sequential baseline of a FRESH parser per input. `Send + Sync` of every parser type (and of
//! `MatcherBuilder`) is asserted at compile time. Also: N matchers created from one builder,
//! their `next()` calls interleaved by a seeded schedule, compared with each matcher run alone.
//!
//! args: --seed S --n INPUTS_PER_GRAMMAR --out DIR [threads=T] [rounds=R] [helgrind=1] [inject=1 (self-test: calc gets a `static mut`)]
//! Prints one JSON stats line. Also leaves the generated modules in <out>/modules/*.rs (the
//! source-fact translator of checks/c27.py reads them).
use verif_harness::*;

struct G {
    name: &'static str,
    /// grammar text; `@ATTR@` is replaced by nothing / `#[recursive_ascent]`
    text: &'static str,
    ascent: bool,
    /// expression building the parser value
    ctor: &'static str,
    /// body of `|p: &Parser, input: &str| -> String`
    run: &'static str,
    /// parser type name inside the module
    ty: &'static str,
    intern: bool,
    mk_input: fn(&mut Rng) -> String,
}

const CALC: &str = r##"
use std::str::FromStr;
@ATTR@
grammar;
pub Expr: i64 = {
    <l:Expr> "+" <r:Factor> => l.wrapping_add(r),
    <l:Expr> "-" <r:Factor> => l.wrapping_sub(r),
    Factor,
};
Factor: i64 = {
    <l:Factor> "*" <r:Term> => l.wrapping_mul(r),
    Term,
};
Term: i64 = { Num, "(" <Expr> ")" };
Num: i64 = r"[0-9]+" => i64::from_str(<>).unwrap_or(7);
"##;

const LIST: &str = r##"
@ATTR@
grammar;
match {
    "let",
    r"\s+" => { },
    r"//[^\n\r]*" => { },
} else {
    r"[a-zA-Z_][a-zA-Z0-9_]*" => ID,
    r"[0-9]+" => NUM,
    r"\p{Greek}+" => GREEK,
    _
}
pub List: Vec<String> = "[" <Comma<Item>> "]";
Item: String = {
    ID => <>.to_string(),
    NUM => format!("#{}", <>),
    GREEK => format!("g{}", <>.chars().count()),
    "let" => "LET".to_string(),
    List => format!("{:?}", <>),
};
Comma<T>: Vec<T> = {
    <mut v:(<T> ",")*> <e:T?> => { if let Some(e) = e { v.push(e); } v }
};
"##;

const RECOVER: &str = r##"
use lalrpop_util::ErrorRecovery;
grammar<'err>(errors: &'err mut Vec<String>);
pub Stmts: Vec<String> = <Stmt*>;
Stmt: String = {
    <i:r"[a-z]+"> ";" => i.to_string(),
    <a:r"[a-z]+"> "=" <b:r"[0-9]+"> ";" => format!("{a}={b}"),
    <e:!> ";" => { errors.push(format!("{:?}", e.error)); format!("ERR{}", e.dropped_tokens.len()) },
};
"##;

const EXTERN: &str = r##"
use crate::Tok;
use lalrpop_util::ParseError;
@ATTR@
grammar;
extern {
    type Location = usize;
    type Error = String;
    enum Tok {
        "n" => Tok::Num(<i64>),
        "id" => Tok::Id(<String>),
        "+" => Tok::Plus,
        "(" => Tok::LP,
        ")" => Tok::RP,
    }
}
pub Sum: (i64, Vec<String>) = {
    <a:Sum> "+" <b:Atom> => { let mut v = a.1; v.extend(b.1); (a.0.wrapping_add(b.0), v) },
    Atom,
};
Atom: (i64, Vec<String>) = {
    <l:@L> <n:"n"> <r:@R> =>? if n == 13 { Err(ParseError::User { error: format!("unlucky@{l}..{r}") }) } else { Ok((n, vec![])) },
    "id" => (0, vec![<>]),
    "(" <Sum> ")",
};
"##;

const GENERIC: &str = r##"
@ATTR@
grammar<F>(f: &F) where F: Fn(&str) -> usize;
pub Words: (usize, usize) = <l:@L> <v:Word*> <r:@R> => (v.iter().sum::<usize>() + l, r);
Word: usize = {
    r"[a-z]+" => f(<>),
    r"[A-Z][a-z]*" => 100 * f(<>),
    "(" <Words> ")" => <>.0,
};
"##;

const KEYWORDS: &str = r##"
@ATTR@
grammar;
pub Toks: Vec<(usize, &'input str, usize)> = Tok*;
Tok: (usize, &'input str, usize) = <l:@L> <t:T> <r:@R> => (l, t, r);
T: &'input str = {
    "if", "ifx", "else", "elif", "while", "fn", "for", "forall", "=", "==", "===", "=>", "<", "<=", "<<",
    r"[a-z][a-z0-9_]*", r"[0-9]+", r"[0-9]+\.[0-9]+", r"0x[0-9a-f]+", r#""[^"]*""#, r"'[^']'",
    r"\p{Lu}\p{Ll}*", r"#[^\n]*\n",
};
"##;

fn pick_str(r: &mut Rng, xs: &[&str]) -> String {
    xs[r.below(xs.len())].to_string()
}

fn mutate(r: &mut Rng, s: String) -> String {
    if !r.chance(1, 3) {
        return s;
    }
    let mut cs: Vec<char> = s.chars().collect();
    for _ in 0..1 + r.below(2) {
        match r.below(3) {
            0 if !cs.is_empty() => {
                let j = r.below(cs.len());
                cs.remove(j);
            }
            1 => {
                let j = r.below(cs.len() + 1);
                cs.insert(j, *r.pick(&['(', ')', '+', ',', ';', '$', 'x', '1', ' ', '[', ']', 'λ', '=']));
            }
            _ if cs.len() > 1 => {
                let j = r.below(cs.len() - 1);
                cs.swap(j, j + 1);
            }
            _ => {}
        }
    }
    cs.into_iter().collect()
}

fn gen_expr(r: &mut Rng, depth: usize) -> String {
    if depth == 0 || r.chance(1, 3) {
        return format!("{}", r.below(1000));
    }
    match r.below(4) {
        0 => format!("{} + {}", gen_expr(r, depth - 1), gen_expr(r, depth - 1)),
        1 => format!("{}-{}", gen_expr(r, depth - 1), gen_expr(r, depth - 1)),
        2 => format!("{} *{}", gen_expr(r, depth - 1), gen_expr(r, depth - 1)),
        _ => format!("({})", gen_expr(r, depth - 1)),
    }
}
fn gen_calc(r: &mut Rng) -> String {
    let d = 1 + r.below(5);
    let e = gen_expr(r, d);
    mutate(r, e)
}
fn gen_list_inner(r: &mut Rng, depth: usize) -> String {
    let n = r.below(5);
    let mut items = vec![];
    for _ in 0..n {
        items.push(match r.below(7) {
            0 => "let".to_string(),
            1 => "letter".to_string(),
            2 => format!("{}", r.below(100000)),
            3 => pick_str(r, &["αβγ", "λ", "ωμέγα"]),
            4 if depth > 0 => gen_list_inner(r, depth - 1),
            5 => format!("x{} // c{}\n", r.below(9), r.below(9)),
            _ => pick_str(r, &["a", "_b1", "Zed", "le", "lets"]),
        });
    }
    let trail = if n > 0 && r.chance(1, 3) { "," } else { "" };
    format!("[{}{}]", items.join(if r.chance(1, 2) { ", " } else { "," }), trail)
}
fn gen_list(r: &mut Rng) -> String {
    let s = gen_list_inner(r, 3);
    mutate(r, s)
}
fn gen_recover(r: &mut Rng) -> String {
    let n = r.below(7);
    let mut s = String::new();
    for _ in 0..n {
        s.push_str(&match r.below(6) {
            0 => "abc;".to_string(),
            1 => format!("k = {};", r.below(50)),
            2 => "1 2 ;".to_string(),
            3 => "= = x;".to_string(),
            4 => "q".to_string(),
            _ => format!("{} ;", pick_str(r, &["a", "zz", "foo"])),
        });
        if r.chance(1, 2) {
            s.push(' ');
        }
    }
    mutate(r, s)
}
fn gen_extern(r: &mut Rng) -> String {
    fn atom(r: &mut Rng, d: usize) -> String {
        match r.below(24) {
            0 => "13".to_string(),
            1..=6 => format!("v{}", r.below(5)),
            7..=12 if d > 0 => format!("( {} )", sum(r, d - 1)),
            13 => "!".to_string(),
            _ => format!("{}", r.below(40)),
        }
    }
    fn sum(r: &mut Rng, d: usize) -> String {
        let n = 1 + r.below(4);
        (0..n).map(|_| atom(r, d)).collect::<Vec<_>>().join(" + ")
    }
    let s = sum(r, 3);
    if r.chance(1, 6) {
        let mut w: Vec<&str> = s.split(' ').collect();
        if !w.is_empty() {
            let j = r.below(w.len());
            if r.chance(1, 2) {
                w.remove(j);
            } else {
                w.insert(j, *r.pick(&["+", "(", ")", "7", "?"]));
            }
        }
        w.join(" ")
    } else {
        s
    }
}
fn gen_generic(r: &mut Rng) -> String {
    fn words(r: &mut Rng, d: usize) -> String {
        let n = r.below(6);
        (0..n)
            .map(|_| match r.below(4) {
                0 => "Abc".to_string(),
                1 if d > 0 => format!("({})", words(r, d - 1)),
                _ => "x".repeat(1 + r.below(6)),
            })
            .collect::<Vec<_>>()
            .join(" ")
    }
    let s = words(r, 3);
    mutate(r, s)
}
fn gen_keywords(r: &mut Rng) -> String {
    let n = r.below(12);
    let s = (0..n)
        .map(|_| {
            pick_str(
                r,
                &[
                    "if", "ifx", "iffy", "else", "elif", "while", "fn", "for", "forall", "fora", "=", "==", "===", "====", "=>",
                    "<", "<=", "<<", "<<=", "abc_1", "42", "4.2", "4.", "0x1f", "0xg", "\"s t r\"", "'c'", "Éa", "Ab", "# note\n", "\"open",
                ],
            )
        })
        .collect::<Vec<_>>()
        .join(if r.chance(1, 5) { "" } else { " " });
    mutate(r, s)
}

const GRAMMARS: &[G] = &[
    G { name: "calc", text: CALC, ascent: true, ctor: "M::ExprParser::new()", ty: "ExprParser", intern: true, mk_input: gen_calc,
        run: "format!(\"{:?}\", p.parse(input))" },
    G { name: "list", text: LIST, ascent: true, ctor: "M::ListParser::new()", ty: "ListParser", intern: true, mk_input: gen_list,
        run: "format!(\"{:?}\", p.parse(input))" },
    G { name: "recover", text: RECOVER, ascent: false, ctor: "M::StmtsParser::new()", ty: "StmtsParser", intern: true, mk_input: gen_recover,
        run: "{ let mut errs = Vec::new(); let r = format!(\"{:?}\", p.parse(&mut errs, input)); format!(\"{r} / {errs:?}\") }" },
    G { name: "ext", text: EXTERN, ascent: true, ctor: "M::SumParser::new()", ty: "SumParser", intern: false, mk_input: gen_extern,
        run: "format!(\"{:?}\", p.parse(crate::lex_ext(input)))" },
    G { name: "generic", text: GENERIC, ascent: true, ctor: "M::WordsParser::new()", ty: "WordsParser", intern: true, mk_input: gen_generic,
        run: "{ let f = |s: &str| s.len(); format!(\"{:?}\", p.parse(&f, input)) }" },
    G { name: "kw", text: KEYWORDS, ascent: true, ctor: "M::ToksParser::new()", ty: "ToksParser", intern: true, mk_input: gen_keywords,
        run: "format!(\"{:?}\", p.parse(input))" },
];

const MAIN_PRELUDE: &str = r##"
#![allow(unused, non_snake_case, clippy::all)]
use std::sync::Arc;

#[derive(Clone, Debug, PartialEq)]
pub enum Tok { Num(i64), Id(String), Plus, LP, RP, Other(String) }

/// whitespace-separated words; `!` is a lexer error item
pub fn lex_ext(input: &str) -> Vec<Result<(usize, Tok, usize), String>> {
    let mut out = vec![];
    let mut pos = 0usize;
    for w in input.split(' ') {
        let l = pos;
        let r = pos + w.len();
        pos = r + 1;
        if w.is_empty() { continue; }
        out.push(match w {
            "!" => Err(format!("lexer error at {l}")),
            "+" => Ok((l, Tok::Plus, r)),
            "(" => Ok((l, Tok::LP, r)),
            ")" => Ok((l, Tok::RP, r)),
            _ => if let Ok(n) = w.parse::<i64>() { Ok((l, Tok::Num(n), r)) }
                 else if w.chars().all(|c| c.is_alphanumeric()) { Ok((l, Tok::Id(w.to_string()), r)) }
                 else { Ok((l, Tok::Other(w.to_string()), r)) },
        });
    }
    out
}

pub struct Rng(pub u64);
impl Rng {
    pub fn next(&mut self) -> u64 {
        self.0 = self.0.wrapping_add(0x9E37_79B9_7F4A_7C15);
        let mut z = self.0;
        z = (z ^ (z >> 30)).wrapping_mul(0xBF58_476D_1CE4_E5B9);
        z = (z ^ (z >> 27)).wrapping_mul(0x94D0_49BB_1331_11EB);
        z ^ (z >> 31)
    }
    pub fn below(&mut self, n: usize) -> usize { (self.next() % n as u64) as usize }
}

fn assert_sync<T: Send + Sync>() {}
pub static mut CALLS: i64 = 0; // only used by the `inject=1` self-test

pub struct Conf { pub seed: u64, pub threads: usize, pub rounds: usize, pub pause: bool }

fn hexs(s: &str) -> String { let mut o = String::from("x"); for b in s.bytes() { o.push_str(&format!("{b:02x}")); } o }

/// one grammar: baseline with a fresh parser per input, then one shared parser value used
/// (a) sequentially for all inputs, (b) by `threads` scoped threads through `&P`, (c) by `threads`
/// spawned threads through `Arc<P>`.
fn drive<P: Send + Sync + 'static>(
    name: &str,
    mk: fn() -> P,
    run: fn(&P, &str) -> String,
    inputs: &[String],
    conf: &Conf,
) {
    let baseline: Vec<String> = inputs.iter().map(|i| run(&mk(), i)).collect();
    let mut mismatches = 0usize;
    let mut parses = 0usize;
    let mut report = |mode: &str, t: usize, idx: usize, got: &str| {
        println!("MISMATCH\t{name}\t{mode}\tthread={t}\t{}\tbaseline={}\tgot={}", hexs(&inputs[idx]), hexs(&baseline[idx]), hexs(got));
    };
    // (a) sequential reuse
    let shared = mk();
    for _ in 0..2 {
        for (idx, i) in inputs.iter().enumerate() {
            let got = run(&shared, i);
            parses += 1;
            if got != baseline[idx] { mismatches += 1; report("sequential-reuse", 0, idx, &got); }
        }
    }
    // schedule of thread t: a shuffled order of all inputs and a pause decision per call
    let order = |t: usize, round: usize| -> (Vec<usize>, Rng) {
        let mut r = Rng(conf.seed ^ (t as u64).wrapping_mul(0x1234_5678_9ABC_DEF1) ^ ((round as u64) << 40) ^ name.len() as u64);
        let mut ix: Vec<usize> = (0..inputs.len()).collect();
        for k in (1..ix.len()).rev() { let j = r.below(k + 1); ix.swap(k, j); }
        (ix, r)
    };
    let pause = |r: &mut Rng| {
        if !conf.pause { return; }
        match r.below(8) {
            0 | 1 => std::thread::yield_now(),
            2 => std::thread::sleep(std::time::Duration::from_micros(r.below(60) as u64)),
            _ => {}
        }
    };
    for round in 0..conf.rounds {
        // (b) scoped threads borrowing the same value
        let results: Vec<Vec<(usize, String)>> = std::thread::scope(|s| {
            let hs: Vec<_> = (0..conf.threads).map(|t| {
                let shared = &shared;
                let (ix, mut r) = order(t, round);
                let pause = &pause;
                s.spawn(move || {
                    let mut out = Vec::with_capacity(ix.len());
                    for idx in ix { pause(&mut r); out.push((idx, run(shared, &inputs[idx]))); }
                    out
                })
            }).collect();
            hs.into_iter().map(|h| h.join().unwrap()).collect()
        });
        for (t, rs) in results.iter().enumerate() {
            for (idx, got) in rs {
                parses += 1;
                if *got != baseline[*idx] { mismatches += 1; report("scoped", t, *idx, got); }
            }
        }
    }
    // (c) Arc-shared, 'static threads (one round)
    {
        let arc = Arc::new(mk());
        let inputs_arc: Arc<Vec<String>> = Arc::new(inputs.to_vec());
        let seed = conf.seed;
        let do_pause = conf.pause;
        let hs: Vec<_> = (0..conf.threads).map(|t| {
            let p = arc.clone();
            let ins = inputs_arc.clone();
            std::thread::spawn(move || {
                let mut r = Rng(seed ^ 0xABCD ^ ((t as u64) << 32));
                let mut out = vec![];
                for _ in 0..ins.len() {
                    let idx = r.below(ins.len());
                    if do_pause && r.below(4) == 0 { std::thread::yield_now(); }
                    out.push((idx, run(&p, &ins[idx])));
                }
                out
            })
        }).collect();
        for (t, h) in hs.into_iter().enumerate() {
            for (idx, got) in h.join().unwrap() {
                parses += 1;
                if got != baseline[idx] { mismatches += 1; report("arc", t, idx, &got); }
            }
        }
    }
    let errs = baseline.iter().filter(|b| b.starts_with("Err")).count();
    let distinct: std::collections::BTreeSet<&String> = baseline.iter().collect();
    let distinct_inputs: std::collections::BTreeSet<&String> = inputs.iter().collect();
    println!("GRAMMAR\t{name}\tinputs={}\tdistinct_inputs={}\tparses={parses}\tmismatches={mismatches}\tbaseline_err={errs}\tdistinct_results={}", inputs.len(), distinct_inputs.len(), distinct.len());
}

/// N matchers from ONE builder; their `next()` calls interleaved by a seeded schedule, compared with
/// each matcher driven alone (the statement of `matcher_state_is_local`)
fn drive_matchers(name: &str, builder: &lalrpop_util::lexer::MatcherBuilder, inputs: &[String], conf: &Conf) {
    let alone: Vec<Vec<String>> = inputs.iter().map(|i| builder.matcher::<String>(i).map(|x| format!("{x:?}")).take(200).collect()).collect();
    let mut r = Rng(conf.seed ^ 0x5EED ^ name.len() as u64);
    let mut calls = 0usize;
    let mut mismatches = 0usize;
    for group in inputs.chunks(4) {
        let base = (group.as_ptr() as usize - inputs.as_ptr() as usize) / std::mem::size_of::<String>();
        let mut ms: Vec<_> = group.iter().map(|i| builder.matcher::<String>(i)).collect();
        let mut outs: Vec<Vec<String>> = vec![vec![]; group.len()];
        let mut live: Vec<usize> = (0..group.len()).collect();
        while !live.is_empty() {
            let k = r.below(live.len());
            let j = live[k];
            calls += 1;
            match ms[j].next() {
                Some(x) if outs[j].len() < 200 => outs[j].push(format!("{x:?}")),
                _ => { live.remove(k); }
            }
        }
        for (j, o) in outs.iter().enumerate() {
            if *o != alone[base + j] {
                mismatches += 1;
                println!("MISMATCH\t{name}\tmatchers\tthread=0\t{}\tbaseline={}\tgot={}", hexs(&group[j]), hexs(&alone[base + j].join(" ")), hexs(&o.join(" ")));
            }
        }
    }
    println!("MATCHERS\t{name}\tinputs={}\tnext_calls={calls}\tmismatches={mismatches}", inputs.len());
}

fn unhex(s: &str) -> String {
    let h = &s[1..];
    let b: Vec<u8> = (0..h.len() / 2).map(|i| u8::from_str_radix(&h[2 * i..2 * i + 2], 16).unwrap()).collect();
    String::from_utf8(b).unwrap()
}
"##;

fn main() {
    let o = parse_opts();
    let extra = |k: &str| -> Option<String> { o.extra.iter().find_map(|e| e.strip_prefix(&format!("{k}=")).map(|v| v.to_string())) };
    let threads: usize = extra("threads").map(|v| v.parse().unwrap()).unwrap_or(8);
    let rounds: usize = extra("rounds").map(|v| v.parse().unwrap()).unwrap_or(1);
    let helgrind = extra("helgrind").is_some();
    let inject = extra("inject").is_some();
    let mut r = Rng::new(o.seed);
    let gen_dir = o.out.join("gen");
    let mod_dir = o.out.join("modules");
    std::fs::create_dir_all(&mod_dir).unwrap();
    let mut files: Vec<(String, String)> = vec![];
    let mut main_rs = String::from(MAIN_PRELUDE);
    let mut body = String::new();
    let mut cases = String::new();
    let mut modules = vec![];
    let mut gen_failed = vec![];
    let mut sample_inputs = vec![];
    for g in GRAMMARS {
        let mut rr = r.fork();
        let inputs: Vec<String> = (0..o.n).map(|_| (g.mk_input)(&mut rr)).collect();
        if let Some(i) = inputs.get(1) {
            sample_inputs.push(format!("{}: {}", g.name, i));
        }
        for i in &inputs {
            cases.push_str(&format!("{}\t{}\n", g.name, enc_str(i)));
        }
        for (backend, attr) in [("td", ""), ("ra", "#[recursive_ascent]")] {
            if backend == "ra" && !g.ascent {
                continue;
            }
            let mut text = g.text.replace("@ATTR@", attr);
            if inject && g.name == "calc" {
                // self-test of the machinery: a parser with shared mutable state (a `static mut` call counter
                // that leaks into the result); the differential run and the fact translator must both object
                text = text
                    .replace("i64::from_str(<>).unwrap_or(7);", "{ let c = unsafe { let c = std::ptr::read_volatile(&raw const crate::CALLS); std::thread::yield_now(); std::ptr::write_volatile(&raw mut crate::CALLS, c + 1); c }; i64::from_str(<>).unwrap_or(7) + c % 2 };");
            }
            let m = format!("{}_{}", g.name, backend);
            match generate_parser(&gen_dir, &m, &text, |_| {}) {
                Ok(mut src) => {
                    std::fs::write(mod_dir.join(format!("{m}.rs")), &src).unwrap();
                    if g.intern {
                        src.push_str("\npub fn verif_builder() -> lalrpop_util::lexer::MatcherBuilder { __intern_token::new_builder() }\n");
                    }
                    files.push((format!("src/{m}.rs"), src));
                    main_rs.push_str(&format!("mod {m};\n"));
                    let ctor = g.ctor.replace("M::", &format!("{m}::"));
                    body.push_str(&format!(
                        "    {{ assert_sync::<{m}::{ty}>(); fn mk() -> {m}::{ty} {{ {ctor} }} fn run(p: &{m}::{ty}, input: &str) -> String {{ {run} }}\n      drive(\"{m}\", mk, run, inputs.get(\"{name}\").map(|v| v.as_slice()).unwrap_or(&[]), &conf); }}\n",
                        ty = g.ty,
                        run = g.run,
                        name = g.name
                    ));
                    if g.intern && backend == "td" {
                        body.push_str(&format!(
                            "    drive_matchers(\"{m}\", &{m}::verif_builder(), inputs.get(\"{name}\").map(|v| v.as_slice()).unwrap_or(&[]), &conf);\n",
                            name = g.name
                        ));
                    }
                    modules.push(m);
                }
                Err(e) => gen_failed.push(format!("{m}: {e}")),
            }
        }
    }
    main_rs.push_str(
        r#"fn main() {
    let args: Vec<String> = std::env::args().collect();
    let text = std::fs::read_to_string(&args[1]).unwrap();
    let conf = Conf { seed: args[2].parse().unwrap(), threads: args[3].parse().unwrap(), rounds: args[4].parse().unwrap(), pause: args[5] == "1" };
    let limit: usize = args[6].parse().unwrap();
    let mut inputs: std::collections::BTreeMap<String, Vec<String>> = Default::default();
    for line in text.lines() {
        let (g, h) = line.split_once('\t').unwrap();
        let v = inputs.entry(g.to_string()).or_default();
        if v.len() < limit { v.push(unhex(h)); }
    }
    assert_sync::<lalrpop_util::lexer::MatcherBuilder>();
"#,
    );
    main_rs.push_str(&body);
    main_rs.push_str("}\n");
    files.push(("src/main.rs".into(), main_rs));
    let crate_dir = o.out.join("crate");
    let t0 = std::time::Instant::now();
    let built = build_scratch_crate(&crate_dir, "threads_runner", &files);
    let compile_s = t0.elapsed().as_secs_f64();
    let cases_path = o.out.join("threads.cases");
    std::fs::write(&cases_path, &cases).unwrap();
    let mut rustc_error = String::new();
    let mut grammar_lines = vec![];
    let mut mismatch_lines = vec![];
    let mut helgrind_report = String::from("not-run");
    let mut helgrind_relevant: i64 = -1;
    let mut run_s = 0.0;
    let mut exit_ok = true;
    match built {
        Ok(exe) => {
            let t1 = std::time::Instant::now();
            let outp = std::process::Command::new(&exe)
                .arg(&cases_path)
                .args([o.seed.to_string(), threads.to_string(), rounds.to_string(), "1".into(), usize::MAX.to_string()])
                .output()
                .unwrap();
            run_s = t1.elapsed().as_secs_f64();
            exit_ok = outp.status.success();
            for l in String::from_utf8_lossy(&outp.stdout).lines() {
                if l.starts_with("MISMATCH") {
                    mismatch_lines.push(l.to_string());
                } else {
                    grammar_lines.push(l.to_string());
                }
            }
            if !exit_ok {
                rustc_error = format!("runner failed: {}", String::from_utf8_lossy(&outp.stderr).chars().take(1500).collect::<String>());
            }
            if helgrind {
                // a small case under helgrind: 3 threads, 6 inputs per grammar, no sleeps
                let log = o.out.join("helgrind.log");
                let hp = std::process::Command::new("valgrind")
                    .args(["--tool=helgrind", "--error-exitcode=9", "--history-level=approx", &format!("--log-file={}", log.display())])
                    .arg(&exe)
                    .arg(&cases_path)
                    .args([o.seed.to_string(), "3".into(), "1".into(), "0".into(), "6".into()])
                    .output();
                helgrind_report = match hp {
                    Ok(hp) => {
                        let logtext = std::fs::read_to_string(&log).unwrap_or_default();
                        let summary = logtext.lines().rev().find(|l| l.contains("ERROR SUMMARY")).unwrap_or("").to_string();
                        // helgrind does not understand the atomics of std's thread start-up/tear-down and
                        // reports them; a report counts when one of its two access stacks has a frame in the
                        // generated modules, lalrpop-util or the regex crates
                        let mut races = 0usize;
                        let mut relevant: Vec<String> = vec![];
                        let mut cur: Vec<&str> = vec![];
                        let mut flush = |cur: &mut Vec<&str>| {
                            if cur.iter().any(|l| l.contains("Possible data race")) {
                                races += 1;
                                let stacks: Vec<&str> = cur.iter().copied().take_while(|l| !l.contains("Thread-Announcement") && !l.contains("Address 0x")).collect();
                                if stacks.iter().any(|l| {
                                    l.contains("lalrpop_util") || l.contains("regex_automata") || l.contains("regex_syntax") || l.contains("_td::") || l.contains("_ra::")
                                }) {
                                    relevant.push(stacks.iter().take(12).map(|l| l.split("== ").nth(1).unwrap_or(l).trim()).collect::<Vec<_>>().join(" | "));
                                }
                            }
                            cur.clear();
                        };
                        for l in logtext.lines() {
                            if l.contains("----------------------------------------------------------------") || l.contains("Possible data race") {
                                let keep = l.contains("Possible data race");
                                flush(&mut cur);
                                if keep {
                                    cur.push(l);
                                }
                            } else {
                                cur.push(l);
                            }
                        }
                        flush(&mut cur);
                        helgrind_relevant = relevant.len() as i64;
                        format!(
                            "rc={:?} reports={races} (std thread start-up/tear-down noise unless counted next) in_parser_or_runtime_code={} {summary} {}",
                            hp.status.code(),
                            relevant.len(),
                            relevant.first().cloned().unwrap_or_default()
                        )
                    }
                    Err(e) => format!("valgrind could not be started: {e}"),
                };
            }
        }
        Err(e) => rustc_error = e,
    }
    let _ = std::fs::remove_dir_all(&gen_dir);
    let js = |v: &[String]| format!("[{}]", v.iter().map(|s| json_str(s)).collect::<Vec<_>>().join(","));
    println!(
        "{{\"modules\":{},\"generate_failed\":{},\"inputs_per_grammar\":{},\"threads\":{},\"rounds\":{},\"compile_s\":{:.1},\"run_s\":{:.1},\"runner_ok\":{},\"rustc_error\":{},\"lines\":{},\"mismatches\":{},\"helgrind\":{},\"helgrind_races_in_parser_code\":{},\"sample_inputs\":{}}}",
        js(&modules),
        js(&gen_failed),
        o.n,
        threads,
        rounds,
        compile_s,
        run_s,
        exit_ok,
        json_str(&rustc_error.chars().take(3000).collect::<String>()),
        js(&grammar_lines),
        js(&mismatch_lines.iter().take(20).cloned().collect::<Vec<_>>()),
        json_str(&helgrind_report),
        helgrind_relevant,
        js(&sample_inputs),
    );
}
