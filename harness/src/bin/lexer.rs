//! M-LEX correspondence (C09 runtime part, lexer part of C08): the real
//! `lalrpop_util::lexer::MatcherBuilder::new(patterns).matcher(text)` token stream vs the Lean model
//! `lpm_lex` (`Model/Lex.lean`) running over a match table computed by an independent engine (the
//! `regex` crate, via the `regex_match_table` hook). Every real run is bounded by a step budget.
//!
//! lex.req : `lex <skip bits> <x hex text> <table>`   table = `o:e:i.j.k;…` or `-`
//! lex.impl: `T:s:i:e … I:loc | E | Z:s:i | B`  (Z = zero-length token returned, B = budget exhausted)
#[path = "../lexgen.rs"]
mod lexgen;
use lalrpop::verif_hooks::lex as hooks;
use lalrpop_util::lexer::MatcherBuilder;
use lexgen::*;
use std::collections::BTreeSet;
use verif_harness::*;

struct Case {
    patterns: Vec<String>,
    skips: Vec<bool>,
    text: String,
}

struct Outcome {
    items: String,
    zero_len: bool,
    budget: bool,
    n_tokens: usize,
    n_calls: usize,
}

/// Run the real matcher, at most `budget` calls of `next`; stop at the first error like the parser does.
fn run_real(c: &Case) -> Option<Outcome> {
    let b = MatcherBuilder::new(c.patterns.iter().map(|p| p.as_str()).zip(c.skips.iter().copied())).ok()?;
    let mut m = b.matcher::<()>(&c.text);
    let budget = 4 * c.text.len() + 8;
    let mut items: Vec<String> = vec![];
    let mut out = Outcome { items: String::new(), zero_len: false, budget: false, n_tokens: 0, n_calls: 0 };
    loop {
        if out.n_calls >= budget {
            items.push("B".into());
            out.budget = true;
            break;
        }
        out.n_calls += 1;
        match m.next() {
            None => {
                items.push("E".into());
                break;
            }
            Some(Ok((s, tok, e))) => {
                // the token text must be the slice the span denotes (checked here, not in Lean)
                assert_eq!(&c.text[s..e], tok.1, "token text is not the span's slice");
                if s == e {
                    items.push(format!("Z:{s}:{}", tok.0));
                    out.zero_len = true;
                    break;
                }
                out.n_tokens += 1;
                items.push(format!("T:{s}:{}:{e}", tok.0));
            }
            Some(Err(lalrpop_util::ParseError::InvalidToken { location })) => {
                items.push(format!("I:{location}"));
                break;
            }
            Some(Err(_)) => {
                items.push("X".into());
                break;
            }
        }
    }
    out.items = items.join(" ");
    Some(out)
}

fn table_str(t: &[(usize, usize, Vec<usize>)]) -> String {
    if t.is_empty() {
        return "-".into();
    }
    t.iter()
        .map(|(o, e, set)| format!("{o}:{e}:{}", set.iter().map(|i| i.to_string()).collect::<Vec<_>>().join(".")))
        .collect::<Vec<_>>()
        .join(";")
}

fn gen_case(r: &mut Rng, h: &mut Hist) -> Case {
    let cfg = if r.chance(1, 3) { GenCfg::full() } else { GenCfg::small() };
    let cfg = GenCfg { unsupported: false, ..cfg };
    let k = 1 + r.below(5);
    let mut patterns = vec![];
    let mut skips = vec![];
    let mut pieces: Vec<String> = vec![" ".into()];
    for _ in 0..k {
        let lit = r.chance(2, 5);
        let p = if lit {
            let s = gen_literal(r, &cfg);
            pieces.push(s.clone());
            h.hit("pattern:literal");
            // what lalrpop hands the runtime for a quoted terminal
            match hooks::rendered_regex(&s, true) {
                Some((re, _)) => re,
                None => continue,
            }
        } else {
            let (s, sample) = gen_regex_sample(r, 2, &cfg);
            pieces.push(sample);
            h.hit("pattern:regex");
            if r.chance(1, 2) {
                match hooks::rendered_regex(&s, false) {
                    Some((re, _)) => re,
                    None => continue,
                }
            } else {
                s
            }
        };
        patterns.push(p);
        skips.push(r.chance(1, 4));
    }
    if r.chance(1, 2) && !skips.iter().any(|&s| s) {
        // the implicit whitespace skip lalrpop appends
        patterns.push(r"\s+".into());
        skips.push(true);
        h.hit("pattern:implicit-ws-skip");
    }
    if r.chance(1, 6) {
        // an empty-matching pattern, skip or not
        patterns.push(r.pick(&["a*", "", "(?:ab)?", "[a-z]*", "\\s*", "x{0,2}", "é*"]).to_string());
        skips.push(r.chance(1, 2));
        h.hit("pattern:empty-matching");
    }
    let alpha = alphabet_of(&patterns, &cfg);
    // inputs: mostly concatenations of strings the patterns (probably) match, sometimes perturbed
    let text = if r.chance(1, 4) {
        gen_input(r, &alpha, 10)
    } else {
        let mut t = String::new();
        let n = r.below(6);
        for _ in 0..n {
            match r.below(8) {
                0 => t.push(*r.pick(&alpha)),
                1 => t.push(' '),
                _ => t.push_str(&pieces[r.below(pieces.len())]),
            }
        }
        t
    };
    Case { patterns, skips, text }
}

/// C09 precedence part: random `match` blocks and grammars through the real `token_check`
/// (stage dump) and `intern_token::compile` (generated source) vs `lpm_tokcheck`.
///   tokc.req `tokc <grammar sexp after macro_expand>`  tokc.impl `ok (intern (entry …)…)` | `error <class>`
///   pats.req `pats <same>`                             pats.impl `<i>:<lit>|ws:<skip> …` read off the generated `__intern_token`
fn tokcheck_stream(o: &Opts, r: &mut Rng) -> String {
    use lalrpop::verif_hooks as vh;
    let mut st = Streams::create(&o.out, "tokc");
    let mut ps = Streams::create(&o.out, "pats");
    let mut h = Hist::default();
    let quoted = ["a", "b", "if", "+", "==", "é", "(", "iff"];
    let regexes = [r"[0-9]+", r"[A-Z]+", r"#[a-z]*", r"\s+", r"//[^\n]*", r"@[a-z]", r"[a-z]+"];
    let n = o.n / 8 + 20;
    let mut nontrivial: BTreeSet<String> = BTreeSet::new();
    let (mut skipped_construct, mut errors, mut oks, mut gen_checked) = (0u64, 0u64, 0u64, 0u64);
    let mut prec_violations = 0u64;
    let mut prec_findings: Vec<String> = vec![];
    for ci in 0..n {
        let nr = r.below(4); // 0 = no match block
        let mut g = String::from("grammar;\n");
        let mut bare_names: Vec<String> = vec![];
        let mut used: Vec<String> = vec![];
        let mut aliases: Vec<String> = vec![];
        let mut dup_alias = false;
        // documented precedence of every declared match item, and of the catch-all
        let mut declared: Vec<(String, usize, bool)> = vec![]; // (literal, precedence, mapped to another name / skip)
        let mut catch_all: Option<usize> = if nr == 0 { Some(0) } else { None };
        let key_of = |t: &str| -> (String, usize) {
            if let Some(q) = t.strip_prefix("r\"") {
                (format!("(regex {})", enc_str(&q[..q.len() - 1])), 0)
            } else {
                (format!("(quoted {})", enc_str(&t[1..t.len() - 1])), 1)
            }
        };
        let term_text = |r: &mut Rng| -> String {
            if r.chance(3, 5) {
                format!("\"{}\"", quoted[r.below(quoted.len())])
            } else {
                format!("r\"{}\"", regexes[r.below(regexes.len())])
            }
        };
        if nr > 0 {
            g.push_str("match {\n");
            for ri in 0..nr {
                if ri > 0 {
                    g.push_str("} else {\n");
                }
                let ni = 1 + r.below(3);
                for _ in 0..ni {
                    let t = term_text(r);
                    let (key, base) = key_of(&t);
                    let choice = r.below(8);
                    declared.push((key, 2 * (nr - ri) + base, choice <= 2));
                    match choice {
                        0 => {
                            let name = format!("T{}", bare_names.len());
                            g.push_str(&format!("    {t} => {name},\n"));
                            bare_names.push(name);
                        }
                        1 => {
                            let alias = format!("\"k{}\"", r.below(3));
                            g.push_str(&format!("    {t} => {alias},\n"));
                            // two entries with one user name are accepted by token_check but make
                            // tyinfer panic (C18 finding): keep them out of the generate_parser step
                            dup_alias |= aliases.contains(&alias);
                            aliases.push(alias.clone());
                            used.push(alias);
                        }
                        2 => g.push_str(&format!("    {t} => {{ }},\n")),
                        _ => {
                            g.push_str(&format!("    {t},\n"));
                            used.push(t);
                        }
                    }
                }
                if r.chance(1, 3) {
                    g.push_str("    _,\n");
                    catch_all = Some(nr - ri);
                    h.hit("match:catch-all");
                }
            }
            g.push_str("}\n");
            h.hit(&format!("match:rungs-{nr}"));
        } else {
            h.hit("match:none");
        }
        // grammar rules: some declared terminals, some new literals, bare names
        g.push_str("pub S: () = {\n");
        let nalts = 1 + r.below(3);
        for _ in 0..nalts {
            g.push_str("   ");
            let ns = 1 + r.below(3);
            for _ in 0..ns {
                let t = match r.below(6) {
                    0 if !bare_names.is_empty() => bare_names[r.below(bare_names.len())].clone(),
                    1 | 2 if !used.is_empty() => used[r.below(used.len())].clone(),
                    _ => term_text(r),
                };
                g.push(' ');
                g.push_str(&t);
            }
            g.push_str(" => (),\n");
        }
        g.push_str("};\n");
        let before = vh::stage_dump(&g, None, "macro_expand");
        let Some(sexp) = before.strip_prefix("ok ") else {
            h.hit("skipped:earlier-stage-error");
            continue;
        };
        let after = vh::stage_dump(&g, None, "token_check");
        let imp = if let Some(rest) = after.strip_prefix("ok ") {
            // cut the `(intern …)` item out of the dump
            match rest.find("(intern") {
                Some(i) => {
                    let mut depth = 0i32;
                    let mut end = i;
                    for (k, ch) in rest[i..].char_indices() {
                        if ch == '(' {
                            depth += 1;
                        } else if ch == ')' {
                            depth -= 1;
                            if depth == 0 {
                                end = i + k + 1;
                                break;
                            }
                        }
                    }
                    oks += 1;
                    format!("ok {}", &rest[i..end])
                }
                None => "ok-without-intern".to_string(),
            }
        } else if let Some(rest) = after.strip_prefix("error token_check ") {
            let msg = dec_str(rest.trim()).unwrap_or_default();
            if msg.contains("multiple match entries") {
                errors += 1;
                "error multiple-entries".to_string()
            } else if msg.contains("does not have a match mapping") {
                errors += 1;
                "error no-mapping".to_string()
            } else {
                // ambiguity / unsupported / invalid regex: raised by `construct` after the entries were sorted
                skipped_construct += 1;
                h.hit("skipped:construct-error");
                continue;
            }
        } else {
            h.hit("skipped:other");
            continue;
        };
        // the documented rule evaluated directly on the implementation's entries
        if let Some(body) = imp.strip_prefix("ok (intern") {
            let mut last = 0usize;
            for ent in body.split("(entry ").skip(1) {
                let mut it = ent.splitn(2, ' ');
                let prec: usize = it.next().unwrap_or("0").parse().unwrap_or(usize::MAX);
                let rest = it.next().unwrap_or("");
                let key = match rest.find(')') {
                    Some(i) => &rest[..=i],
                    None => rest,
                };
                let base = if key.starts_with("(quoted") { 1 } else { 0 };
                // identity mapping: an unmapped match item, or a literal of the grammar picked up by `_`
                // (also when the same literal is declared with another name or as a skip: lalrpop then keeps both entries)
                let user = rest[key.len()..].trim_start();
                let identity = user.starts_with(key);
                let expected = if identity {
                    declared.iter().find(|(k, _, m)| k == key && !*m).map(|(_, p, _)| *p).or(catch_all.map(|c| 2 * c + base))
                } else {
                    declared.iter().find(|(k, _, m)| k == key && *m).map(|(_, p, _)| *p)
                };
                if expected != Some(prec) || prec < last {
                    if prec_findings.len() < 5 {
                        prec_findings.push(format!(
                            "{{\"grammar\":{},\"entry\":{},\"precedence\":{prec},\"documented\":{},\"entries\":{}}}",
                            json_str(&g), json_str(key), expected.map_or("null".to_string(), |p| p.to_string()), json_str(&imp)
                        ));
                    }
                    prec_violations += 1;
                    break;
                }
                last = prec;
            }
        }
        let req = format!("tokc {sexp}");
        if nr >= 2 || imp.starts_with("error") {
            nontrivial.insert(req.clone());
        }
        st.case(&req, &imp);
        // the generated lexer's pattern list (every 3rd accepted case)
        if imp.starts_with("ok (intern") && ci % 3 == 0 && !dup_alias {
            let dir = o.out.join("tokgen");
            if let Ok(src) = generate_parser(&dir, &format!("g{ci}"), &g, |_| {}) {
                if let Some(a) = src.find("__strs: &[(&str, bool)] = &[") {
                    let body = &src[a..];
                    let end = body.find("];").unwrap_or(body.len());
                    let mut items: Vec<String> = vec![];
                    // map quoted regex text back to the terminal it renders
                    let mut lits: Vec<(String, String)> = vec![];
                    for q in quoted {
                        if let Some((_, quoted_re)) = hooks::rendered_regex(q, true) {
                            lits.push((quoted_re, format!("(quoted {})", enc_str(q))));
                        }
                    }
                    for re in regexes {
                        if let Some((_, quoted_re)) = hooks::rendered_regex(re, false) {
                            lits.push((quoted_re, format!("(regex {})", enc_str(re))));
                        }
                    }
                    for (idx, line) in body[..end].lines().skip(1).filter(|l| l.trim_start().starts_with('(')).enumerate() {
                        let l = line.trim();
                        let skip = l.ends_with("true),");
                        let text = l.trim_start_matches('(').rsplitn(2, ", ").nth(1).unwrap_or("");
                        let name = if text == "r\"\\s+\"" {
                            "ws".to_string()
                        } else {
                            lits.iter().find(|(q, _)| q == text).map(|(_, n)| n.clone()).unwrap_or(format!("?{text}"))
                        };
                        items.push(format!("{idx}:{name}:{}", if skip { 1 } else { 0 }));
                    }
                    gen_checked += 1;
                    ps.case(&format!("pats {sexp}"), &items.join(" "));
                }
            }
        }
    }
    let (c1, c2) = (st.count, ps.count);
    st.finish();
    ps.finish();
    format!(
        "{{\"cases\":{c1},\"pattern_list_cases\":{c2},\"distinct_nontrivial\":{},\"ok\":{oks},\"errors\":{errors},\"skipped_construct_error\":{skipped_construct},\"generated_parsers\":{gen_checked},\"precedence_rule_violations\":{prec_violations},\"precedence_findings\":[{}],\"hist\":{}}}",
        nontrivial.len(),
        prec_findings.join(","),
        h.json()
    )
}

fn main() {
    let o = parse_opts();
    let mut st = Streams::create(&o.out, "lex");
    let mut h = Hist::default();
    let mut r = Rng::new(o.seed);
    let mut cases: Vec<Case> = vec![];
    // fixed cases first: the probe behind F2 and a few boundary shapes
    let fixed: &[(&[(&str, bool)], &str)] = &[
        (&[("a*", false)], "b"),
        (&[("a*", false), (r"\s+", true)], "aab"),
        (&[("a*", true)], "b"),
        (&[("a", false), ("ab", false), ("abc", false), (r"\s+", true)], "ab abc a"),
        (&[("[a-z]+", false), ("if", false), (r"\s+", true)], "if iff i"),
        (&[("é", false), ("[é-ê]", false)], "éê"),
        (&[("", false)], ""),
        (&[("", false)], "a"),
        (&[("a|", false), ("b", true)], "abba"),
        (&[("😀+", false), (r"\s*", true)], "😀😀 😀"),
    ];
    for (ps, t) in fixed {
        cases.push(Case {
            patterns: ps.iter().map(|p| p.0.to_string()).collect(),
            skips: ps.iter().map(|p| p.1).collect(),
            text: t.to_string(),
        });
    }
    for _ in 0..o.n {
        cases.push(gen_case(&mut r, &mut h));
    }
    let mut nontrivial: BTreeSet<String> = BTreeSet::new();
    let (mut skipped_build, mut zero_len, mut budget, mut tokens, mut max_calls) = (0u64, 0u64, 0u64, 0u64, 0usize);
    let mut first_zero: Option<String> = None;
    for c in &cases {
        if c.patterns.is_empty() {
            skipped_build += 1;
            continue;
        }
        let pats: Vec<&str> = c.patterns.iter().map(|p| p.as_str()).collect();
        let table = match hooks::regex_match_table(&pats, &c.text) {
            Ok(t) => t,
            Err(_) => {
                skipped_build += 1;
                continue;
            }
        };
        let real = match run_real(c) {
            Some(x) => x,
            None => {
                skipped_build += 1;
                continue;
            }
        };
        let bits: String = c.skips.iter().map(|&s| if s { '1' } else { '0' }).collect();
        let req = format!("lex {bits} {} {}", enc_str(&c.text), table_str(&table));
        // classification for the coverage record
        let competing = table.iter().any(|(_, _, set)| set.len() >= 2);
        let nested = table.iter().any(|(o1, e1, _)| table.iter().any(|(o2, e2, _)| o1 == o2 && e1 < e2));
        let has_skip = c.skips.iter().any(|&s| s);
        let invalid = real.items.contains("I:");
        if competing {
            h.hit("case:competing-patterns");
        }
        if nested {
            h.hit("case:shorter-and-longer-match");
        }
        if invalid {
            h.hit("case:invalid-token");
        }
        if !c.text.is_ascii() {
            h.hit("case:non-ascii-input");
        }
        if table.iter().any(|(o, e, _)| o == e) {
            h.hit("case:empty-match-somewhere");
        }
        if real.zero_len {
            zero_len += 1;
            if first_zero.is_none() {
                first_zero = Some(format!(
                    "{{\"patterns\":[{}],\"skip\":\"{bits}\",\"text\":{},\"stream\":{}}}",
                    c.patterns.iter().map(|p| json_str(p)).collect::<Vec<_>>().join(","),
                    json_str(&c.text),
                    json_str(&real.items)
                ));
            }
        }
        if real.budget {
            budget += 1;
        }
        tokens += real.n_tokens as u64;
        max_calls = max_calls.max(real.n_calls);
        if (competing || nested || invalid) && has_skip || competing && nested {
            nontrivial.insert(req.clone());
        }
        // the property C08 needs from the real code, checked directly: calls <= len + 1 when no zero-length token
        st.case(&req, &real.items);
    }
    let total = st.count;
    st.finish();
    let tokc_stats = tokcheck_stream(&o, &mut r);
    println!(
        "{{\"tokcheck\":{tokc_stats},\"cases\":{total},\"distinct_nontrivial\":{},\"skipped_not_buildable\":{skipped_build},\"zero_length_tokens\":{zero_len},\"budget_exhausted\":{budget},\"tokens\":{tokens},\"max_next_calls\":{max_calls},\"first_zero_length\":{},\"hist\":{}}}",
        nontrivial.len(),
        first_zero.unwrap_or("null".into()),
        h.json()
    );
}
