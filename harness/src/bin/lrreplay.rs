//! Replay one LR-family failing input: `lrreplay GRAMMAR_FILE ALGO START 'run …|member …' OUTDIR`
//! regenerates the parser with the real lalrpop, extracts the tables, runs the real driver, and
//! writes lrr.req / lrr.impl for `lpm_lr` (tables, grammar, automaton, validate, the request).
use verif_harness::lr::*;
use verif_harness::*;

fn main() {
    let a: Vec<String> = std::env::args().collect();
    let text = std::fs::read_to_string(&a[1]).unwrap();
    let (algo, start, req, out) = (&a[2], &a[3], &a[4], std::path::PathBuf::from(&a[5]));
    std::fs::create_dir_all(&out).unwrap();
    unsafe {
        if algo == "lane" { std::env::remove_var("LALRPOP_LANE_TABLE") } else { std::env::set_var("LALRPOP_LANE_TABLE", "disabled") }
    }
    let Export::Ok { grammar, automata, conflicts } = parse_export(&lalrpop::verif_hooks::export_automaton(&text, None)) else {
        println!("lalrpop rejects the grammar (parse/normalize error)");
        return;
    };
    if !conflicts.is_empty() {
        println!("lalrpop reports conflicts: {conflicts:?}");
        return;
    }
    let gen_text = generate_parser(&out.join("gen"), "g", &text, |_| {}).expect("generate");
    let au = automata.iter().find(|x| &x.user_start == start).unwrap_or(&automata[0]);
    let tables = extract_tables(&gen_text, &au.user_start, grammar.nonterminals.len()).expect("extract");
    let mut st = Streams::create(&out, "lrr");
    st.case(&tables.line(), "ok");
    st.case(&grammar.line(au.start_prod), "ok");
    st.case(&format!("automaton states={} {}", au.nstates, au.body), "ok");
    st.case("validate", "valid");
    // parse the request back into stream items
    let kvs: std::collections::HashMap<&str, &str> = req.split_whitespace().skip(1).filter_map(|w| w.split_once('=')).collect();
    let items: Vec<StreamItem> = if req.starts_with("member") {
        kvs.get("kinds").copied().unwrap_or("").split(',').filter(|s| !s.is_empty()).enumerate()
            .map(|(i, k)| StreamItem::Tok(2 * i as i64, k.parse().ok(), 2 * i as i64 + 1)).collect()
    } else {
        kvs.get("input").copied().unwrap_or("").split(',').filter(|s| !s.is_empty()).map(|it| {
            if let Some(e) = it.strip_prefix('E') { StreamItem::Err(e.parse().unwrap()) } else {
                let f: Vec<&str> = it.split(':').collect();
                StreamItem::Tok(f[0].parse().unwrap(), f[1].parse().ok(), f[2].parse().unwrap())
            }
        }).collect()
    };
    let fail = kvs.get("fail").and_then(|f| f.parse().ok());
    let start_loc = kvs.get("start").and_then(|f| f.parse().ok()).unwrap_or(0);
    let outl = drive_real(&tables, &items, fail, start_loc);
    let imp = if req.starts_with("member") { if outl.starts_with("ok ") { "yes".to_string() } else { "no".to_string() } } else { outl };
    st.case(&req.replace("runc ", "run "), &imp);
    st.finish();
    println!("real driver: {imp}");
}
