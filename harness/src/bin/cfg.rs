//! C15: conditional compilation.
//!  (a) model tie: `stage_dump(parse)` → Lean `removeDisabled` → compare with `stage_dump(cond_comp)`
//!      (or the unvalidated single-pass hook for malformed cfg shapes) for EVERY subset of the 4
//!      feature names and for features unset; `validate_cfg_attr` verdicts; `CARGO_FEATURE_*` names
//!      observed through `Configuration::process_dir`.
//!  (b) text differential without any model: grammar with cfg attributes vs the same grammar with
//!      the inactive items textually deleted (and all cfg attributes stripped); real
//!      `process_file` on both for every feature subset; accept/reject and generated code
//!      (modulo the 2 header lines) must agree.
//! Writes cfg.req / cfg.impl and cfg.diff.json (mismatches of (b)); prints one JSON stats line.
use lalrpop::verif_hooks as vh;
use std::collections::{BTreeSet, HashSet};
use verif_harness::*;

const FEATS: [&str; 4] = ["a", "b", "c-d", "e_f"];

// ------------------------------------------------------------------------------- predicates

#[derive(Clone, Debug)]
enum P {
    Feat(String),
    Not(Box<P>),
    All(Vec<P>),
    Any(Vec<P>),
}

impl P {
    fn eval(&self, on: &BTreeSet<String>) -> bool {
        match self {
            P::Feat(f) => on.contains(f),
            P::Not(p) => !p.eval(on),
            P::All(ps) => ps.iter().all(|p| p.eval(on)),
            P::Any(ps) => ps.iter().any(|p| p.eval(on)),
        }
    }
    fn render(&self) -> String {
        match self {
            P::Feat(f) => format!("feature = \"{f}\""),
            P::Not(p) => format!("not({})", p.render()),
            P::All(ps) => format!("all({})", ps.iter().map(|p| p.render()).collect::<Vec<_>>().join(", ")),
            P::Any(ps) => format!("any({})", ps.iter().map(|p| p.render()).collect::<Vec<_>>().join(", ")),
        }
    }
    fn depth(&self) -> usize {
        match self {
            P::Feat(_) => 0,
            P::Not(p) => 1 + p.depth(),
            P::All(ps) | P::Any(ps) => 1 + ps.iter().map(|p| p.depth()).max().unwrap_or(0),
        }
    }
}

fn gen_pred(r: &mut Rng, depth: usize) -> P {
    let k = if depth >= 3 { 0 } else { r.below(8) };
    match k {
        0..=2 => {
            // mostly the known names; sometimes a name no subset contains
            if r.chance(1, 12) {
                P::Feat("zz".into())
            } else {
                P::Feat(r.pick(&FEATS).to_string())
            }
        }
        3 | 4 => P::Not(Box::new(gen_pred(r, depth + 1))),
        5 | 6 => {
            let n = 1 + r.below(3);
            P::All((0..n).map(|_| gen_pred(r, depth + 1)).collect())
        }
        _ => {
            let n = 1 + r.below(3);
            P::Any((0..n).map(|_| gen_pred(r, depth + 1)).collect())
        }
    }
}

fn gen_cfgs(r: &mut Rng, many: bool) -> Vec<P> {
    match r.below(10) {
        0..=4 => vec![],
        5..=8 => vec![gen_pred(r, 0)],
        _ => {
            if many {
                (0..2 + r.below(2)).map(|_| gen_pred(r, 0)).collect()
            } else {
                vec![gen_pred(r, 0)]
            }
        }
    }
}

// ------------------------------------------------------------------------------- grammars

struct AltG {
    cfgs: Vec<P>,
    /// attributes other than cfg (precedence, assoc) kept in both renderings
    other_attrs: String,
    body: String,
}
struct NtG {
    cfgs: Vec<P>,
    head: String, // `pub S: ()`
    alts: Vec<AltG>,
}
struct ConvG {
    cfgs: Vec<P>,
    text: String,
}
struct GrammarG {
    convs: Option<Vec<ConvG>>,
    nts: Vec<NtG>,
}

fn attrs_of(cfgs: &[P]) -> String {
    cfgs.iter().map(|p| format!("#[cfg({})] ", p.render())).collect()
}

impl GrammarG {
    /// with cfg attributes
    fn render_cfg(&self) -> String {
        let mut s = String::from("grammar;\n");
        if let Some(convs) = &self.convs {
            s.push_str("extern {\n    type Location = usize;\n    type Error = ();\n    enum Tok {\n");
            for c in convs {
                s.push_str(&format!("        {}{},\n", attrs_of(&c.cfgs), c.text));
            }
            s.push_str("    }\n}\n");
        }
        for nt in &self.nts {
            s.push_str(&format!("{}{} = {{\n", attrs_of(&nt.cfgs), nt.head));
            for a in &nt.alts {
                s.push_str(&format!("    {}{}{},\n", attrs_of(&a.cfgs), a.other_attrs, a.body));
            }
            s.push_str("};\n");
        }
        s
    }
    /// inactive items deleted, all cfg attributes stripped
    fn render_deleted(&self, on: &BTreeSet<String>) -> String {
        let act = |cfgs: &[P]| cfgs.iter().all(|p| p.eval(on));
        let mut s = String::from("grammar;\n");
        if let Some(convs) = &self.convs {
            s.push_str("extern {\n    type Location = usize;\n    type Error = ();\n    enum Tok {\n");
            for c in convs.iter().filter(|c| act(&c.cfgs)) {
                s.push_str(&format!("        {},\n", c.text));
            }
            s.push_str("    }\n}\n");
        }
        for nt in self.nts.iter().filter(|n| act(&n.cfgs)) {
            s.push_str(&format!("{} = {{\n", nt.head));
            for a in nt.alts.iter().filter(|a| act(&a.cfgs)) {
                s.push_str(&format!("    {}{},\n", a.other_attrs, a.body));
            }
            s.push_str("};\n");
        }
        s
    }
}

struct GStats {
    nt_cfg: usize,
    alt_cfg: usize,
    conv_cfg: usize,
    multi_cfg: usize,
    max_depth: usize,
    prec: bool,
    dup_defs: bool,
}

fn note(st: &mut GStats, cfgs: &[P], kind: u8) {
    if cfgs.is_empty() {
        return;
    }
    match kind {
        0 => st.nt_cfg += 1,
        1 => st.alt_cfg += 1,
        _ => st.conv_cfg += 1,
    }
    if cfgs.len() > 1 {
        st.multi_cfg += 1;
    }
    st.max_depth = st.max_depth.max(cfgs.iter().map(|p| p.depth()).max().unwrap_or(0));
}

fn gen_grammar(r: &mut Rng, allow_multi_on_nt: bool) -> (GrammarG, GStats) {
    let mut st = GStats { nt_cfg: 0, alt_cfg: 0, conv_cfg: 0, multi_cfg: 0, max_depth: 0, prec: false, dup_defs: false };
    let external = r.chance(1, 3);
    let nsub = 1 + r.below(3);
    let mut nts = vec![];
    // start symbol: one alternative per sub-nonterminal (distinct leading terminals), plus extras
    let mut alts = vec![];
    let term = |i: usize| if external { format!("\"t{}\"", i % 4) } else { format!("\"t{i}\"") };
    for i in 0..nsub {
        let cfgs = gen_cfgs(r, true);
        note(&mut st, &cfgs, 1);
        alts.push(AltG { cfgs, other_attrs: String::new(), body: format!("{} N{i} => ()", term(i)) });
    }
    if r.chance(1, 2) {
        let cfgs = gen_cfgs(r, true);
        note(&mut st, &cfgs, 1);
        alts.push(AltG { cfgs, other_attrs: String::new(), body: format!("{} => ()", term(nsub)) });
    }
    let s_cfgs = if r.chance(1, 6) { vec![gen_pred(r, 0)] } else { vec![] };
    note(&mut st, &s_cfgs, 0);
    nts.push(NtG { cfgs: s_cfgs, head: "pub S: ()".into(), alts });
    for i in 0..nsub {
        // one or two definitions of N{i} (the classic complementary pair)
        let defs = if r.chance(1, 3) { 2 } else { 1 };
        if defs == 2 {
            st.dup_defs = true;
        }
        let first = gen_pred(r, 0);
        for d in 0..defs {
            let cfgs = if defs == 2 {
                if d == 0 {
                    vec![first.clone()]
                } else if r.chance(3, 4) {
                    vec![P::Not(Box::new(first.clone()))]
                } else {
                    vec![gen_pred(r, 0)]
                }
            } else {
                let mut c = gen_cfgs(r, allow_multi_on_nt);
                if !allow_multi_on_nt {
                    c.truncate(1);
                }
                c
            };
            note(&mut st, &cfgs, 0);
            let prec = r.chance(1, 4);
            let mut alts = vec![];
            if prec {
                st.prec = true;
                // operator nonterminal: atoms on the lowest level, binary operators above;
                // cfg'd first alternatives on purpose (validation runs before cfg removal)
                let n = 2 + r.below(3);
                for j in 0..n {
                    let cfgs = gen_cfgs(r, true);
                    note(&mut st, &cfgs, 1);
                    // valid layouts only (level 0 = atoms without assoc; operators on levels 1..2, or
                    // inheriting such a level): errors inside disabled items are a separate, fixed case
                    let own = j <= 1 || r.chance(2, 3);
                    let lvl = if j == 0 { 0 } else { 1 + r.below(2) };
                    let mut oa = String::new();
                    if own {
                        oa.push_str(&format!("#[precedence(level=\"{lvl}\")] "));
                    }
                    if j > 0 && r.chance(1, 2) {
                        oa.push_str(&format!("#[assoc(side=\"{}\")] ", r.pick(&["left", "right", "none", "all"])));
                    }
                    let body = if j == 0 || r.chance(1, 3) {
                        format!("{} => ()", if external { "\"t3\"".to_string() } else { format!("\"k{i}_{d}_{j}\"") })
                    } else {
                        let op = if external { "\"t2\"".to_string() } else { format!("\"o{i}_{d}_{j}\"") };
                        format!("N{i} {op} N{i} => ()")
                    };
                    alts.push(AltG { cfgs, other_attrs: oa, body });
                }
            } else {
                let n = 1 + r.below(3);
                for j in 0..n {
                    let cfgs = gen_cfgs(r, true);
                    note(&mut st, &cfgs, 1);
                    let body = if external { format!("\"t{}\" => ()", (j + 1) % 4) } else { format!("\"k{i}_{d}_{j}\" => ()") };
                    alts.push(AltG { cfgs, other_attrs: String::new(), body });
                }
            }
            nts.push(NtG { cfgs, head: format!("N{i}: ()"), alts });
        }
    }
    let convs = if external {
        let mut cs = vec![];
        for t in 0..4 {
            let copies = if r.chance(1, 4) { 2 } else { 1 };
            let first = gen_pred(r, 0);
            for c in 0..copies {
                let cfgs = if copies == 2 {
                    if c == 0 { vec![first.clone()] } else { vec![P::Not(Box::new(first.clone()))] }
                } else {
                    gen_cfgs(r, true)
                };
                note(&mut st, &cfgs, 2);
                cs.push(ConvG { cfgs, text: format!("\"t{t}\" => Tok::T{t}{}", if c == 1 { "b" } else { "" }) });
            }
        }
        Some(cs)
    } else {
        None
    };
    (GrammarG { convs, nts }, st)
}

// ------------------------------------------------------------------------------- wild attribute shapes

fn wild_attr(r: &mut Rng, depth: usize) -> String {
    let id = *r.pick(&["feature", "not", "all", "any", "cfg", "foo", "target_os"]);
    match if depth >= 3 { r.below(2) } else { r.below(5) } {
        0 => id.to_string(),
        1 => format!("{id} = \"{}\"", r.pick(&["a", "b", "c-d", "e_f", "", "zz"])),
        _ => {
            let n = r.below(4);
            let parts: Vec<String> = (0..n).map(|_| wild_attr(r, depth + 1)).collect();
            format!("{id}({})", parts.join(", "))
        }
    }
}

fn wild_cfg(r: &mut Rng) -> String {
    match r.below(8) {
        0 => "#[cfg]".to_string(),
        1 => format!("#[cfg = \"{}\"]", r.pick(&["a", "feature"])),
        2 => "#[cfg()]".to_string(),
        _ => {
            let n = 1 + r.below(2);
            let parts: Vec<String> = (0..n).map(|_| wild_attr(r, 0)).collect();
            format!("#[cfg({})]", parts.join(", "))
        }
    }
}

fn wild_grammar(r: &mut Rng) -> String {
    // malformed cfg attributes on nonterminals, alternatives and conversions
    let mut s = String::from("grammar;\n");
    if r.chance(1, 3) {
        s.push_str("extern {\n    type Location = usize;\n    enum Tok {\n");
        for t in 0..3 {
            let a = if r.chance(1, 2) { wild_cfg(r) } else { String::new() };
            s.push_str(&format!("        {a} \"t{t}\" => Tok::T{t},\n"));
        }
        s.push_str("    }\n}\n");
    }
    for i in 0..1 + r.below(3) {
        let a = if r.chance(1, 2) { wild_cfg(r) } else { String::new() };
        s.push_str(&format!("{a} {}N{i}: () = {{\n", if i == 0 { "pub " } else { "" }));
        for j in 0..1 + r.below(3) {
            let mut a = String::new();
            for _ in 0..r.below(3) {
                a.push_str(&wild_cfg(r));
                a.push(' ');
            }
            s.push_str(&format!("    {a}\"t{j}\" => (),\n"));
        }
        s.push_str("};\n");
    }
    s
}

// ------------------------------------------------------------------------------- runs

fn subsets() -> Vec<Option<Vec<&'static str>>> {
    let mut v: Vec<Option<Vec<&'static str>>> = vec![None];
    for mask in 0..16u32 {
        v.push(Some((0..4).filter(|b| mask >> b & 1 == 1).map(|b| FEATS[b]).collect()));
    }
    v
}

fn featspec(f: &Option<Vec<&str>>) -> String {
    match f {
        None => "-".into(),
        Some(v) if v.is_empty() => "+".into(),
        Some(v) => v.iter().map(|s| enc_str(s)).collect::<Vec<_>>().join(","),
    }
}

fn caught<F: FnOnce() -> String + std::panic::UnwindSafe>(f: F) -> Result<String, String> {
    std::panic::catch_unwind(f).map_err(|p| {
        p.downcast_ref::<String>().cloned().or_else(|| p.downcast_ref::<&str>().map(|s| s.to_string())).unwrap_or_default()
    })
}

struct Out {
    st: Streams,
    h: Hist,
    distinct: HashSet<u64>,
    nontrivial: HashSet<u64>,
}

fn fnv(s: &str) -> u64 {
    let mut h = 0xcbf29ce484222325u64;
    for b in s.bytes() {
        h ^= b as u64;
        h = h.wrapping_mul(0x100000001b3);
    }
    h
}

/// (a) the removal pass vs the model, every feature subset
fn tie_remove(o: &mut Out, text: &str, unvalidated: bool) {
    let parse = vh::stage_dump(text, None, "parse");
    let Some(parse_sexp) = parse.strip_prefix("ok ") else {
        o.h.hit("skip:parse-error");
        return;
    };
    for f in subsets() {
        let t = text.to_string();
        let fv: Option<Vec<String>> = f.as_ref().map(|v| v.iter().map(|s| s.to_string()).collect());
        let r = caught(move || {
            let fr: Option<Vec<&str>> = fv.as_ref().map(|v| v.iter().map(|s| s.as_str()).collect());
            if unvalidated {
                vh::misc::passes::cond_comp_unvalidated(&t, fr.as_deref())
            } else {
                vh::stage_dump(&t, fr.as_deref(), "cond_comp")
            }
        });
        let Ok(r) = r else {
            o.h.hit("skip:cond_comp-panicked");
            continue;
        };
        let Some(out) = r.strip_prefix("ok ") else {
            o.h.hit("skip:rejected-before-cond_comp");
            return;
        };
        let req = format!("remove {} {parse_sexp}", featspec(&f));
        let k = fnv(&req);
        o.distinct.insert(k);
        if out != parse_sexp {
            o.nontrivial.insert(k);
            o.h.hit("remove:something-deleted");
        } else {
            o.h.hit("remove:nothing-deleted");
        }
        o.st.case(&req, out);
    }
}

fn cfgerr_kind(msg: &str) -> Option<String> {
    if msg == "`cfg` attributes take one argument" {
        Some("cfgArity".into())
    } else if msg == "`not` takes one argument" {
        Some("notArity".into())
    } else if msg == "`any` takes at least one argument" {
        Some("anyArity".into())
    } else if msg == "`all` takes at least one argument" {
        Some("allArity".into())
    } else if msg.starts_with("expected a `not()`, `any()`, `all()` or `feature = ") {
        Some("featureShape".into())
    } else if let Some(rest) = msg.strip_prefix("unexpected `cfg` argument `") {
        Some(format!("unexpected {}", enc_str(rest.strip_suffix('`').unwrap_or(rest))))
    } else {
        None
    }
}

/// `validate_cfg_attr` on one nonterminal-level attribute
fn tie_validcfg(o: &mut Out, attr_text: &str) {
    let text = format!("grammar;\n{attr_text} pub A: () = \"a\" => ();\n");
    let parse = vh::stage_dump(&text, None, "parse");
    let Some(parse_sexp) = parse.strip_prefix("ok ") else {
        o.h.hit("skip:parse-error");
        return;
    };
    // the attribute is the first `(attr ..)` inside the nonterminal's `(attrs ..)`
    let Some(pos) = parse_sexp.find("(attrs (attr ") else { return };
    let start = pos + "(attrs ".len();
    let bytes = parse_sexp.as_bytes();
    let mut depth = 0i32;
    let mut end = start;
    for (i, b) in bytes[start..].iter().enumerate() {
        if *b == b'(' {
            depth += 1;
        } else if *b == b')' {
            depth -= 1;
            if depth == 0 {
                end = start + i + 1;
                break;
            }
        }
    }
    let attr_sexp = &parse_sexp[start..end];
    let pre = vh::stage_dump(&text, None, "prevalidate");
    let imp = if pre.starts_with("ok ") {
        "ok".to_string()
    } else if let Some(hexmsg) = pre.strip_prefix("error prevalidate ") {
        match cfgerr_kind(&dec_str(hexmsg).unwrap_or_default()) {
            Some(k) => format!("error {k}"),
            None => {
                o.h.hit("skip:validcfg-other-error");
                return;
            }
        }
    } else {
        return;
    };
    o.h.hit(&format!("validcfg:{}", imp.split(' ').take(2).collect::<Vec<_>>().join(" ")));
    let req = format!("validcfg {attr_sexp}");
    let k = fnv(&req);
    o.distinct.insert(k);
    o.nontrivial.insert(k);
    o.st.case(&req, &imp);
}

/// `CARGO_FEATURE_*` → feature name, observed through process_dir: which of the candidate names
/// switches an alternative on
fn tie_env(o: &mut Out, dir: &std::path::Path, var: &str) {
    let suffix = var.strip_prefix("CARGO_FEATURE_").unwrap_or(var);
    let mut cands: Vec<String> = vec![
        suffix.replace('_', "-").to_ascii_lowercase(),
        suffix.to_ascii_lowercase(),
        suffix.replace('_', "-"),
        suffix.to_string(),
        suffix.replace('_', "-").to_lowercase(),
    ];
    cands.sort();
    cands.dedup();
    cands.retain(|c| !c.contains('"') && !c.contains('\\'));
    let mut g = String::from("grammar;\npub S: () = {\n    \"base\" => (),\n");
    for (i, c) in cands.iter().enumerate() {
        g.push_str(&format!("    #[cfg(feature = \"{c}\")] \"cand{i}\" => (),\n"));
    }
    g.push_str("};\n");
    let d = dir.join("envcase");
    let _ = std::fs::remove_dir_all(&d);
    std::fs::create_dir_all(&d).unwrap();
    std::fs::write(d.join("g.lalrpop"), &g).unwrap();
    // the harness is single threaded here
    unsafe { std::env::set_var(var, "1") };
    let mut cfg = lalrpop::Configuration::new();
    cfg.force_build(true).log_quiet().set_out_dir(&d);
    let res = std::panic::catch_unwind(std::panic::AssertUnwindSafe(|| cfg.process_dir(&d).map_err(|e| e.to_string())));
    unsafe { std::env::remove_var(var) };
    let imp = match res {
        Ok(Ok(())) => {
            let code = std::fs::read_to_string(d.join("g.rs")).unwrap_or_default();
            let active: Vec<&String> = cands.iter().enumerate().filter(|(i, _)| code.contains(&format!("cand{i}"))).map(|(_, c)| c).collect();
            match active.len() {
                0 => "none".to_string(),
                1 => format!("some {}", enc_str(active[0])),
                _ => "several".to_string(),
            }
        }
        _ => "process-failed".to_string(),
    };
    o.h.hit(&format!("envfeat:{}", imp.split(' ').next().unwrap()));
    let req = format!("envfeat {}", enc_str(var));
    let k = fnv(&req);
    o.distinct.insert(k);
    o.nontrivial.insert(k);
    o.st.case(&req, &imp);
}

/// The Cargo feature `e_f` reaches a build script as `CARGO_FEATURE_E_F`. Rust's `cfg(feature = "e_f")`
/// is then on; is lalrpop's `#[cfg(feature = "e_f")]`? Returns a mismatch record if it is not.
fn env_lossy_probe(dir: &std::path::Path) -> Option<String> {
    let g = "grammar;\npub S: () = {\n    #[cfg(feature = \"e_f\")] \"feature_on\" => (),\n    #[cfg(not(feature = \"e_f\"))] \"feature_off\" => (),\n};\n";
    let run = |via_env: bool| -> Option<String> {
        let d = dir.join(if via_env { "envlossy_env" } else { "envlossy_explicit" });
        let _ = std::fs::remove_dir_all(&d);
        std::fs::create_dir_all(&d).unwrap();
        std::fs::write(d.join("g.lalrpop"), g).unwrap();
        let mut cfg = lalrpop::Configuration::new();
        cfg.force_build(true).log_quiet().set_out_dir(&d);
        if via_env {
            unsafe { std::env::set_var("CARGO_FEATURE_E_F", "1") };
        } else {
            cfg.set_features(vec!["e_f".to_string()]);
        }
        let r = std::panic::catch_unwind(std::panic::AssertUnwindSafe(|| cfg.process_dir(&d).map_err(|e| e.to_string())));
        if via_env {
            unsafe { std::env::remove_var("CARGO_FEATURE_E_F") };
        }
        match r {
            Ok(Ok(())) => std::fs::read_to_string(d.join("g.rs")).ok(),
            _ => None,
        }
    };
    let env_code = run(true)?;
    let exp_code = run(false)?;
    let on = |c: &str| c.contains("feature_on");
    if on(&exp_code) && !on(&env_code) {
        Some(format!(
            "{{\"verdict\":\"ENV-feature-not-activated\",\"with_cfg_stage\":\"ok\",\"features\":\"CARGO_FEATURE_E_F=1 (Cargo feature e_f)\",\"grammar_with_cfg\":{},\"grammar_deleted\":\"\",\"with_cfg_result\":\"process_dir with CARGO_FEATURE_E_F=1: alternative `feature_off` generated, `feature_on` deleted\",\"deleted_result\":\"set_features([e_f]): alternative `feature_on` generated\",\"several_cfg_on_nonterminal\":false}}",
            json_str(g)
        ))
    } else {
        None
    }
}

fn strip_header(code: &str) -> String {
    code.lines().skip(2).collect::<Vec<_>>().join("\n")
}

/// (b) cfg grammar vs textually deleted grammar, every feature subset; returns mismatches as JSON
fn differential(o: &mut Out, dir: &std::path::Path, g: &GrammarG, mism: &mut Vec<String>, runs: &mut u64) {
    let cfg_text = g.render_cfg();
    for f in subsets() {
        let on: BTreeSet<String> = f.clone().unwrap_or_default().iter().map(|s| s.to_string()).collect();
        let del_text = g.render_deleted(&on);
        let fo = f.clone();
        let a = generate_parser(dir, "with_cfg", &cfg_text, |c| {
            if let Some(v) = &fo {
                c.set_features(v.iter().map(|s| s.to_string()));
            }
        });
        let b = generate_parser(dir, "deleted", &del_text, |_| {});
        *runs += 2;
        let verdict = match (&a, &b) {
            (Ok(x), Ok(y)) => {
                if strip_header(x) == strip_header(y) {
                    "both-ok-same-code"
                } else {
                    "both-ok-DIFFERENT-code"
                }
            }
            (Err(x), Err(y)) => {
                if x.starts_with("panic") || y.starts_with("panic") {
                    "PANIC"
                } else {
                    "both-rejected"
                }
            }
            (Ok(_), Err(_)) => "cfg-ACCEPTED-deleted-rejected",
            (Err(_), Ok(_)) => "cfg-REJECTED-deleted-accepted",
        };
        o.h.hit(&format!("diff:{verdict}"));
        if verdict.chars().any(|c| c.is_ascii_uppercase()) {
            let multi_on_nt = g.nts.iter().any(|n| n.cfgs.len() > 1);
            let fr: Option<Vec<&str>> = f.clone();
            let stage = vh::stage_dump(&cfg_text, fr.as_deref(), "inline");
            let stage = stage.split(' ').take(2).collect::<Vec<_>>().join(" ");
            mism.push(format!(
                "{{\"verdict\":{},\"with_cfg_stage\":{},\"features\":{},\"grammar_with_cfg\":{},\"grammar_deleted\":{},\"with_cfg_result\":{},\"deleted_result\":{},\"several_cfg_on_nonterminal\":{}}}",
                json_str(verdict),
                json_str(&stage),
                json_str(&featspec(&f)),
                json_str(&cfg_text),
                json_str(&del_text),
                json_str(&a.as_ref().map(|_| "ok".to_string()).unwrap_or_else(|e| e.clone())),
                json_str(&b.as_ref().map(|_| "ok".to_string()).unwrap_or_else(|e| e.clone())),
                multi_on_nt
            ));
        }
    }
}

fn main() {
    let opts = parse_opts();
    std::panic::set_hook(Box::new(|_| {}));
    let mut o = Out { st: Streams::create(&opts.out, "cfg"), h: Hist::default(), distinct: HashSet::new(), nontrivial: HashSet::new() };
    let mut r = Rng::new(opts.seed);
    let mut mism: Vec<String> = vec![];
    let mut runs = 0u64;
    let work = opts.out.join("cfg.work");
    std::fs::create_dir_all(&work).unwrap();
    if let Some(f) = &opts.replay {
        let text = std::fs::read_to_string(f).unwrap();
        tie_remove(&mut o, &text, false);
        tie_remove(&mut o, &text, true);
    } else {
        // environment names (fixed list: the mapping is a function of the variable name only)
        for var in [
            "CARGO_FEATURE_A", "CARGO_FEATURE_X_Y", "CARGO_FEATURE_FOO_BAR_BAZ", "CARGO_FEATURE_A1_B2", "CARGO_FEATURE_", "CARGO_FEATURE_x",
            "CARGO_FEATURE_MiXed_Case", "CARGO_FEATURE__", "CARGO_FEATURE_É", "OTHER_FEATURE_A", "CARGO_FEATUREX", "CARGO_FEATURE_A-B",
            "CARGO_FEATURE_CARGO_FEATURE_A",
        ] {
            tie_env(&mut o, &work, var);
        }
        if let Some(m) = env_lossy_probe(&work) {
            o.h.hit("env:cargo-feature-with-underscore-not-activated");
            mism.push(m);
        }
        // documented example first
        let doc = "grammar;\npub S: () = {\n #[cfg(feature = \"a\")] \"x\" => (),\n #[cfg(not(feature = \"a\"))] \"y\" => (),\n #[cfg(all(feature = \"a\", any(feature = \"b\", not(feature = \"c-d\"))))] #[cfg(feature = \"e_f\")] \"z\" => (),\n};\n#[cfg(feature = \"b\")] N: () = \"n\";\n";
        tie_remove(&mut o, doc, false);
        for i in 0..opts.n {
            match i % 4 {
                0 | 1 => {
                    // several cfg on a nonterminal is rejected by lalrpop ("duplicate attribute"): rare
                    let allow_multi = r.chance(1, 40);
                    let (g, st) = gen_grammar(&mut r, allow_multi);
                    o.h.hit(&format!("gen:max-depth={}", st.max_depth));
                    o.h.hit(&format!("gen:cfg-on nt={} alt={} conv={}", st.nt_cfg.min(3), st.alt_cfg.min(4), st.conv_cfg.min(3)));
                    if st.multi_cfg > 0 {
                        o.h.hit("gen:several-cfg-on-one-item");
                    }
                    if st.prec {
                        o.h.hit("gen:precedence-nonterminal");
                    }
                    if st.dup_defs {
                        o.h.hit("gen:alternative-definitions");
                    }
                    if g.convs.is_some() {
                        o.h.hit("gen:extern-conversions");
                    }
                    tie_remove(&mut o, &g.render_cfg(), false);
                    if i % 4 == 0 {
                        differential(&mut o, &work, &g, &mut mism, &mut runs);
                    }
                }
                2 => {
                    let t = wild_grammar(&mut r);
                    o.h.hit("gen:wild-cfg-shapes");
                    tie_remove(&mut o, &t, true);
                }
                _ => {
                    let a = wild_cfg(&mut r);
                    tie_validcfg(&mut o, &a);
                }
            }
        }
        // fixed: several cfg attributes on one nonterminal (conjunction on a nonterminal)
        let g = GrammarG {
            convs: None,
            nts: vec![
                NtG { cfgs: vec![], head: "pub S: ()".into(), alts: vec![AltG { cfgs: vec![], other_attrs: String::new(), body: "\"t0\" => ()".into() }] },
                NtG {
                    cfgs: vec![P::Feat("a".into()), P::Feat("b".into())],
                    head: "N0: ()".into(),
                    alts: vec![AltG { cfgs: vec![], other_attrs: String::new(), body: "\"k\" => ()".into() }],
                },
            ],
        };
        differential(&mut o, &work, &g, &mut mism, &mut runs);
        // fixed: a semantic error inside a disabled nonterminal (prevalidation runs before cfg removal)
        let g = GrammarG {
            convs: None,
            nts: vec![
                NtG { cfgs: vec![], head: "pub S: ()".into(), alts: vec![AltG { cfgs: vec![], other_attrs: String::new(), body: "\"t0\" => ()".into() }] },
                NtG {
                    cfgs: vec![P::Feat("a".into())],
                    head: "N0: ()".into(),
                    alts: vec![AltG { cfgs: vec![], other_attrs: "#[precedence(level=\"0\")] #[assoc(side=\"left\")] ".into(), body: "\"k\" => ()".into() }],
                },
            ],
        };
        differential(&mut o, &work, &g, &mut mism, &mut runs);
    }
    let _ = std::fs::remove_dir_all(&work);
    let cases = o.st.count;
    o.st.finish();
    std::fs::write(opts.out.join("cfg.diff.json"), format!("[{}]", mism.join(","))).unwrap();
    let stats = format!(
        "{{\"cases\":{},\"distinct\":{},\"distinct_nontrivial\":{},\"differential_runs\":{},\"differential_mismatches\":{},\"hist\":{}}}",
        cases,
        o.distinct.len(),
        o.nontrivial.len(),
        runs,
        mism.len(),
        o.h.json()
    );
    // lalrpop prints its diagnostics to stdout: the stats also go to a file
    std::fs::write(opts.out.join("cfg.stats.json"), &stats).unwrap();
    println!("{stats}");
}
