//! C24 harness.
//!  (1) `rw.req/.impl`: random emission-event sequences through the real `RustWrite` (hook
//!      `rust_write_events`) for the correspondence with the Lean model `lpm_rustlex events`.
//!  (2) corpus + random grammars × the 8 combinations of emit_comments / emit_whitespace / emit_report
//!      through the real `Configuration`: accept/reject must agree, emit_report must not change the
//!      .rs at all, and the token stream (this file's own Rust lexer) must equal the default's.
//!      Every generated body is also written to `<out>/fmt/<k>_<combo>.rs` and listed in `files.tsv`
//!      so that the check can lex it with the Lean lexer as well.
//! Prints one JSON stats line; property failures go to violations.jsonl.
use lalrpop::verif_hooks::tokz::rust_write_events;
use std::fmt::Write as _;
use verif_harness::*;

// ------------------------------------------------------------------------------------------------
// an independent Rust lexer (index based), hashing the token stream
fn is_ws(c: char) -> bool {
    matches!(c, ' ' | '\n' | '\t' | '\r' | '\u{b}' | '\u{c}' | '\u{85}' | '\u{200e}' | '\u{200f}' | '\u{2028}' | '\u{2029}')
}
fn is_word(c: char) -> bool {
    (c.is_ascii_alphanumeric() || c == '_' || (c as u32) >= 128) && !is_ws(c)
}
struct TokHash {
    h: u64,
    n: usize,
}
impl TokHash {
    fn push(&mut self, kind: char, text: &[char]) {
        let mut f = |b: u8| self.h = (self.h ^ b as u64).wrapping_mul(0x100000001b3);
        f(kind as u8);
        let s: String = text.iter().collect();
        for b in s.as_bytes() {
            f(*b);
        }
        f(b'|');
        self.n += 1;
    }
}
fn lex_rust(src: &str) -> (u64, usize) {
    let s: Vec<char> = src.chars().collect();
    let mut t = TokHash { h: 0xcbf29ce484222325, n: 0 };
    let mut i = 0;
    let n = s.len();
    while i < n {
        let c = s[i];
        if is_ws(c) {
            i += 1;
        } else if c == '/' && i + 1 < n && s[i + 1] == '/' {
            // line comment; `///x` and `//!` are doc comments (tokens), `////` is not
            let mut j = i;
            while j < n && s[j] != '\n' {
                j += 1;
            }
            let body = &s[i + 2..j];
            let doc = (body.first() == Some(&'/') && body.get(1) != Some(&'/')) || body.first() == Some(&'!');
            if doc {
                t.push('d', &body[1..]);
            }
            i = j;
        } else if c == '/' && i + 1 < n && s[i + 1] == '*' {
            let doc = i + 2 < n && ((s[i + 2] == '*' && i + 3 < n && s[i + 3] != '*' && s[i + 3] != '/') || s[i + 2] == '!');
            let mut depth = 1;
            let mut j = i + 2;
            while j < n && depth > 0 {
                if s[j] == '/' && j + 1 < n && s[j + 1] == '*' {
                    depth += 1;
                    j += 2;
                } else if s[j] == '*' && j + 1 < n && s[j + 1] == '/' {
                    depth -= 1;
                    j += 2;
                } else {
                    j += 1;
                }
            }
            if depth > 0 {
                t.push('U', &[]);
            } else if doc {
                t.push('d', &s[i + 3..j - 2]);
            }
            i = j;
        } else if is_word(c) {
            let mut j = i;
            while j < n && is_word(s[j]) {
                j += 1;
            }
            let w: String = s[i..j].iter().collect();
            let mut k = j;
            while k < n && s[k] == '#' {
                k += 1;
            }
            if matches!(w.as_str(), "r" | "br" | "cr") && k < n && s[k] == '"' {
                let hashes = k - j;
                let mut e = k + 1;
                loop {
                    if e >= n {
                        t.push('U', &[]);
                        i = n;
                        break;
                    }
                    if s[e] == '"' && e + hashes < n + 0 && e + 1 + hashes <= n && s[e + 1..e + 1 + hashes].iter().all(|&h| h == '#') {
                        t.push('r', &s[k + 1..e + 1 + hashes]);
                        i = e + 1 + hashes;
                        break;
                    }
                    e += 1;
                }
            } else {
                t.push('w', &s[i..j]);
                i = j;
            }
        } else if c == '"' {
            let mut j = i + 1;
            loop {
                if j >= n {
                    t.push('U', &[]);
                    break;
                }
                if s[j] == '\\' {
                    j += 2;
                } else if s[j] == '"' {
                    t.push('s', &s[i + 1..j]);
                    j += 1;
                    break;
                } else {
                    j += 1;
                }
            }
            i = j.min(n);
        } else if c == '\'' {
            if i + 1 < n && s[i + 1] == '\\' {
                let mut j = i + 2;
                let mut esc = true;
                loop {
                    if j >= n {
                        t.push('U', &[]);
                        break;
                    }
                    if esc {
                        esc = false;
                        j += 1;
                    } else if s[j] == '\\' {
                        esc = true;
                        j += 1;
                    } else if s[j] == '\'' {
                        t.push('c', &s[i + 1..j]);
                        j += 1;
                        break;
                    } else {
                        j += 1;
                    }
                }
                i = j.min(n);
            } else if i + 2 < n && s[i + 2] == '\'' {
                t.push('c', &s[i + 1..i + 2]);
                i += 3;
            } else if i + 1 < n && is_word(s[i + 1]) {
                let mut j = i + 1;
                while j < n && is_word(s[j]) {
                    j += 1;
                }
                t.push('l', &s[i + 1..j]);
                i = j;
            } else {
                t.push('p', &[c]);
                i += 1;
            }
        } else {
            t.push('p', &[c]);
            i += 1;
        }
    }
    (t.h, t.n)
}

// ------------------------------------------------------------------------------------------------
// random grammars
const LITS: &[&str] = &[
    "\"a\"", "\"b\"", "\"+\"", "\"*\"", "\"{\"", "\"}\"", "\"(\"", "\")\"", "\"[\"", "\"]\"", "\"//\"", "\"/*\"", "\"*/\"", "\"\\\"\"",
    "\"'\"", "\"\\\\\"", "\",\"", "\";\"", "\"=>\"", "\"#\"", "\"r#\"", "\"<\"", "\">\"", "\"::\"", "\"if\"", "\"é\"", "\"/\"", "\"!\"", "\"//!\"",
    "\"///\"", "\"\\n\"", "\"\\t\"", "\"`\"", "\"$\"",
];
const REGEXES: &[&str] = &["r\"[0-9]+\"", "r\"[a-z_]\\w*\"", "r#\"\"[^\"]*\"\"#", "r\"@[A-Z]{2}\"", "r\"%+\""];
const NAMES: &[&str] = &["S", "Expr", "T", "Item", "List", "A", "B", "Term", "E1", "Factor", "Q"];

fn gen_grammar(r: &mut Rng) -> String {
    let mut lits: Vec<&str> = LITS.to_vec();
    // shuffle
    for i in (1..lits.len()).rev() {
        let j = r.below(i + 1);
        lits.swap(i, j);
    }
    let mut names: Vec<&str> = NAMES.to_vec();
    for i in (1..names.len()).rev() {
        let j = r.below(i + 1);
        names.swap(i, j);
    }
    let t = |k: usize| lits[k].to_string();
    let re = *r.pick(REGEXES);
    let attr = match r.below(6) {
        0 => "#[LALR]\n",
        1 | 2 => "#[recursive_ascent]\n",
        _ => "",
    };
    let (n0, n1, n2) = (names[0], names[1], names[2]);
    let mut g = String::new();
    if r.chance(1, 4) {
        g.push_str("use std::str::FromStr;\n");
    }
    write!(g, "{attr}grammar;\n").unwrap();
    match r.below(7) {
        0 => {
            // sequence / alternatives with nasty literals, comments inside actions
            write!(
                g,
                "pub {n0}: u32 = {{\n    <a:{n1}> {} <b:{n0}> => a + b, // {} \n    <a:{n1}> => a,\n}};\n{n1}: u32 = {{\n    {} => 1,\n    {} <x:{n1}> {} => {{ /* {{ */ x + 1 }},\n    {} => \"}}//\".len() as u32,\n}};\n",
                t(0), "trailing comment", t(1), t(2), t(3), t(4)
            )
            .unwrap();
        }
        1 => {
            // list macro
            write!(
                g,
                "Comma<T>: Vec<T> = {{ <mut v:(<T> {})*> <e:T?> => {{ if let Some(e) = e {{ v.push(e); }} v }} }};\npub {n0}: Vec<&'input str> = {{ {} <Comma<{n1}>> {} }};\n{n1}: &'input str = {{ {re} => <>, {} => <> }};\n",
                t(0), t(1), t(2), t(3)
            )
            .unwrap();
        }
        2 => {
            // precedence climbing by hand
            write!(
                g,
                "pub {n0}: i64 = {{ <l:{n0}> {} <r:{n1}> => l + r, <l:{n0}> {} <r:{n1}> => l - r, {n1} }};\n{n1}: i64 = {{ <l:{n1}> {} <r:{n2}> => l * r, {n2} }};\n{n2}: i64 = {{ {re} => 1, {} <{n0}> {} }};\n",
                t(0), t(1), t(2), t(3), t(4)
            )
            .unwrap();
        }
        3 => {
            // optional / repetition / lookahead locations, multi-line action with a string containing `//` and braces
            write!(
                g,
                "pub {n0}: (usize, usize, usize) = {{\n    <l:@L> <v:{n1}+> <o:{}?> <r:@R> => {{\n        let s = \"// not a comment {{\";\n        (l, v.len() + s.len() + o.map(|_| 1).unwrap_or(0), r)\n    }},\n}};\n{n1}: () = {{ {} => (), {} {} => () }};\n",
                t(0), t(1), t(2), t(3)
            )
            .unwrap();
        }
        5 | 6 => {
            // action code with string literals, raw strings, byte strings and block comments that span several
            // source lines (no `\\` continuation): their content must not depend on the indentation flags
            write!(
                g,
                "pub {n0}: usize = {{\n    <a:{n1}> {} => {{\n        let s = \"line one\n    line two\n\n  {{ line four\";\n        let r = r\"raw\n  raw two \\\";\n        let h = r#\"hash \"\n}}\n  quoted\"#;\n        /* a comment\n           over several lines }} */\n        a + s.len() + r.len() + h.len()\n    }},\n}};\n{n1}: usize = {{\n    {} => b\"bytes\n  more bytes\".len(),\n    {} <x:{n1}> => x + \"\n\".len(),\n}};\n",
                t(0), t(1), t(2)
            )
            .unwrap();
        }
        _ => {
            // two public entry points, error recovery free, fallible action
            write!(
                g,
                "pub {n0}: u8 = {{ <a:{n1}> {} =>? Ok(a), }};\npub {n2}: u8 = {{ {} <a:{n1}> => a, {} => b'}}', }};\n{n1}: u8 = {{ {} => 1, {} <{n1}> => 2 }};\n",
                t(0), t(1), t(2), t(3), t(4)
            )
            .unwrap();
        }
    }
    g
}

fn corpus() -> Vec<(String, String)> {
    let mut out = Vec::new();
    for d in ["/repo/lalrpop-test/src", "/repo/doc/calculator/src", "/repo/doc/lexer/src", "/repo/doc/whitespace/src", "/repo/doc/nobol/src"] {
        if let Ok(rd) = std::fs::read_dir(d) {
            let mut es: Vec<_> = rd.flatten().map(|e| e.path()).collect();
            es.sort();
            for p in es {
                if p.extension().map(|e| e == "lalrpop").unwrap_or(false) {
                    if let Ok(t) = std::fs::read_to_string(&p) {
                        out.push((p.display().to_string(), t));
                    }
                }
            }
        }
    }
    out
}

fn body(s: &str) -> &str {
    // drop the two header lines (`// auto-generated: …`, `// sha3: …`)
    let mut idx = 0;
    for _ in 0..2 {
        match s[idx..].find('\n') {
            Some(k) => idx += k + 1,
            None => return "",
        }
    }
    &s[idx..]
}

fn hash(s: &str) -> u64 {
    let mut x: u64 = 0xcbf29ce484222325;
    for b in s.as_bytes() {
        x = (x ^ *b as u64).wrapping_mul(0x100000001b3);
    }
    x
}

// ------------------------------------------------------------------------------------------------
// random emission events
const LINE_POOL: &[&str] = &[
    "fn f() {", "}", "match x {", "0 => {", "},", "let v = [", "];", "g(", ");", "", "x += 1;", "&[", "})", "]) {", "// State 3",
    "let s = \"// {\";", "'{' => 1,", "r#\"}\"#;", "pub(crate) mod m {", "é(", ")", "{", "(", "[", "]", "} else {", "a[(", ")];",
    // multi-line buffers (user action code is written by one rust! call): newlines inside string literals,
    // raw strings, byte strings and block comments; the indentation must be written once, before the buffer
    "let s = \"first\n    second\n\n third\";", "x(r\"a\n  b\") {", "let b = b\"l1\nl2\";\nlet c = 1;", "let r = r#\"q\"\n}\n{\"#;",
    "/* block\n   comment\n*/ y();", "f(\n    1,\n    2,\n);", "{\n    let t = \"\n\";\n    t\n}", "\"\n\"",
];
const COMMENT_POOL: &[&str] = &["// State 0", "//", "//     E = E (*) \"+\" T [\"a\"]", "    // on \"(\", goto 3", "// simulate E = E, \"{\" => ActionFn(1);", "// x {", "// y ("];

fn gen_events(r: &mut Rng) -> String {
    let n = 1 + r.below(10);
    let mut s = String::new();
    let mut depth = 0i32; // keep most sequences free of underflow: closers mostly when something is open
    for _ in 0..n {
        match r.below(6) {
            0 | 1 | 2 => {
                let mut l = *r.pick(LINE_POOL);
                let closes = l.starts_with(['}', ']', ')']);
                if closes && depth == 0 && !r.chance(1, 10) {
                    l = "x();";
                }
                if l.starts_with(['}', ']', ')']) {
                    depth -= 1;
                }
                if l.ends_with(['{', '[', '(']) {
                    depth += 1;
                }
                writeln!(s, "L {}", enc_str(l)).unwrap()
            }
            3 => writeln!(s, "C {}", enc_str(*r.pick(COMMENT_POOL))).unwrap(),
            _ => {
                let k = r.below(5);
                if k == 0 {
                    s.push_str("R -\n");
                } else {
                    let es: Vec<String> = (0..k)
                        .map(|_| {
                            let i = match r.below(4) {
                                0 => 0,
                                1 => -(r.below(300) as i64),
                                2 => r.below(70000) as i64,
                                _ => r.below(12) as i64,
                            };
                            format!("{i}:{}", enc_str(*r.pick(&[" // on \"a\", goto 4", " // on Eof, error", " // on r#\"[a-z]+\"#, reduce `E = T => ActionFn(2);`"])))
                        })
                        .collect();
                    writeln!(s, "R {}", es.join(",")).unwrap();
                }
            }
        }
    }
    s
}

struct Viol {
    fingerprint: String,
    what: String,
    fields: Vec<(String, String)>,
}

fn main() {
    let o = parse_opts();
    let mut n_random = 20usize;
    let mut n_corpus = 12usize;
    let mut it = o.extra.iter();
    while let Some(a) = it.next() {
        match a.as_str() {
            "--random" => n_random = it.next().unwrap().parse().unwrap(),
            "--corpus" => n_corpus = it.next().unwrap().parse().unwrap(),
            _ => {}
        }
    }
    let mut r = Rng::new(o.seed);
    let mut h = Hist::default();
    let mut viols: Vec<Viol> = Vec::new();

    // (1) RustWrite events (underflow panics of the writer are an expected outcome here: keep them quiet)
    let prev_hook = std::panic::take_hook();
    std::panic::set_hook(Box::new(|_| {}));
    let mut st = Streams::create(&o.out, "rw");
    for _ in 0..o.n {
        let evs = gen_events(&mut r);
        let c = r.chance(1, 2);
        let w = r.chance(1, 2);
        let out = rust_write_events(c, w, &evs);
        h.hit(if out == "panic" { "events:panic" } else { "events:ok" });
        st.case(&format!("events {} {} {}", c as u8, w as u8, enc_str(&evs)), &out);
    }
    let rw_cases = st.count;
    st.finish();
    std::panic::set_hook(prev_hook);

    // (2) grammars × 8 flag combinations
    let gdir = o.out.join("gen");
    let fdir = o.out.join("fmt");
    std::fs::create_dir_all(&fdir).unwrap();
    let mut files_tsv = String::new();
    let mut grammars: Vec<(String, String)> = Vec::new();
    let all = corpus();
    let mut picked = std::collections::BTreeSet::new();
    let mut tries = 0;
    while picked.len() < n_corpus.min(all.len()) && tries < 1000 {
        tries += 1;
        let i = r.below(all.len());
        if all[i].1.len() < 6000 {
            picked.insert(i);
        }
    }
    for i in picked {
        grammars.push((format!("corpus:{}", all[i].0), all[i].1.clone()));
    }
    for k in 0..n_random {
        grammars.push((format!("random:{k}"), gen_grammar(&mut r)));
    }
    let mut accepted = 0usize;
    let mut rejected = 0usize;
    let mut distinct = std::collections::BTreeSet::new();
    let mut runs = 0usize;
    let mut sample = String::new();
    for (k, (name, text)) in grammars.iter().enumerate() {
        let mut results: Vec<(String, Result<String, String>)> = Vec::new();
        for combo in 0..8u8 {
            let (c, w, rep) = (combo & 1 != 0, combo & 2 == 0, combo & 4 != 0);
            let res = generate_parser(&gdir, "g", text, |cfg| {
                cfg.emit_comments(c).emit_whitespace(w).emit_report(rep);
            });
            runs += 1;
            results.push((format!("c{}w{}r{}", c as u8, w as u8, rep as u8), res));
        }
        // baseline: comments off, white space on, report off = combo 0
        let base = &results[0].1;
        match base {
            Ok(b) => {
                accepted += 1;
                h.hit(if name.starts_with("corpus") { "grammar:corpus-accepted" } else { "grammar:random-accepted" });
                if sample.is_empty() && name.starts_with("random") {
                    sample = text.clone();
                }
                let (bh, bn) = lex_rust(body(b));
                distinct.insert(bh);
                for (label, res) in &results {
                    match res {
                        Ok(t) => {
                            let p = fdir.join(format!("{k}_{label}.rs"));
                            std::fs::write(&p, body(t)).unwrap();
                            writeln!(files_tsv, "{k}\t{label}\t{}\t{}", p.display(), name).unwrap();
                            let (hh, nn) = lex_rust(body(t));
                            if (hh, nn) != (bh, bn) {
                                viols.push(Viol {
                                    fingerprint: format!("flags-tokens:{:016x}", hash(text)),
                                    what: format!("the Rust token stream of the generated parser changes with the flags ({label} vs the default)"),
                                    fields: vec![("grammar_name".into(), name.clone()), ("grammar".into(), text.clone()), ("flags".into(), label.clone()),
                                                 ("tokens_default".into(), bn.to_string()), ("tokens_flags".into(), nn.to_string())],
                                });
                            }
                        }
                        Err(e) => viols.push(Viol {
                            fingerprint: format!("flags-accept:{:016x}", hash(text)),
                            what: format!("grammar accepted by default but not with flags {label}"),
                            fields: vec![("grammar_name".into(), name.clone()), ("grammar".into(), text.clone()), ("flags".into(), label.clone()), ("error".into(), e.clone())],
                        }),
                    }
                }
                // emit_report must not change the file at all
                for combo in 0..4usize {
                    if let (Ok(a), Ok(b2)) = (&results[combo].1, &results[combo + 4].1) {
                        if body(a) != body(b2) {
                            viols.push(Viol {
                                fingerprint: format!("report-changes-rs:{:016x}", hash(text)),
                                what: "emit_report changes the generated .rs".into(),
                                fields: vec![("grammar_name".into(), name.clone()), ("grammar".into(), text.clone()), ("flags".into(), results[combo].0.clone())],
                            });
                        }
                    }
                }
            }
            Err(e) => {
                rejected += 1;
                h.hit(if name.starts_with("corpus") { "grammar:corpus-rejected" } else { "grammar:random-rejected" });
                for (label, res) in &results {
                    if res.is_ok() {
                        viols.push(Viol {
                            fingerprint: format!("flags-accept:{:016x}", hash(text)),
                            what: format!("grammar rejected by default ({e}) but accepted with flags {label}"),
                            fields: vec![("grammar_name".into(), name.clone()), ("grammar".into(), text.clone()), ("flags".into(), label.clone())],
                        });
                    }
                }
            }
        }
    }
    std::fs::write(o.out.join("files.tsv"), files_tsv).unwrap();
    let mut vf = String::new();
    for v in &viols {
        let mut f = format!("{{\"fingerprint\":{},\"what\":{}", json_str(&v.fingerprint), json_str(&v.what));
        for (k, val) in &v.fields {
            write!(f, ",{}:{}", json_str(k), json_str(val)).unwrap();
        }
        f.push_str("}\n");
        vf.push_str(&f);
    }
    std::fs::write(o.out.join("violations.jsonl"), vf).unwrap();
    println!(
        "{{\"rw_cases\":{rw_cases},\"grammars\":{},\"accepted\":{accepted},\"rejected\":{rejected},\"configuration_runs\":{runs},\"distinct_token_streams\":{},\"violations\":{},\"sample_grammar\":{},\"hist\":{}}}",
        grammars.len(),
        distinct.len(),
        viols.len(),
        json_str(&sample),
        h.json()
    );
}
