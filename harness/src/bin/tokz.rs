//! C26 harness: the real `lalrpop::tok::Tokenizer` (through the `tokenize` hook) on
//!   * every corpus grammar, mutated windows of corpus grammars, random strings      (correspondence),
//!   * rendered grammar token trees ("docs") with random layout                       (correspondence + property),
//!   * `=> code` tokens whose code is a generated well-formed Rust snippet            (correspondence + property),
//!   * the character classes over all code points                                     (correspondence),
//!   * whole corpus grammars with perturbed layout through the real `Configuration`   (property).
//! Writes tok.req / tok.impl (for `lpm_tok`), violations.jsonl (property failures on the real code,
//! each with a `fingerprint`), prints one JSON stats line.
use lalrpop::verif_hooks::tokz::{char_classes, tokenize};
use std::fmt::Write as _;
use verif_harness::*;

// ------------------------------------------------------------------------------------------------
// source facts passed by the check (extracted from tok/mod.rs)
#[derive(Clone, Copy)]
struct Cfg {
    raw_legacy: bool,
    shebang_double_bump: bool,
}

// ------------------------------------------------------------------------------------------------
// layout
const WS: &[char] = &[' ', ' ', ' ', '\n', '\n', '\t', '\r', '\u{b}', '\u{c}', '\u{85}', '\u{a0}', '\u{2003}', '\u{2028}', '\u{3000}'];
const TEXTY: &[char] = &[
    'a', 'b', 'r', 'x', 'E', '0', '9', '_', ' ', ' ', '"', '\'', '\\', '#', '<', '>', '=', ',', ';', '(', ')', '[', ']',
    '{', '}', '!', '?', '@', '`', '~', '-', '+', ':', '.', '&', 'é', 'λ', '😀', '\t', '$', '|',
];

/// rustc's block comment scan: text after the opening `/*`; returns the offset just after the matching `*/`
fn rustc_block_comment_end(s: &[char]) -> Option<usize> {
    let mut depth = 1usize;
    let mut i = 0;
    while i < s.len() {
        if s[i] == '/' && i + 1 < s.len() && s[i + 1] == '*' {
            depth += 1;
            i += 2;
        } else if s[i] == '*' && i + 1 < s.len() && s[i + 1] == '/' {
            depth -= 1;
            i += 2;
            if depth == 0 {
                return Some(i);
            }
        } else {
            i += 1;
        }
    }
    None
}

fn gen_comment_body(r: &mut Rng, depth: usize) -> String {
    loop {
        let mut b = String::new();
        let n = r.below(6);
        for _ in 0..n {
            match r.below(10) {
                0 if depth < 3 => {
                    b.push_str("/*");
                    b.push_str(&gen_comment_body(r, depth + 1));
                    b.push_str("*/");
                }
                1 => b.push('*'),
                2 => b.push('/'),
                3 => b.push('\n'),
                _ => b.push(*r.pick(TEXTY)),
            }
        }
        // keep only bodies that rustc reads as exactly one comment `/*` body `*/`
        let cs: Vec<char> = format!("{b}*/").chars().collect();
        if rustc_block_comment_end(&cs) == Some(cs.len()) {
            return b;
        }
    }
}

fn gen_layout_piece(r: &mut Rng) -> String {
    match r.below(8) {
        0 => {
            let n = r.below(5);
            let mut s = String::from("//");
            for _ in 0..n {
                let c = *r.pick(TEXTY);
                s.push(c);
            }
            s.push('\n');
            s
        }
        1 => format!("/*{}*/", gen_comment_body(r, 0)),
        _ => r.pick(WS).to_string(),
    }
}

fn gen_layout(r: &mut Rng, allow_empty: bool) -> String {
    let n = if allow_empty { r.below(3) } else { 1 + r.below(2) };
    (0..n).map(|_| gen_layout_piece(r)).collect()
}

// ------------------------------------------------------------------------------------------------
// Rust snippets for action code (mirrors the inductive type `RT` of Props/C26.lean)
fn gen_str_body(r: &mut Rng, quote: char) -> String {
    let n = r.below(5);
    let mut s = String::new();
    for _ in 0..n {
        if r.chance(1, 4) {
            s.push('\\');
            s.push(*r.pick(&['n', '\\', '"', '\'', 'x', 'u', '{', ')', '0']));
        } else {
            let c = *r.pick(TEXTY);
            if c != quote && c != '\\' {
                s.push(c);
            }
        }
    }
    s
}

/// body of `r#…#"body"#…#` with `n` hashes; `scan_hashes` = the number the scanner will look for
fn gen_raw_body(r: &mut Rng, n: usize, cfg: Cfg, hostile: bool) -> String {
    loop {
        let k = r.below(6);
        let mut s = String::new();
        for _ in 0..k {
            match r.below(8) {
                0 => s.push('"'),
                1 => s.push('#'),
                2 => s.push('\\'),
                _ => s.push(*r.pick(TEXTY)),
            }
        }
        // Rust: the literal ends at the first `"` followed by n hashes
        let closing = format!("\"{}", "#".repeat(n));
        let full = format!("{s}{closing}");
        if full.find(&closing) != Some(s.len()) {
            continue;
        }
        if !hostile {
            // additionally stay inside the hypothesis of the theorem for the source as it is
            if cfg.raw_legacy {
                if n == 0 {
                    // scanned as an ordinary string: no backslash
                    if s.contains('\\') {
                        continue;
                    }
                } else {
                    // scanned with n-1 hashes
                    let c2 = format!("\"{}", "#".repeat(n - 1));
                    if full.find(&c2) != Some(s.len()) {
                        continue;
                    }
                }
            }
        }
        return s;
    }
}

const CODE_CH: &[char] = &[
    ' ', ' ', ' ', '\n', '+', '-', '*', '=', '<', '>', '!', '&', '|', '.', ':', '#', '@', '?', '$', '%', '^', '~',
];
const CODE_WORDS: &[&str] = &["a", "b", "x", "v", "S", "0", "1", "_", "é", "λ", "for", "bar", "rr", "Vec", "u8", "str", "r2", "__0"];

#[derive(Clone, Copy, PartialEq, Eq)]
enum SK {
    Ch,
    Word,
    LoneR,
    Slash,
    Tick,
    Raw,
    Lit,
    Comment,
}

fn gen_snippet_items(r: &mut Rng, depth: usize, top: bool, cfg: Cfg, hostile: bool, out: &mut Vec<(SK, String)>) {
    let n = r.below(if depth == 0 { 7 } else { 4 });
    for _ in 0..n {
        match r.below(17) {
            0 => out.push((SK::Lit, format!("\"{}\"", gen_str_body(r, '"')))),
            1 => {
                let n = r.below(3);
                let body = gen_raw_body(r, n, cfg, hostile);
                out.push((SK::Raw, format!("r{h}\"{body}\"{h}", h = "#".repeat(n))));
            }
            2 => {
                if r.chance(1, 2) {
                    let c = *r.pick(&['a', '(', '{', '"', ',', ';', ']', 'é', '}', '/', 'r']);
                    out.push((SK::Lit, format!("'{c}'")));
                } else {
                    let e = *r.pick(&["n", "'", "\\", "\"", "x41", "u{1F600}", "0"]);
                    out.push((SK::Lit, format!("'\\{e}'")));
                }
            }
            3 => {
                let nm = *r.pick(&["a", "input", "static", "r", "_", "b2"]);
                out.push((SK::Tick, format!("'{nm}")));
            }
            4 => {
                let mut s = String::from("//");
                for _ in 0..r.below(4) {
                    s.push(*r.pick(TEXTY));
                }
                s.push('\n');
                out.push((SK::Comment, s));
            }
            5 => out.push((SK::Comment, format!("/*{}*/", gen_comment_body(r, 0)))),
            6 => out.push((SK::Slash, "/".into())),
            7 => out.push((SK::LoneR, "r".into())),
            8 | 9 if depth < 3 => {
                let (o, c) = *r.pick(&[('(', ')'), ('[', ']'), ('{', '}')]);
                out.push((SK::Ch, o.to_string()));
                gen_snippet_items(r, depth + 1, false, cfg, hostile, out);
                out.push((SK::Ch, c.to_string()));
            }
            10 if !top => out.push((SK::Ch, r.pick(&[',', ';']).to_string())),
            11 => out.push((SK::Raw, r.pick(&["b\"x\\\"\"", "b'x'", "br#\"q\"#", "r#type", "c\"z\""]).to_string())),
            12 | 13 => out.push((SK::Word, r.pick(CODE_WORDS).to_string())),
            _ => out.push((SK::Ch, r.pick(CODE_CH).to_string())),
        }
    }
}

/// concatenate the atoms, inserting a blank where two atoms would fuse into a different Rust token
/// (`/` before `/` or `*`; a lifetime before `'`; an identifier character before a quote, `#` or
/// another identifier; a lone `r` before `"`/`#`)
fn gen_snippet(r: &mut Rng, cfg: Cfg, hostile: bool) -> String {
    let mut atoms: Vec<(SK, String)> = Vec::new();
    gen_snippet_items(r, 0, true, cfg, hostile, &mut atoms);
    let mut out = String::new();
    let mut prev: Option<SK> = None;
    for (k, t) in atoms {
        let first = t.chars().next().unwrap();
        let last_ident = out.chars().last().map(is_xid_continue).unwrap_or(false);
        let need = match prev {
            Some(SK::Slash) => first == '/' || first == '*',
            Some(SK::Tick) => first == '\'' || is_xid_continue(first),
            _ => false,
        } || (last_ident && (first == '"' || first == '\'' || first == '#' || is_xid_continue(first)));
        if need {
            out.push(' ');
        }
        out.push_str(&t);
        prev = Some(k);
    }
    out
}

// An independent scanner for the end of a code block, written against the Rust reference
// (string/char/raw-string/comment boundaries as rustc lexes them), used to decide whether a
// generated snippet is well formed and where its top-level terminator is.
fn is_xid_continue(c: char) -> bool {
    c.is_alphanumeric() || c == '_'
}
fn rust_code_end(s: &[char]) -> Option<usize> {
    let mut i = 0;
    let mut bal = 0i64;
    let mut prev_ident = false; // previous char was part of an identifier
    while i < s.len() {
        let c = s[i];
        let was_ident = prev_ident;
        prev_ident = is_xid_continue(c);
        match c {
            '"' => {
                i += 1;
                loop {
                    if i >= s.len() {
                        return None;
                    }
                    if s[i] == '\\' {
                        i += 2;
                    } else if s[i] == '"' {
                        i += 1;
                        break;
                    } else {
                        i += 1;
                    }
                }
                prev_ident = false;
            }
            'r' if !was_ident || (i > 0 && s[i - 1] == 'b' && !(i > 1 && is_xid_continue(s[i - 2]))) => {
                // raw string r"…", r#"…"#, or raw identifier r#name, or plain identifier
                let mut j = i + 1;
                let mut n = 0;
                while j < s.len() && s[j] == '#' {
                    n += 1;
                    j += 1;
                }
                if j < s.len() && s[j] == '"' {
                    j += 1;
                    loop {
                        if j >= s.len() {
                            return None;
                        }
                        if s[j] == '"' && j + 1 + n <= s.len() && s[j + 1..j + 1 + n].iter().all(|&h| h == '#') {
                            j += 1 + n;
                            break;
                        }
                        j += 1;
                    }
                    i = j;
                    prev_ident = false;
                } else {
                    i += 1;
                }
            }
            '\'' => {
                // char literal or lifetime
                if i + 1 >= s.len() {
                    return None;
                }
                if s[i + 1] == '\\' {
                    let mut j = i + 3;
                    while j < s.len() && s[j] != '\'' {
                        j += 1;
                    }
                    if j >= s.len() {
                        return None;
                    }
                    i = j + 1;
                } else if i + 2 < s.len() && s[i + 2] == '\'' {
                    i += 3;
                } else {
                    i += 2; // lifetime: skip the quote and the first character
                }
                prev_ident = false;
            }
            '/' if i + 1 < s.len() && s[i + 1] == '/' => {
                while i < s.len() && s[i] != '\n' {
                    i += 1;
                }
            }
            '/' if i + 1 < s.len() && s[i + 1] == '*' => match rustc_block_comment_end(&s[i + 2..]) {
                Some(k) => i += 2 + k,
                None => return None,
            },
            '(' | '[' | '{' => {
                bal += 1;
                i += 1;
            }
            ')' | ']' | '}' => {
                if bal == 0 {
                    return Some(i);
                }
                bal -= 1;
                i += 1;
            }
            ',' | ';' if bal == 0 => return Some(i),
            _ => i += 1,
        }
    }
    if bal == 0 { Some(s.len()) } else { None }
}

// ------------------------------------------------------------------------------------------------
// grammar token trees ("docs"): atoms with their text and the tokens the specification assigns
#[derive(Clone)]
struct Atom {
    text: String,
    toks: Vec<String>,      // `Kind` or `Kind:x<hex>`
    /// what may follow directly: 0 = anything, otherwise a class checked by `follow_ok`
    class: u8,
}

const PUNCTS: &[(&str, &str)] = &[
    ("&", "Ampersand"), ("!=", "BangEquals"), ("!~", "BangTilde"), (":", "Colon"), ("::", "ColonColon"), (",", "Comma"),
    ("..", "DotDot"), ("=", "Equals"), ("==", "EqualsEquals"), ("#", "Hash"), (">", "GreaterThan"), ("{", "LeftBrace"),
    ("[", "LeftBracket"), ("(", "LeftParen"), ("<", "LessThan"), ("@L", "Lookahead"), ("@R", "Lookbehind"),
    ("->", "MinusGreaterThan"), ("+", "Plus"), ("?", "Question"), ("}", "RightBrace"), ("]", "RightBracket"),
    (")", "RightParen"), (";", "Semi"), ("*", "Star"), ("~~", "TildeTilde"), ("!", "Bang"),
    ("=>@L", "EqualsGreaterThanLookahead"), ("=>@R", "EqualsGreaterThanLookbehind"),
];
const KEYWORDS: &[(&str, &str)] = &[
    ("enum", "Enum"), ("extern", "Extern"), ("grammar", "Grammar"), ("match", "Match"), ("else", "Else"), ("if", "If"),
    ("mut", "Mut"), ("pub", "Pub"), ("in", "In"), ("type", "Type"), ("where", "Where"), ("for", "For"), ("dyn", "Dyn"),
];
const WORDS: &[&str] = &[
    "E", "Expr", "Comma", "T", "r", "rr", "r2", "ra", "user", "used", "us", "_a", "__", "a_", "é", "λx", "Ünï", "x1", "input",
    "grammars", "i", "iff", "uses", "R", "L", "self", "error", "String", "u8", "a", "b",
];

fn tok_payload(kind: &str, s: &str) -> String {
    format!("{kind}:{}", enc_str(s))
}

fn gen_atom(r: &mut Rng, cfg: Cfg) -> Atom {
    match r.below(20) {
        0..=5 => {
            let (t, k) = *r.pick(PUNCTS);
            Atom { text: t.into(), toks: vec![k.into()], class: 1 }
        }
        6 => {
            let (t, k) = *r.pick(KEYWORDS);
            Atom { text: t.into(), toks: vec![k.into()], class: 2 }
        }
        7..=9 => {
            let w = *r.pick(WORDS);
            Atom { text: w.into(), toks: vec![tok_payload("Id", w)], class: 2 }
        }
        10 => {
            let w = *r.pick(WORDS);
            Atom { text: format!("{w}<"), toks: vec![tok_payload("MacroId", w), "LessThan".into()], class: 0 }
        }
        11 => Atom { text: "_".into(), toks: vec!["Underscore".into()], class: 2 },
        12 => {
            let b = gen_str_body(r, '"');
            Atom { text: format!("\"{b}\""), toks: vec![tok_payload("StringLiteral", &b)], class: 0 }
        }
        13 => {
            if r.chance(1, 2) {
                let w = *r.pick(&["a", "ab", "_", "é", "r"]);
                Atom { text: format!("'{w}'"), toks: vec![tok_payload("CharLiteral", w)], class: 0 }
            } else {
                let mut b = gen_str_body(r, '\'');
                // the first character decides between the two scanning paths; keep it a non identifier start
                let first_ok = b.chars().next().map(|c| !(c.is_alphabetic() || c == '_')).unwrap_or(true);
                if !first_ok {
                    b.insert(0, '+');
                }
                Atom { text: format!("'{b}'"), toks: vec![tok_payload("CharLiteral", &b)], class: 0 }
            }
        }
        14 => {
            let w = *r.pick(&["a", "input", "static", "_", "é1", "r"]);
            Atom { text: format!("'{w}"), toks: vec![tok_payload("Lifetime", &format!("'{w}"))], class: 3 }
        }
        15 => {
            let n = r.below(3);
            // top-level regex literals are always scanned with the right number of hashes
            let b = gen_raw_body(r, n, Cfg { raw_legacy: false, ..cfg }, false);
            Atom {
                text: format!("r{h}\"{b}\"{h}", h = "#".repeat(n)),
                toks: vec![tok_payload("RegexLiteral", &b)],
                class: 0,
            }
        }
        16 => {
            let mut b = String::new();
            for _ in 0..r.below(4) {
                let c = *r.pick(TEXTY);
                if c != '`' {
                    b.push(c);
                }
            }
            Atom { text: format!("`{b}`"), toks: vec![tok_payload("Escape", &b)], class: 0 }
        }
        17 | 18 => {
            // => code / =>? code, always followed by a terminator atom with no layout in between (class 9)
            let q = r.chance(1, 3);
            let mut body = gen_snippet(r, cfg, false);
            let cs: Vec<char> = body.chars().collect();
            let end = rust_code_end(&cs);
            if end != Some(cs.len()) || (!q && (body.starts_with('@') || body.starts_with('?'))) {
                body = " x ".into();
            }
            let kind = if q { "EqualsGreaterThanQuestionCode" } else { "EqualsGreaterThanCode" };
            Atom { text: format!("=>{}{body}", if q { "?" } else { "" }), toks: vec![tok_payload(kind, &body)], class: 9 }
        }
        _ => {
            // #![ ... ]
            let mut b = String::new();
            for _ in 0..r.below(4) {
                match r.below(6) {
                    0 => {
                        b.push('[');
                        b.push_str(*r.pick(&["", "x", "1, 2"]));
                        b.push(']');
                    }
                    1 => {
                        b.push('"');
                        b.push_str(&gen_str_body(r, '"').replace('\n', " "));
                        b.push('"');
                    }
                    _ => {
                        let c = *r.pick(TEXTY);
                        if !matches!(c, '[' | ']' | '"' | '\n') {
                            b.push(c);
                        }
                    }
                }
            }
            let t = format!("#![{b}]");
            Atom { toks: vec![tok_payload("ShebangAttribute", &t)], text: t, class: if cfg.shebang_double_bump { 4 } else { 0 } }
        }
    }
}

/// may `next` (first character of what follows the atom; None = end of input) directly follow the atom?
fn follow_ok(a: &Atom, next: Option<char>) -> bool {
    let idc = |c: char| c == '_' || unicode_continue(c);
    match a.class {
        0 => true,
        1 => match (a.text.as_str(), next) {
            ("!", Some('=' | '~')) => false,
            (":", Some(':')) => false,
            ("=", Some('=' | '>')) => false,
            ("#", Some('!')) => false,
            _ => true,
        },
        2 => match next {
            None => true,
            Some(c) => !idc(c) && c != '<' && !(a.text == "r" && (c == '"' || c == '#')),
        },
        3 => match next {
            None => true,
            Some(c) => !idc(c) && c != '\'',
        },
        4 => match next {
            None => true,
            Some(c) => c.is_whitespace(),
        },
        _ => false,
    }
}

fn unicode_continue(c: char) -> bool {
    // only used on characters the generators emit
    c.is_alphanumeric()
}

const TERMINATORS: &[(&str, &str)] = &[(",", "Comma"), (";", "Semi"), (")", "RightParen"), ("]", "RightBracket"), ("}", "RightBrace")];

struct Doc {
    atoms: Vec<Atom>,
}

fn gen_doc(r: &mut Rng, cfg: Cfg) -> Doc {
    let n = 1 + r.below(8);
    let mut atoms = Vec::new();
    for _ in 0..n {
        let a = gen_atom(r, cfg);
        let is_code = a.class == 9;
        atoms.push(a);
        if is_code {
            let (t, k) = *r.pick(TERMINATORS);
            atoms.push(Atom { text: t.into(), toks: vec![k.into()], class: 1 });
        }
    }
    Doc { atoms }
}

/// render with random layout that respects the hypotheses (`valid`) or arbitrary layout
fn render_doc(r: &mut Rng, d: &Doc, valid: bool) -> String {
    let mut out = gen_layout(r, true);
    for (i, a) in d.atoms.iter().enumerate() {
        out.push_str(&a.text);
        if a.class == 9 && valid {
            continue; // the terminator follows directly
        }
        let mut ly = gen_layout(r, true);
        if valid {
            let next_text = d.atoms.get(i + 1).map(|b| b.text.as_str()).unwrap_or("");
            let following: String = format!("{ly}{next_text}");
            if !follow_ok(a, following.chars().next()) {
                ly = format!("{}{ly}", r.pick(&[' ', '\n', '\t']));
            }
        }
        out.push_str(&ly);
    }
    out
}

fn strip_spans(line: &str) -> Vec<String> {
    line.split(' ')
        .filter(|s| !s.is_empty())
        .map(|it| {
            if it.starts_with("E:") || it == "P" {
                format!("!{it}")
            } else {
                let mut p = it.splitn(3, ':');
                p.next();
                p.next();
                p.next().unwrap_or("").to_string()
            }
        })
        .collect()
}

// ------------------------------------------------------------------------------------------------
fn corpus() -> Vec<(String, String)> {
    let mut files = Vec::new();
    fn walk(dir: &std::path::Path, out: &mut Vec<std::path::PathBuf>) {
        if let Ok(rd) = std::fs::read_dir(dir) {
            let mut es: Vec<_> = rd.flatten().map(|e| e.path()).collect();
            es.sort();
            for p in es {
                if p.is_dir() {
                    if p.file_name().map(|n| n == "target" || n == ".git").unwrap_or(false) {
                        continue;
                    }
                    walk(&p, out);
                } else if p.extension().map(|e| e == "lalrpop").unwrap_or(false) {
                    out.push(p);
                }
            }
        }
    }
    let mut paths = Vec::new();
    for d in ["/repo/lalrpop-test/src", "/repo/doc", "/repo/lalrpop/src/parser", "/repo/lalrpop-test/benches"] {
        walk(std::path::Path::new(d), &mut paths);
    }
    for p in paths {
        if let Ok(t) = std::fs::read_to_string(&p) {
            files.push((p.display().to_string(), t));
        }
    }
    files
}

const SPLICE: &[&str] = &[
    "r\"\\\"", "r#\"a\"b\"#", "r##\"x\"#y\"##", "'", "\"", "/*", "*/", "//", "#![", "]", "=>", "=>?", "=>@L", "=>@", "use ", "r#", "r#_",
    "'a", "'\\''", "`", "<", " <", "\\", "\n", "/* /* */", "r\"", "b'{'", "'{'", "\"}\"", "_", "..", ".", "-", "->", "~", "@", "é",
    "\u{2028}", "r#type", "<'a>", "&'a ", "';'", "','", "br\"\\\"", "#!", "#", "!", "!=", "::", ":", "==", "=",
];

fn mutate(r: &mut Rng, s: &str) -> String {
    let mut cs: Vec<char> = s.chars().collect();
    let k = r.below(4);
    for _ in 0..k {
        if cs.is_empty() {
            break;
        }
        let i = r.below(cs.len() + 1);
        match r.below(5) {
            0 if i < cs.len() => {
                cs.remove(i);
            }
            1 if i < cs.len() => {
                let j = (i + 1 + r.below(12)).min(cs.len());
                cs.drain(i..j);
            }
            2 if i < cs.len() => cs[i] = *r.pick(TEXTY),
            3 => {
                let ins: Vec<char> = r.pick(SPLICE).chars().collect();
                for (k2, c) in ins.into_iter().enumerate() {
                    cs.insert((i + k2).min(cs.len()), c);
                }
            }
            _ => {
                let ins: Vec<char> = gen_layout(r, false).chars().collect();
                for (k2, c) in ins.into_iter().enumerate() {
                    cs.insert((i + k2).min(cs.len()), c);
                }
            }
        }
    }
    cs.into_iter().collect()
}

// ------------------------------------------------------------------------------------------------
// typed Rust expressions for compiled grammars: a token list (layout may go between any two tokens)
// and the value the expression must evaluate to (computed here, independently of rustc)
fn lit_content(r: &mut Rng, raw: bool, hashes: usize) -> (String, usize) {
    // returns (source text between the quotes, byte length of the string value)
    let mut src = String::new();
    let mut len = 0usize;
    for _ in 0..r.below(6) {
        if raw {
            let c = *r.pick(&['a', '{', '}', '(', ')', '[', ']', '\\', '/', '*', '\'', ' ', ',', ';', 'é', '#', '"']);
            if c == '"' && hashes == 0 {
                continue;
            }
            src.push(c);
            len += c.len_utf8();
        } else {
            match r.below(8) {
                0 => { src.push_str("\\\""); len += 1; }
                1 => { src.push_str("\\\\"); len += 1; }
                2 => { src.push_str("\\n"); len += 1; }
                3 => { src.push_str("\\'"); len += 1; }
                4 => { src.push_str("\\u{e9}"); len += 2; }
                _ => {
                    let c = *r.pick(&['a', '{', '}', '(', ')', '[', ']', '/', '*', '\'', ' ', ',', ';', 'é', '#', 'r']);
                    src.push(c);
                    len += c.len_utf8();
                }
            }
        }
    }
    if raw {
        // Rust: must not contain `"` followed by `hashes` hashes; must not end so that the closing quote is ambiguous
        let closing = format!("\"{}", "#".repeat(hashes));
        if src.contains(&closing) || (hashes > 0 && src.ends_with('"')) {
            return ("x".into(), 1);
        }
    }
    (src, len)
}

fn gen_expr(r: &mut Rng, depth: usize, allow_hostile_raw: bool, out: &mut Vec<String>) -> u64 {
    let p = |out: &mut Vec<String>, ts: &[&str]| out.extend(ts.iter().map(|s| s.to_string()));
    let choice = if depth >= 3 { r.below(5) } else { r.below(11) };
    match choice {
        0 => {
            let n = r.below(1000) as u64;
            out.push(format!("{n}u64"));
            n
        }
        1 => {
            let (src, len) = lit_content(r, false, 0);
            out.push(format!("\"{src}\""));
            p(out, &[".", "len", "(", ")", "as", "u64"]);
            len as u64
        }
        2 => {
            let h = r.below(3);
            let (mut src, mut len) = lit_content(r, true, h);
            if !allow_hostile_raw && (src.contains('\\') || src.contains('"')) {
                src = "q".into();
                len = 1;
            }
            out.push(format!("r{hh}\"{src}\"{hh}", hh = "#".repeat(h)));
            p(out, &[".", "len", "(", ")", "as", "u64"]);
            len as u64
        }
        3 => {
            let n = r.below(5);
            let body: String = (0..n).map(|_| *r.pick(&['a', '{', ')', ']', '/', ' '])).collect();
            out.push(format!("b\"{body}\""));
            p(out, &[".", "len", "(", ")", "as", "u64"]);
            n as u64
        }
        4 => {
            let (src, v) = *r.pick(&[("'a'", 97u64), ("'{'", 123), ("'}'", 125), ("'('", 40), ("'\\''", 39), ("'\"'", 34), ("'\\\\'", 92), ("'\\n'", 10), ("'\\u{1F600}'", 0x1F600), ("','", 44), ("';'", 59), ("'/'", 47), ("'r'", 114), ("'#'", 35)]);
            out.push(src.to_string());
            p(out, &["as", "u64"]);
            v
        }
        5 | 6 => {
            out.push("(".into());
            let a = gen_expr(r, depth + 1, allow_hostile_raw, out);
            p(out, &[")", ".", "wrapping_add", "("]);
            let b = gen_expr(r, depth + 1, allow_hostile_raw, out);
            out.push(")".into());
            a.wrapping_add(b)
        }
        7 => {
            out.push("{".into());
            out.push((*r.pick(&["/* } ) */", "/* \" ' */", "// } \" ' ,\n", "/* /* ] */ ; */"])).to_string());
            let a = gen_expr(r, depth + 1, allow_hostile_raw, out);
            out.push("}".into());
            a
        }
        8 => {
            out.push("[".into());
            let a = gen_expr(r, depth + 1, allow_hostile_raw, out);
            out.push(",".into());
            let b = gen_expr(r, depth + 1, allow_hostile_raw, out);
            p(out, &["]", ".", "iter", "(", ")", ".", "fold", "(", "0u64", ",", "|", "a", ",", "b", "|", "a", ".", "wrapping_add", "(", "*", "b", ")", ")"]);
            a.wrapping_add(b)
        }
        9 => {
            p(out, &["{", "fn", "id", "<", "'a", ">", "(", "x", ":", "&", "'a", "u64", ")", "->", "&", "'a", "u64", "{", "x", "}", "*", "id", "(", "&", "("]);
            let a = gen_expr(r, depth + 1, allow_hostile_raw, out);
            p(out, &[")", ")", "}"]);
            a
        }
        _ => {
            let (scrut, hit) = *r.pick(&[("'{'", true), ("'x'", false), ("'\\''", false)]);
            p(out, &["match", scrut, "{", "'{'", "=>"]);
            let a = gen_expr(r, depth + 1, allow_hostile_raw, out);
            p(out, &[",", "_", "=>"]);
            let b = gen_expr(r, depth + 1, allow_hostile_raw, out);
            p(out, &[",", "}"]);
            if hit { a } else { b }
        }
    }
}

/// layout that is layout for rustc as well: Pattern_White_Space and non-doc comments
fn gen_rust_layout(r: &mut Rng) -> String {
    let n = 1 + r.below(2);
    let mut s = String::new();
    for _ in 0..n {
        match r.below(8) {
            0 => {
                s.push_str("// ");
                for _ in 0..r.below(5) {
                    s.push(*r.pick(TEXTY));
                }
                s.push('\n');
            }
            1 => {
                s.push_str("/* ");
                s.push_str(&gen_comment_body(r, 0));
                s.push_str("*/");
            }
            _ => s.push(*r.pick(&[' ', ' ', '\n', '\t', '\r'])),
        }
    }
    s
}

fn join_tokens(r: &mut Rng, toks: &[String], plain: bool) -> String {
    let mut s = String::new();
    for t in toks {
        if plain {
            s.push(' ');
        } else {
            // never empty: adjacent words must stay apart; a trailing `//` token carries its own newline
            s.push_str(&gen_rust_layout(r));
        }
        s.push_str(t);
    }
    s.push(' ');
    s
}

struct Viol {
    fingerprint: String,
    what: String,
    fields: Vec<(String, String)>,
}

fn main() {
    let o = parse_opts();
    let mut cfg = Cfg { raw_legacy: true, shebang_double_bump: true };
    let mut gen_n = 4usize; // corpus grammars perturbed through the real Configuration
    let mut compile_n = 0usize; // alternatives of the compiled checksum grammar
    let mut it = o.extra.iter();
    while let Some(a) = it.next() {
        match a.as_str() {
            "--raw-legacy" => cfg.raw_legacy = it.next().unwrap() == "1",
            "--double-bump" => cfg.shebang_double_bump = it.next().unwrap() == "1",
            "--gen" => gen_n = it.next().unwrap().parse().unwrap(),
            "--compile" => compile_n = it.next().unwrap().parse().unwrap(),
            "--probe" => {
                // replay helper: print the hook's answer for one hex-encoded text and exit
                let t = dec_str(it.next().unwrap()).expect("hex text");
                println!("{}", tokenize(&t, 0));
                return;
            }
            _ => {}
        }
    }
    let mut r = Rng::new(o.seed);
    let mut st = Streams::create(&o.out, "tok");
    let mut h = Hist::default();
    let mut viols: Vec<Viol> = Vec::new();
    let mut nontrivial = std::collections::BTreeSet::<u64>::new();
    let hash = |s: &str| -> u64 {
        let mut x: u64 = 0xcbf29ce484222325;
        for b in s.as_bytes() {
            x = (x ^ *b as u64).wrapping_mul(0x100000001b3);
        }
        x
    };
    let case = |st: &mut Streams, h: &mut Hist, label: &str, shift: usize, text: &str| -> String {
        let out = tokenize(text, shift);
        st.case(&format!("tok {shift} {}", enc_str(text)), &out);
        h.hit(label);
        if out.contains(" E:") || out.starts_with("E:") {
            h.hit("outcome:error");
        } else {
            h.hit("outcome:ok");
        }
        out
    };

    // 0. character classes over all code points
    for which in ["start", "continue", "white"] {
        st.case(&format!("class {which}"), &char_classes(which));
    }

    // 5. deterministic probes of the places where the hypotheses of the theorems are narrower than Rust /
    //    than "any layout": each is a pair (text a, text b) that must tokenize alike, or a snippet.
    let probes: &[(&str, &str, &str, &str)] = &[
        ("code-raw-string", "raw string without hashes ending in a backslash inside action code", "=> r\"\\\",", "EqualsGreaterThanCode"),
        ("code-raw-string", "raw string r#\"a\"b\"# containing a quote inside action code", "=> r#\"a\"b\"#,", "EqualsGreaterThanCode"),
    ];
    for (fp, what, text, kind) in probes {
        let out = case(&mut st, &mut h, "probe", 0, text);
        let body = &text[2..text.len() - 1];
        let want = format!("0:{}:{} {}:{}:Comma", text.len() - 1, tok_payload(kind, body), text.len() - 1, text.len());
        if out != want {
            viols.push(Viol {
                fingerprint: fp.to_string(),
                what: format!("Tokenizer::code mis-scans a {what}"),
                fields: vec![("text".into(), text.to_string()), ("expected_tokens".into(), want), ("implementation_tokens".into(), out)],
            });
        }
    }
    // layout pairs: same tokens expected
    let pairs: &[(&str, &str, &str, &str)] = &[
        ("shebang-next-char", "the character after `#![..]` is dropped: a comment or token directly after the attribute changes the token stream",
         "#![a]\n//c\ngrammar;", "#![a]//c\ngrammar;"),
        ("macro-id-layout", "layout between an identifier and `<` changes MacroId into Id", "Comma<\"a\">", "Comma <\"a\">"),
    ];
    for (fp, what, a, b) in pairs {
        let ta = strip_spans(&case(&mut st, &mut h, "probe", 0, a));
        let tb = strip_spans(&case(&mut st, &mut h, "probe", 0, b));
        if ta != tb {
            let mut fields = vec![("text_a".to_string(), a.to_string()), ("text_b".to_string(), b.to_string()), ("tokens_a".to_string(), ta.join(" ")), ("tokens_b".to_string(), tb.join(" "))];
            // the same difference through the whole of lalrpop: a grammar accepted with one layout, rejected with the other
            let g = |head: &str, body: &str| format!("{head}grammar;\nComma<T>: Vec<T> = {{ <v:(<T> \",\")*> <e:T?> => v }};\npub S: Vec<&'input str> = {{ {body} }};\n");
            let (ga, gb) = if *fp == "macro-id-layout" { (g("", a), g("", b)) } else { (g("#![allow(unused)]\n//c\n", "Comma<\"a\">"), g("#![allow(unused)]//c\n", "Comma<\"a\">")) };
            let gd = o.out.join("gen");
            let ra = generate_parser(&gd, "probe_a", &ga, |_| {}).map(|_| "accepted".to_string()).unwrap_or_else(|e| e);
            let rb = generate_parser(&gd, "probe_b", &gb, |_| {}).map(|_| "accepted".to_string()).unwrap_or_else(|e| e);
            fields.push(("grammar_a".into(), ga));
            fields.push(("grammar_b".into(), gb));
            fields.push(("lalrpop_on_grammar_a".into(), ra));
            fields.push(("lalrpop_on_grammar_b".into(), rb));
            viols.push(Viol { fingerprint: fp.to_string(), what: what.to_string(), fields });
        }
    }

    // 1. corpus, whole files
    let files = corpus();
    for (_, t) in &files {
        case(&mut st, &mut h, "corpus-file", 0, t);
    }

    // 2. mutated windows of corpus files and random strings
    let n_mut = o.n;
    for i in 0..n_mut {
        let (_, t) = r.pick(&files);
        let cs: Vec<char> = t.chars().collect();
        let len = 10 + r.below(300);
        let a = r.below(cs.len().max(1));
        let b = (a + len).min(cs.len());
        let w: String = cs[a..b].iter().collect();
        let m = mutate(&mut r, &w);
        let shift = if i % 7 == 0 { r.below(1000) } else { 0 };
        let out = case(&mut st, &mut h, "corpus-window-mutated", shift, &m);
        nontrivial.insert(hash(&out.split(' ').map(|x| x.splitn(3, ':').nth(2).unwrap_or("").to_string()).collect::<Vec<_>>().join(" ")));
    }
    for _ in 0..o.n / 2 {
        let k = r.below(12);
        let mut s = String::new();
        for _ in 0..k {
            if r.chance(1, 3) {
                s.push_str(*r.pick(SPLICE));
            } else {
                s.push(*r.pick(TEXTY));
            }
        }
        case(&mut st, &mut h, "random-string", 0, &s);
    }

    // 3. docs: spec tokens vs real tokens under hypothesis-respecting layouts (property), any layout (correspondence)
    let mut docs_checked = 0usize;
    let mut sample_doc = String::new();
    let mut sample_snippet = String::new();
    for _ in 0..o.n / 2 {
        let d = gen_doc(&mut r, cfg);
        let spec: Vec<String> = d.atoms.iter().flat_map(|a| a.toks.clone()).collect();
        for a in &d.atoms {
            h.hit(&format!("atom:{}", a.toks[0].split(':').next().unwrap()));
        }
        for k in 0..2 {
            let text = render_doc(&mut r, &d, true);
            let out = case(&mut st, &mut h, "doc-valid-layout", 0, &text);
            let got = strip_spans(&out);
            docs_checked += 1;
            if docs_checked == 7 {
                sample_doc = text.clone();
            }
            nontrivial.insert(hash(&got.join(" ")));
            if got != spec {
                viols.push(Viol {
                    fingerprint: format!("doc-tokens:{:016x}", hash(&spec.join(" "))),
                    what: "token sequence of a rendered grammar token tree differs from its specification under a layout that respects the hypotheses of layout_invariance".into(),
                    fields: vec![
                        ("text".into(), text.clone()),
                        ("expected_tokens".into(), spec.join(" ")),
                        ("implementation_tokens".into(), got.join(" ")),
                        ("layout_no".into(), k.to_string()),
                    ],
                });
            }
        }
        let text = render_doc(&mut r, &d, false);
        case(&mut st, &mut h, "doc-any-layout", 0, &text);
    }

    // 4. code snippets: `=>` snippet terminator rest
    let mut snippets_checked = 0usize;
    for i in 0..o.n {
        let hostile = i % 5 == 4; // full Rust raw-string language, outside the legacy hypothesis
        let body = gen_snippet(&mut r, cfg, hostile);
        let cs: Vec<char> = body.chars().collect();
        let wf = rust_code_end(&cs) == Some(cs.len());
        let (t, _) = *r.pick(TERMINATORS);
        let q = r.chance(1, 4);
        let startbad = !q && (body.starts_with('@') || body.starts_with('?'));
        let rest = *r.pick(&["", " x", "\n\"", " '", " }"]);
        let text = format!("=>{}{body}{t}{rest}", if q { "?" } else { "" });
        let out = case(&mut st, &mut h, if hostile { "snippet-hostile" } else { "snippet" }, 0, &text);
        if wf && !startbad {
            snippets_checked += 1;
            if snippets_checked == 11 {
                sample_snippet = text.clone();
            }
            h.hit("snippet-wellformed");
            let first = out.split(' ').next().unwrap_or("");
            let kind = if q { "EqualsGreaterThanQuestionCode" } else { "EqualsGreaterThanCode" };
            let want = format!("0:{}:{}", 2 + q as usize + body.len(), tok_payload(kind, &body));
            nontrivial.insert(hash(&body));
            if first != want {
                let fp = if hostile && cfg.raw_legacy { "code-raw-string".to_string() } else { format!("code-scan:{:016x}", hash(&body)) };
                viols.push(Viol {
                    fingerprint: fp,
                    what: "Tokenizer::code does not end a well-formed Rust snippet at its top-level terminator".into(),
                    fields: vec![("text".into(), text.clone()), ("expected_first_token".into(), want), ("implementation_tokens".into(), out.clone())],
                });
            }
        }
    }

    // 6. whole grammars through the real Configuration: perturb layout between tokens (respecting the
    //    hypotheses), the generated parser must be identical after the two header lines.
    let mut gen_done = 0usize;
    let mut gen_perturbations = 0usize;
    let small: Vec<&(String, String)> = files.iter().filter(|(p, t)| t.len() < 2600 && !p.contains("/error") && !p.contains("lrgrammar")).collect();
    let gdir = o.out.join("gen");
    let mut tries = 0;
    while gen_done < gen_n && tries < gen_n * 6 && !small.is_empty() {
        tries += 1;
        let (path, text) = *r.pick(&small);
        let Ok(base) = generate_parser(&gdir, "base", text, |_| {}) else { continue };
        let toks = tokenize(text, 0);
        if toks.contains("E:") {
            continue;
        }
        // token spans
        let spans: Vec<(usize, usize, String)> = toks
            .split(' ')
            .filter(|s| !s.is_empty())
            .map(|it| {
                let mut p = it.splitn(4, ':');
                let l: usize = p.next().unwrap().parse().unwrap();
                let e: usize = p.next().unwrap().parse().unwrap();
                (l, e, p.next().unwrap().to_string())
            })
            .collect();
        let mut out = String::new();
        let mut prev_end = 0usize;
        let mut prev_kind = String::new();
        for (l, e, k) in &spans {
            let gap = &text[prev_end..*l];
            out.push_str(gap);
            // insert extra layout before this token where the hypotheses allow it
            let allowed = match prev_kind.as_str() {
                "MacroId" => false, // no layout between Id and `<`
                "EqualsGreaterThanCode" | "EqualsGreaterThanQuestionCode" | "Use" => false, // would become part of the code
                "ShebangAttribute" => !cfg.shebang_double_bump || gap.chars().next().map(|c| c.is_whitespace()).unwrap_or(false),
                _ => true,
            };
            if allowed && r.chance(1, 3) {
                // no `_` in inserted comments: `__` anywhere in the text lengthens the generated-name prefix
                // (harmless, but the outputs are compared literally here)
                out.push_str(&gen_layout(&mut r, false).replace('_', "-"));
                gen_perturbations += 1;
            }
            out.push_str(&text[*l..*e]);
            prev_end = *e;
            prev_kind = k.clone();
        }
        out.push_str(&text[prev_end..]);
        if !matches!(prev_kind.as_str(), "EqualsGreaterThanCode" | "EqualsGreaterThanQuestionCode" | "Use") {
            out.push_str(&gen_layout(&mut r, true).replace('_', "-"));
        }
        let body = |s: &str| s.splitn(3, '\n').nth(2).unwrap_or("").to_string();
        match generate_parser(&gdir, "pert", &out, |_| {}) {
            Ok(p2) => {
                if body(&p2) != body(&base) {
                    viols.push(Viol {
                        fingerprint: format!("gen-layout:{:016x}", hash(path)),
                        what: "layout inserted between tokens changes the generated parser".into(),
                        fields: vec![("grammar_file".into(), path.clone()), ("perturbed_text".into(), out.clone())],
                    });
                }
            }
            Err(e) => viols.push(Viol {
                fingerprint: format!("gen-layout:{:016x}", hash(path)),
                what: "layout inserted between tokens makes lalrpop reject the grammar".into(),
                fields: vec![("grammar_file".into(), path.clone()), ("perturbed_text".into(), out.clone()), ("error".into(), e)],
            }),
        }
        gen_done += 1;
        h.hit("gen-perturbed-grammar");
    }

    // 7. compiled: a grammar whose actions are generated typed Rust expressions; two renderings (plain
    //    layout / random layout inside the code and between the grammar tokens); every parse must return
    //    the value computed here
    let mut compiled_values = 0usize;
    if compile_n > 0 {
        let mut exprs: Vec<(Vec<String>, u64)> = Vec::new();
        for _ in 0..compile_n {
            let mut toks = Vec::new();
            let v = gen_expr(&mut r, 0, !cfg.raw_legacy, &mut toks);
            exprs.push((toks, v));
        }
        let render = |r: &mut Rng, plain: bool| -> String {
            let mut g = String::new();
            let lay = |r: &mut Rng| if plain { " ".to_string() } else { gen_layout(r, false) };
            g.push_str("grammar;");
            g.push_str(&lay(r));
            g.push_str("pub");
            g.push_str(&lay(r));
            g.push_str("S:");
            g.push_str(&lay(r));
            g.push_str("u64");
            g.push_str(&lay(r));
            g.push_str("={");
            for (i, (toks, _)) in exprs.iter().enumerate() {
                g.push_str(&lay(r));
                write!(g, "\"k{i}\"").unwrap();
                g.push_str(&lay(r));
                g.push_str("=>");
                g.push_str(&join_tokens(r, toks, plain));
                g.push(',');
            }
            g.push_str(&lay(r));
            g.push_str("};\n");
            g
        };
        let ga = render(&mut r, true);
        let gb = render(&mut r, false);
        let cdir = o.out.join("compiled");
        let pa = generate_parser(&cdir.join("gen"), "ga", &ga, |_| {});
        let pb = generate_parser(&cdir.join("gen"), "gb", &gb, |_| {});
        match (pa, pb) {
            (Ok(a), Ok(b)) => {
                let mut main = String::from("#![allow(warnings)]\nmod ga;\nmod gb;\nfn main() {\n");
                for i in 0..exprs.len() {
                    writeln!(main, "    println!(\"{i} {{:?}} {{:?}}\", ga::SParser::new().parse(\"k{i}\").ok(), gb::SParser::new().parse(\"k{i}\").ok());").unwrap();
                }
                main.push_str("}\n");
                match build_scratch_crate(&cdir.join("crate"), "tokz_compiled", &[("src/main.rs".into(), main), ("src/ga.rs".into(), a), ("src/gb.rs".into(), b)]) {
                    Ok(exe) => {
                        let out = std::process::Command::new(exe).output().unwrap();
                        let text = String::from_utf8_lossy(&out.stdout).into_owned();
                        for (i, l) in text.lines().enumerate() {
                            let want = format!("{i} Some({v}) Some({v})", v = exprs[i].1);
                            compiled_values += 1;
                            if l != want {
                                viols.push(Viol {
                                    fingerprint: format!("compiled-action-value:{:016x}", hash(&exprs[i].0.join(" "))),
                                    what: "action code reaches the generated parser with a different meaning (value differs from the one computed independently, or between two layouts)".into(),
                                    fields: vec![("action_tokens".into(), exprs[i].0.join(" ")), ("expected".into(), want), ("got".into(), l.to_string())],
                                });
                            }
                        }
                        if text.lines().count() != exprs.len() {
                            viols.push(Viol { fingerprint: "compiled-action-run".into(), what: "compiled checksum grammar did not run to completion".into(), fields: vec![("stdout".into(), text)] });
                        }
                    }
                    Err(e) => viols.push(Viol {
                        fingerprint: "compiled-action-rustc".into(),
                        what: "a grammar whose actions are well-typed Rust expressions is accepted by lalrpop but its output does not compile".into(),
                        fields: vec![("grammar_plain_layout".into(), ga.clone()), ("grammar_random_layout".into(), gb.clone()), ("rustc".into(), e.lines().filter(|l| l.starts_with("error") || l.contains("-->")).take(8).collect::<Vec<_>>().join("\n"))],
                    }),
                }
            }
            (x, y) => viols.push(Viol {
                fingerprint: "compiled-action-reject".into(),
                what: "a grammar whose actions are well-formed Rust expressions is rejected by lalrpop".into(),
                fields: vec![("grammar_plain_layout".into(), ga.clone()), ("grammar_random_layout".into(), gb.clone()),
                             ("plain".into(), x.map(|_| "accepted".to_string()).unwrap_or_else(|e| e)), ("random".into(), y.map(|_| "accepted".to_string()).unwrap_or_else(|e| e))],
            }),
        }
        h.hit("compiled-checksum-grammar");
    }

    let total = st.count;
    st.finish();
    let mut vf = String::new();
    for v in &viols {
        let mut f = format!("{{\"fingerprint\":{},\"what\":{}", json_str(&v.fingerprint), json_str(&v.what));
        for (k, val) in &v.fields {
            write!(f, ",{}:{}", json_str(k), json_str(val)).unwrap();
        }
        f.push_str("}\n");
        vf.push_str(&f);
    }
    std::fs::write(o.out.join("violations.jsonl"), vf).unwrap();
    println!(
        "{{\"cases\":{total},\"corpus_files\":{},\"docs_checked\":{docs_checked},\"snippets_checked\":{snippets_checked},\"gen_grammars\":{gen_done},\"gen_perturbations\":{gen_perturbations},\"distinct_nontrivial\":{},\"compiled_action_values\":{compiled_values},\"violations\":{},\"sample_doc\":{},\"sample_snippet\":{},\"hist\":{}}}",
        files.len(),
        nontrivial.len(),
        viols.len(),
        json_str(&sample_doc),
        json_str(&sample_snippet),
        h.json()
    );
}
