//! C11 correspondence and property search: lalrpop's build-time NFA / DFA / remove_overlap
//! (through the `verif_hooks::lex` hooks) vs the Lean models `lpm_redfa`, and the end-to-end
//! ambiguity verdict of `token_check` vs a bounded-exhaustive search with the runtime regex semantics.
//!
//! Streams written to --out:
//!   nfa.req / nfa.impl        `nfa chars | <hir sexp>`            vs `nfa_dump`
//!   dfa.req / dfa.impl        `dfa new p0,p1,… | <hir> | <hir>…`  vs `build_dfa_dump`
//!   overlap.req / .impl       `overlap new lo-hi,…`               vs `remove_overlap_dump`
//!   e2e.jsonl                 one JSON object per end-to-end case (grammar, verdict, witness search)
#[path = "../lexgen.rs"]
mod lexgen;
use lalrpop::verif_hooks as vh;
use lalrpop::verif_hooks::lex as hooks;
use lexgen::*;
use std::collections::BTreeSet;
use std::io::Write;
use verif_harness::*;

#[derive(Clone)]
struct Term {
    text: String,
    literal: bool,
}

fn gen_term(r: &mut Rng, cfg: &GenCfg, h: &mut Hist) -> Term {
    if r.chance(2, 5) {
        h.hit("term:literal");
        Term { text: gen_literal(r, cfg), literal: true }
    } else {
        h.hit("term:regex");
        Term { text: gen_regex(r, 2, cfg), literal: false }
    }
}

/// Terminals that tend to overlap: variations on a few shapes.
fn gen_overlapping_set(r: &mut Rng, h: &mut Hist) -> Vec<Term> {
    let shapes: &[&[(&str, bool)]] = &[
        &[("[a-c]", false), ("[a-d]", false), ("[b-c]", false), ("[c-d]", false)],
        &[("é", true), ("[é-ê]", false)],
        &[("é", true), ("\u{c3}", true), ("[\u{c3}-\u{c4}]", false)],
        &[("if", true), ("[a-z]+", false), ("i[a-z]", false)],
        &[("a+", false), ("a*b?", false), ("aa", true)],
        &[("[0-9]+", false), ("[0-9]*\\.[0-9]+", false), ("0", true)],
        &[("\\p{Greek}+", false), ("λ", true), ("[α-ω]", false)],
        &[("(ab)*", false), ("a(ba)*b", false)],
        &[("x{2,3}", false), ("xx", true), ("x{3}", false)],
        &[("[a-f]", false), ("[d-k]", false), ("[e-e]", false), ("[c-m]", false), ("[a-z]", false)],
    ];
    let base = shapes[r.below(shapes.len())];
    h.hit("set:overlapping-shape");
    let mut v: Vec<Term> = base.iter().map(|(t, l)| Term { text: t.to_string(), literal: *l }).collect();
    // drop / shuffle some
    while v.len() > 2 && r.chance(1, 3) {
        let i = r.below(v.len());
        v.remove(i);
    }
    for i in (1..v.len()).rev() {
        let j = r.below(i + 1);
        v.swap(i, j);
    }
    v
}

fn gen_range_set(r: &mut Rng) -> Vec<(u32, u32)> {
    let k = r.below(8);
    let top = *r.pick(&[6u32, 12, 40, 0x110000]);
    (0..k)
        .map(|_| {
            let a = r.below(top as usize) as u32;
            let b = r.below(top as usize) as u32;
            if r.chance(1, 12) {
                (a.max(b), a.min(b)) // possibly empty
            } else if r.chance(1, 5) {
                (0, a.max(b))
            } else {
                (a.min(b), a.max(b))
            }
        })
        .collect()
}

fn lalrpop_term(t: &Term) -> Option<String> {
    if t.literal {
        if t.text.is_empty() || t.text.chars().any(|c| c == '"' || c == '\\' || c == '\n' || c == '\t' || c == '\r') {
            return None;
        }
        Some(format!("\"{}\"", t.text))
    } else {
        if t.text.contains('"') || t.text.contains('\n') {
            return None;
        }
        Some(format!("r#\"{}\"#", t.text))
    }
}

fn scalar(c: u32) -> Option<char> {
    char::from_u32(c)
}

/// strings to try: all strings of length <= `k` over one representative per block of the partition
/// induced by the HIRs' class/literal boundaries
fn candidate_strings(reps: &[char], k: usize, cap: usize) -> Vec<String> {
    let mut alpha: Vec<char> = reps.to_vec();
    // keep the alphabet small enough for the cap
    while alpha.len() > 1 && (alpha.len() as f64).powi(k as i32) as usize > cap {
        alpha.pop();
    }
    all_strings(&alpha, k)
}

struct Truth {
    witness: Option<(String, usize, usize)>,
    tried: usize,
}

/// search for a string on which the maximal-precedence matching patterns number >= 2
fn search_ambiguity(patterns: &[String], precs: &[usize], cands: &[String]) -> Option<Truth> {
    let refs: Vec<&str> = cands.iter().map(|s| s.as_str()).collect();
    let mut cols: Vec<Vec<bool>> = vec![];
    for p in patterns {
        cols.push(hooks::regex_full_match(p, &refs)?);
    }
    for (wi, w) in cands.iter().enumerate() {
        let mut best: Option<usize> = None;
        for i in 0..patterns.len() {
            if cols[i][wi] {
                best = Some(best.map_or(precs[i], |b| b.max(precs[i])));
            }
        }
        if let Some(b) = best {
            let top: Vec<usize> = (0..patterns.len()).filter(|&i| cols[i][wi] && precs[i] == b).collect();
            if top.len() >= 2 {
                return Some(Truth { witness: Some((w.clone(), top[0], top[1])), tried: wi + 1 });
            }
        }
    }
    Some(Truth { witness: None, tried: cands.len() })
}

fn classify(msg: &str) -> &'static str {
    if msg.contains("ambiguity detected") {
        "ambiguity"
    } else if msg.contains("not supported in regular expressions") {
        "unsupported"
    } else if msg.contains("invalid regular expression") {
        "invalid-regex"
    } else {
        "other-error"
    }
}

/// `--confirm FILE`: each line `<x hex word> <p0,p1,…> <x hex pattern>…`; prints `ambiguous i j` if
/// the word is matched, with maximal precedence, by at least two of the patterns (runtime regex
/// semantics), else `not-ambiguous`.
fn confirm(path: &str) {
    let text = std::fs::read_to_string(path).unwrap();
    for line in text.lines() {
        let parts: Vec<&str> = line.split(' ').collect();
        if parts.len() < 3 {
            println!("bad");
            continue;
        }
        let word = dec_str(parts[0]).unwrap_or_default();
        let precs: Vec<usize> = parts[1].split(',').filter_map(|p| p.parse().ok()).collect();
        let pats: Vec<String> = parts[2..].iter().filter_map(|p| dec_str(p)).collect();
        match search_ambiguity(&pats, &precs, &[word]) {
            Some(Truth { witness: Some((_, i, j)), .. }) => println!("ambiguous {i} {j}"),
            Some(_) => println!("not-ambiguous"),
            None => println!("bad"),
        }
    }
}

fn main() {
    let o = parse_opts();
    if let Some(i) = o.extra.iter().position(|a| a == "--confirm") {
        confirm(&o.extra[i + 1]);
        return;
    }
    let mut h = Hist::default();
    let mut r = Rng::new(o.seed);
    let n_e2e: usize = o
        .extra
        .iter()
        .position(|a| a == "--e2e")
        .and_then(|i| o.extra.get(i + 1))
        .and_then(|s| s.parse().ok())
        .unwrap_or(o.n / 10);

    // ---------------------------------------------------------------- nfa stream
    let mut st = Streams::create(&o.out, "nfa");
    let mut nfa_nontrivial: BTreeSet<String> = BTreeSet::new();
    let fixed_terms: &[(&str, bool)] = &[
        ("é", true), ("[é-ê]", false), ("a{2,4}", false), ("a{3}", false), ("a{2,}", false), ("(a|b)*c", false),
        ("", false), ("a??", false), ("(?P<x>a)", false), ("^a", false), ("\\bx", false), ("a|", false),
        ("(?i)ab", false), ("[^a]", false), ("\\d+", false), ("😀", true), ("a.c", true), ("(a*)*", false),
        ("(a|)+", false), ("x{0}", false), ("(?:){3}", false), ("[a&&b]", false),
    ];
    let mut terms: Vec<Term> = fixed_terms.iter().map(|(t, l)| Term { text: t.to_string(), literal: *l }).collect();
    for _ in 0..o.n {
        let cfg = match r.below(4) {
            0 => GenCfg::full(),
            1 => GenCfg { unsupported: true, ..GenCfg::small() },
            _ => GenCfg::small(),
        };
        terms.push(gen_term(&mut r, &cfg, &mut h));
    }
    let mut parse_errors = 0u64;
    for t in &terms {
        let hir = match hooks::parse_terminal(&t.text, t.literal) {
            Ok(x) => x,
            Err(_) => {
                parse_errors += 1;
                continue;
            }
        };
        let sexp = hooks::hir_sexp(&hir);
        let dump = hooks::nfa_dump(&hir);
        if dump.starts_with("error") {
            h.hit("nfa:unsupported");
        } else if dump.matches(';').count() >= 5 {
            nfa_nontrivial.insert(sexp.clone());
        }
        st.case(&format!("nfa chars | {sexp}"), &dump);
    }
    // raw literals, valid and invalid UTF-8
    for _ in 0..(o.n / 20 + 20) {
        let k = 1 + r.below(4);
        let bytes: Vec<u8> = (0..k)
            .map(|_| *r.pick(&[0x61u8, 0xc3, 0xa9, 0x80, 0xe2, 0x82, 0xac, 0xf0, 0x9f, 0x98, 0xff, 0xc0, 0xed, 0xa0, 0x7f]))
            .collect();
        let hir = hooks::hir_literal(&bytes);
        h.hit(if std::str::from_utf8(&bytes).is_ok() { "nfa:raw-literal-valid-utf8" } else { "nfa:raw-literal-invalid-utf8" });
        st.case(&format!("nfa chars | {}", hooks::hir_sexp(&hir)), &hooks::nfa_dump(&hir));
    }
    let nfa_cases = st.count;
    st.finish();

    // ---------------------------------------------------------------- dfa stream
    let mut st = Streams::create(&o.out, "dfa");
    let mut dfa_nontrivial: BTreeSet<String> = BTreeSet::new();
    let (mut dfa_amb, mut dfa_ok, mut dfa_err) = (0u64, 0u64, 0u64);
    let n_dfa = o.n / 4 + 10;
    for ci in 0..n_dfa {
        let set: Vec<Term> = if ci % 3 == 0 {
            gen_overlapping_set(&mut r, &mut h)
        } else {
            let cfg = if r.chance(1, 8) { GenCfg::full() } else { GenCfg::small() };
            let cfg = GenCfg { unsupported: r.chance(1, 10), ..cfg };
            let k = 1 + r.below(4);
            (0..k).map(|_| gen_term(&mut r, &cfg, &mut h)).collect()
        };
        let mut hirs = vec![];
        for t in &set {
            if let Ok(x) = hooks::parse_terminal(&t.text, t.literal) {
                hirs.push(x);
            }
        }
        if hirs.is_empty() {
            continue;
        }
        let precs: Vec<usize> = (0..hirs.len())
            .map(|i| if r.chance(1, 2) { r.below(3) } else { if set.get(i).map_or(false, |t| t.literal) { 1 } else { 0 } })
            .collect();
        let dump = hooks::build_dfa_dump(&hirs, &precs);
        let sexps: Vec<String> = hirs.iter().map(hooks::hir_sexp).collect();
        let req = format!(
            "dfa new {} | {}",
            precs.iter().map(|p| p.to_string()).collect::<Vec<_>>().join(","),
            sexps.join(" | ")
        );
        if dump.starts_with("ambiguity") {
            dfa_amb += 1;
            dfa_nontrivial.insert(req.clone());
        } else if dump.starts_with("ok") {
            dfa_ok += 1;
            if hirs.len() >= 2 && dump.matches(';').count() >= 4 {
                dfa_nontrivial.insert(req.clone());
            }
        } else {
            dfa_err += 1;
        }
        st.case(&req, &dump);
    }
    let dfa_cases = st.count;
    st.finish();

    // ---------------------------------------------------------------- remove_overlap stream
    let mut st = Streams::create(&o.out, "overlap");
    let mut ov_nontrivial: BTreeSet<String> = BTreeSet::new();
    let mut ov_panics = 0u64;
    let mut fixed_sets: Vec<Vec<(u32, u32)>> = vec![
        vec![(0, 2), (0, 3), (1, 2), (2, 3)],
        vec![(0, 2), (0, 3), (1, 1), (1, 3)],
        vec![(0, 1), (0, 2), (1, 1), (1, 2)],
        vec![(97, 122), (99, 108), (48, 57)],
        vec![(0, 0), (0, 97)],
        vec![],
    ];
    for _ in 0..o.n {
        fixed_sets.push(gen_range_set(&mut r));
    }
    for rs in &fixed_sets {
        let dump = hooks::remove_overlap_dump(rs);
        let req = format!(
            "overlap new {}",
            if rs.is_empty() { "-".to_string() } else { rs.iter().map(|(a, b)| format!("{a}-{b}")).collect::<Vec<_>>().join(",") }
        );
        if dump == "panic" {
            ov_panics += 1;
        }
        let overlapping = rs.iter().enumerate().any(|(i, a)| rs.iter().skip(i + 1).any(|b| a.0 <= b.1 && b.0 <= a.1 && a != b));
        if overlapping {
            ov_nontrivial.insert(req.clone());
        }
        st.case(&req, &dump);
    }
    let ov_cases = st.count;
    st.finish();

    // ---------------------------------------------------------------- end-to-end verdicts
    let mut e2e = std::io::BufWriter::new(std::fs::File::create(o.out.join("e2e.jsonl")).unwrap());
    let (mut e2e_cases, mut e2e_amb, mut e2e_ok, mut e2e_other, mut missed, mut unconfirmed, mut confirmed) =
        (0u64, 0u64, 0u64, 0u64, 0u64, 0u64, 0u64);
    let mut e2e_nontrivial: BTreeSet<String> = BTreeSet::new();
    let mut wit = Streams::create(&o.out, "wit");
    let mut fixed_e2e: Vec<(Vec<Vec<Term>>, bool)> = vec![
        // (rungs, catch-all) — F3 probe and the remove_overlap probe
        (vec![vec![Term { text: "é".into(), literal: false }, Term { text: "[é-ê]".into(), literal: false }]], false),
        (vec![vec![Term { text: "é".into(), literal: true }, Term { text: "ê|é".into(), literal: true }], vec![Term { text: "[é-ê]".into(), literal: false }]], false),
        (
            vec![
                vec![Term { text: "[c-d]".into(), literal: false }],
                vec![Term { text: "[a-d]".into(), literal: false }, Term { text: "[b-c]".into(), literal: false }],
                vec![Term { text: "[a-c]".into(), literal: false }],
            ],
            false,
        ),
        // spurious on the unfixed tree: the two chars U+C3 U+A9 vs the one char é (bytes C3 A9)
        (vec![vec![Term { text: "\u{c3}\u{a9}".into(), literal: false }, Term { text: "é".into(), literal: false }]], false),
    ];
    for ci in 0..n_e2e {
        let set: Vec<Term> = if ci % 2 == 0 {
            gen_overlapping_set(&mut r, &mut h)
        } else {
            let cfg = GenCfg { unsupported: r.chance(1, 12), big_classes: r.chance(1, 10), non_ascii: true, flags: r.chance(1, 6) };
            let k = 2 + r.below(3);
            (0..k).map(|_| gen_term(&mut r, &cfg, &mut h)).collect()
        };
        // distribute over 1..3 rungs
        let nr = 1 + r.below(3);
        let mut rungs: Vec<Vec<Term>> = vec![vec![]; nr];
        for t in set {
            let i = r.below(nr);
            rungs[i].push(t);
        }
        rungs.retain(|x| !x.is_empty());
        if rungs.is_empty() {
            continue;
        }
        fixed_e2e.push((rungs, false));
    }
    for (rungs, _) in &fixed_e2e {
        // dedupe terminals (a duplicate match entry is a different error)
        let mut seen: BTreeSet<(String, bool)> = BTreeSet::new();
        let mut rungs2: Vec<Vec<(Term, String)>> = vec![];
        let mut ok = true;
        for rg in rungs {
            let mut v = vec![];
            for t in rg {
                if !seen.insert((t.text.clone(), t.literal)) {
                    continue;
                }
                match lalrpop_term(t) {
                    Some(s) => v.push((t.clone(), s)),
                    None => ok = false,
                }
            }
            if !v.is_empty() {
                rungs2.push(v);
            }
        }
        if !ok || rungs2.is_empty() {
            continue;
        }
        let nr = rungs2.len();
        let mut g = String::from("grammar;\nmatch {\n");
        for (ri, rg) in rungs2.iter().enumerate() {
            if ri > 0 {
                g.push_str("} else {\n");
            }
            for (_, s) in rg {
                g.push_str(&format!("    {s},\n"));
            }
        }
        g.push_str("}\npub S: () = {\n");
        for rg in &rungs2 {
            for (_, s) in rg {
                g.push_str(&format!("    {s} => (),\n"));
            }
        }
        g.push_str("};\n");
        // documented precedences: earlier rung higher, literal over regex within a rung
        let mut flat: Vec<(Term, usize)> = vec![];
        for (ri, rg) in rungs2.iter().enumerate() {
            for (t, _) in rg {
                flat.push((t.clone(), 2 * (nr - ri) + if t.literal { 1 } else { 0 }));
            }
        }
        let dump = vh::stage_dump(&g, None, "token_check");
        let verdict = if dump.starts_with("ok") {
            "accepted".to_string()
        } else if let Some(rest) = dump.strip_prefix("error token_check ") {
            classify(&dec_str(rest.trim()).unwrap_or_default()).to_string()
        } else {
            format!("stage:{}", dump.split(' ').take(2).collect::<Vec<_>>().join(" "))
        };
        if verdict != "accepted" && verdict != "ambiguity" {
            e2e_other += 1;
            h.hit(&format!("e2e:{verdict}"));
            continue;
        }
        // runtime view of every terminal
        let mut patterns = vec![];
        let mut hirs = vec![];
        let mut bad = false;
        for (t, _) in &flat {
            match (hooks::rendered_regex(&t.text, t.literal), hooks::parse_terminal(&t.text, t.literal)) {
                (Some((re, _)), Ok(hir)) => {
                    patterns.push(re);
                    hirs.push(hir);
                }
                _ => bad = true,
            }
        }
        if bad {
            e2e_other += 1;
            continue;
        }
        let precs: Vec<usize> = flat.iter().map(|(_, p)| *p).collect();
        // one representative per block of the partition induced by all class/literal boundaries:
        // all of them for strings of length 1, a round-robin selection (a few per terminal) for length <= 3
        let bps = hooks::hir_breakpoints(&hirs);
        let all_reps: Vec<char> = bps.iter().filter_map(|&c| scalar(c)).collect();
        let mut reps: Vec<char> = vec![];
        let per: Vec<Vec<char>> = hirs
            .iter()
            .map(|hh| hooks::hir_breakpoints(std::slice::from_ref(hh)).iter().filter_map(|&c| scalar(c)).collect())
            .collect();
        for round in 0..6 {
            for p in &per {
                // skip the 0 every list starts with, take boundaries in order
                if let Some(&c) = p.get(round + 1) {
                    if !reps.contains(&c) && reps.len() < 16 {
                        reps.push(c);
                    }
                }
            }
        }
        if reps.is_empty() {
            reps.push('a');
        }
        let mut cands: Vec<String> = all_reps.iter().map(|c| c.to_string()).collect();
        cands.extend(candidate_strings(&reps, 3, 5000));
        let truth = match search_ambiguity(&patterns, &precs, &cands) {
            Some(t) => t,
            None => {
                e2e_other += 1;
                continue;
            }
        };
        e2e_cases += 1;
        let truly = truth.witness.is_some();
        let says = verdict == "ambiguity";
        if says {
            e2e_amb += 1;
        } else {
            e2e_ok += 1;
        }
        let key = format!("{g}");
        if flat.len() >= 2 {
            e2e_nontrivial.insert(key);
        }
        let status = match (says, truly) {
            (false, true) => {
                missed += 1;
                "MISSED"
            }
            (true, false) => {
                unconfirmed += 1;
                // ask the Lean model for a witness of its own ambiguity verdict
                let sexps: Vec<String> = hirs.iter().map(hooks::hir_sexp).collect();
                wit.case(
                    &format!(
                        "witness {} | {}",
                        precs.iter().map(|p| p.to_string()).collect::<Vec<_>>().join(","),
                        sexps.join(" | ")
                    ),
                    &format!("{}", e2e_cases),
                );
                "UNCONFIRMED"
            }
            (true, true) => {
                confirmed += 1;
                "agree-ambiguous"
            }
            (false, false) => "agree-unambiguous",
        };
        let w = truth.witness.as_ref();
        writeln!(
            e2e,
            "{{\"id\":{e2e_cases},\"status\":\"{status}\",\"grammar\":{},\"terminals\":[{}],\"precedences\":[{}],\"runtime_patterns\":[{}],\"lalrpop_verdict\":\"{verdict}\",\"witness\":{},\"witness_patterns\":{},\"strings_tried\":{}}}",
            json_str(&g),
            flat.iter().map(|(t, _)| json_str(&lalrpop_term(t).unwrap())).collect::<Vec<_>>().join(","),
            precs.iter().map(|p| p.to_string()).collect::<Vec<_>>().join(","),
            patterns.iter().map(|p| json_str(p)).collect::<Vec<_>>().join(","),
            w.map_or("null".to_string(), |x| json_str(&x.0)),
            w.map_or("null".to_string(), |x| format!("[{},{}]", x.1, x.2)),
            truth.tried
        )
        .unwrap();
    }
    e2e.flush().unwrap();
    wit.finish();

    println!(
        "{{\"nfa_cases\":{nfa_cases},\"nfa_nontrivial\":{},\"parse_errors\":{parse_errors},\"dfa_cases\":{dfa_cases},\"dfa_nontrivial\":{},\"dfa_ambiguity\":{dfa_amb},\"dfa_ok\":{dfa_ok},\"dfa_nfa_error\":{dfa_err},\"overlap_cases\":{ov_cases},\"overlap_nontrivial\":{},\"overlap_panics\":{ov_panics},\"e2e_cases\":{e2e_cases},\"e2e_nontrivial\":{},\"e2e_ambiguity\":{e2e_amb},\"e2e_accepted\":{e2e_ok},\"e2e_skipped\":{e2e_other},\"e2e_missed\":{missed},\"e2e_unconfirmed\":{unconfirmed},\"e2e_confirmed\":{confirmed},\"hist\":{}}}",
        nfa_nontrivial.len(),
        dfa_nontrivial.len(),
        ov_nontrivial.len(),
        e2e_nontrivial.len(),
        h.json()
    );
}
