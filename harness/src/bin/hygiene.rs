//! C25 harness.
//!  (1) hyg.req/.impl: the prefix `parse_grammar` chooses (stage dump `parse`) and the rule names after
//!      precedence expansion (stage dump `precedence`) for the correspondence with `lpm_hyg`.
//!  (2) property: template grammars instantiated with conventional names and with an injective
//!      renaming into adversarial names, both through the real `Configuration`: accept/reject must
//!      agree; for order-preserving renamings the generated parsers must be equal up to a consistent
//!      renaming of identifiers (first-occurrence numbering of word tokens).
//!  (3) a sample of those pairs is compiled with rustc (one scratch crate) and run on inputs: every
//!      parse result must agree.
//!  Deterministic probe: the precedence tier name `E1` (finding `tier-name-collision`).
use lalrpop::verif_hooks::stage_dump;
use std::fmt::Write as _;
use verif_harness::*;

#[derive(Clone)]
struct Names {
    nt: [String; 4],
    b: [String; 3],
    p: String,
    t: String,
}

const BASE: [&str; 9] = ["Expr", "Term", "List", "Item", "l", "r", "n", "scale", "T"];

/// identifiers that look like the names LALRPOP derives (all valid in every role)
const POOL: &[&str] = &[
    "__", "__0", "__1", "__2", "__action0", "__action1", "__Symbol", "Variant0", "Variant1", "__Nonterminal", "__parse__Expr",
    "__StateMachine", "__lalrpop_util", "___", "____", "__state_machine", "__ToTriple", "__tokens", "__sym0", "__sym1", "__lookahead",
    "__start", "__end", "__nt", "__symbols", "__states", "__temp0", "__input", "__builder", "__TOKEN", "__TOKENS", "E7", "__intern_token",
    "__MatcherBuilder", "__lookbehind", "__token", "__tok0", "__ParseError", "__reduce0", "__pop_Variant0", "__ACTION", "__GOTO",
    "__EOF_ACTION", "__expected_tokens", "__simulate_reduce", "__StateMachine0", "ExprParser", "TermParser", "__Expr", "_0", "__r", "__l",
    "__lalrpop_util_", "__alloc", "alloc", "__result", "__error", "__location", "__index", "__integer", "__sym2", "__action2",
];
/// names not in the prefixed family (CamelCase items of the generated module)
const POOL_UNPREFIXED: &[&str] = &["Token", "Parser", "Lexer", "Matcher"];

fn inst(template: usize, n: &Names) -> String {
    let (n0, n1, n2, _n3) = (&n.nt[0], &n.nt[1], &n.nt[2], &n.nt[3]);
    let (b0, b1, b2) = (&n.b[0], &n.b[1], &n.b[2]);
    let (p0, t0) = (&n.p, &n.t);
    match template {
        0 => format!(
            "grammar;\npub {n0}: i64 = {{\n    #[precedence(level=\"1\")]\n    <{b0}:{n1}> => {b0},\n    #[precedence(level=\"2\")] #[assoc(side=\"left\")]\n    <{b0}:{n0}> \"*\" <{b1}:{n0}> => {b0} * {b1},\n    #[precedence(level=\"3\")] #[assoc(side=\"left\")]\n    <{b0}:{n0}> \"+\" <{b1}:{n0}> => {b0} + {b1},\n}};\n{n1}: i64 = {{ <{b2}:r\"[0-9]+\"> => {b2}.parse().unwrap(), \"(\" <{n0}> \")\" }};\n"
        ),
        1 => format!(
            "grammar;\n{n2}<{t0}>: Vec<{t0}> = {{ <mut {b0}:(<{t0}> \",\")*> <{b1}:{t0}?> => {{ if let Some(x) = {b1} {{ {b0}.push(x); }} {b0} }} }};\npub {n0}: Vec<String> = {{ \"[\" <{n2}<{n1}>> \"]\" }};\n{n1}: String = {{ r\"[a-z]+\" => <>.to_string(), \"<\" <{n1}> \">\" => format!(\"<{{}}>\", <>) }};\n"
        ),
        2 => format!(
            "grammar({p0}: i64);\npub {n0}: i64 = {{ <{b0}:{n1}> => {b0} + {p0}, <{b0}:{n0}> \"-\" <{b1}:{n1}> => {b0} - {b1} }};\n{n1}: i64 = {{ r\"[0-9]+\" => i64::from_str_radix(<>, 10).unwrap() * {p0} }};\n"
        ),
        3 => format!(
            "grammar<'a, {t0}>({p0}: &'a {t0}) where {t0}: std::fmt::Debug;\npub {n0}: String = {{ <{b0}:{n1}> => format!(\"{{:?}}{{}}\", {p0}, {b0}), }};\n{n1}: String = {{ <{b0}:r\"[a-z]\"> <{b1}:{n1}?> => format!(\"{{}}{{}}\", {b0}, {b1}.unwrap_or_default()) }};\n"
        ),
        _ => format!(
            "grammar;\npub {n0}: (usize, Vec<i64>, usize) = {{ <{b0}:@L> <{b1}:{n1}+> <{b2}:@R> => ({b0}, {b1}, {b2}) }};\n{n1}: i64 = {{ <{n2}> \";\", \"-\" <{b0}:{n1}> => -{b0} }};\n{n2}: i64 = {{ r\"[0-9]\" => <>.parse().unwrap(), \"(\" <{b1}:{n2}> \"+\" <{b2}:{n2}> \")\" => {b1} + {b2} }};\n"
        ),
    }
}
const N_TEMPLATES: usize = 5;
const INPUTS: [&[&str]; 5] = [
    &["1+2*3", "(1+2)*3", "2*", "7", "1+", "((4))"],
    &["[a,b,c]", "[<a>,b]", "[", "[a,,]", "[]", "[<<x>>]"],
    &["1-2-3", "10", "-", "4-"],
    &["abc", "a", "", "a1"],
    &["1;2;", "-(1+2);", "1", ";", "--3;(4+5);"],
];
/// how the parser is invoked in the scratch crate
fn call(template: usize, n: &Names) -> String {
    let p = format!("{}Parser::new()", n.nt[0]);
    match template {
        2 => format!("{p}.parse(7, input)"),
        3 => format!("{p}.parse(&(1u8, \"x\"), input)"),
        _ => format!("{p}.parse(input)"),
    }
}

fn base_names() -> Names {
    let s = |i: usize| BASE[i].to_string();
    Names { nt: [s(0), s(1), s(2), s(3)], b: [s(4), s(5), s(6)], p: s(7), t: s(8) }
}

fn from_list(v: &[String]) -> Names {
    Names { nt: [v[0].clone(), v[1].clone(), v[2].clone(), v[3].clone()], b: [v[4].clone(), v[5].clone(), v[6].clone()], p: v[7].clone(), t: v[8].clone() }
}

/// the CamelCase item names of the generated module (`Token`, …) are only used for nonterminals in random
/// renamings; as bindings / parameters / type parameters they are probed deterministically
fn fix_roles(v: &mut Vec<String>) {
    for i in 4..9 {
        if POOL_UNPREFIXED.contains(&v[i].as_str()) {
            // swap with a nonterminal slot that holds a prefixed name
            if let Some(j) = (0..4).find(|&j| !POOL_UNPREFIXED.contains(&v[j].as_str())) {
                v.swap(i, j);
            } else {
                v[i] = format!("__role{i}");
            }
        }
    }
}

/// an injective renaming of the nine base names; `monotone` = preserves their lexicographic order
fn gen_renaming(r: &mut Rng, monotone: bool, unprefixed: bool) -> Names {
    let mut pool: Vec<&str> = POOL.to_vec();
    if unprefixed {
        pool.extend_from_slice(POOL_UNPREFIXED);
    }
    // choose 9 distinct
    for i in (1..pool.len()).rev() {
        let j = r.below(i + 1);
        pool.swap(i, j);
    }
    let mut chosen: Vec<String> = pool[..9].iter().map(|s| s.to_string()).collect();
    // keep some identity mappings now and then
    if monotone {
        let mut order: Vec<usize> = (0..9).collect();
        order.sort_by_key(|&i| BASE[i]);
        chosen.sort();
        let mut out = vec![String::new(); 9];
        for (rank, &i) in order.iter().enumerate() {
            out[i] = chosen[rank].clone();
        }
        if out[4..].iter().any(|n| POOL_UNPREFIXED.contains(&n.as_str())) {
            // keep the CamelCase item names out of the binding / parameter roles (probed separately): fall back
            return gen_renaming(r, true, false);
        }
        from_list(&out)
    } else {
        for c in chosen.iter_mut().enumerate() {
            if r.chance(1, 6) {
                *c.1 = BASE[c.0].to_string();
            }
        }
        fix_roles(&mut chosen);
        from_list(&chosen)
    }
}

// ------------------------------------------------------------------------------------------------
// word-canonical token stream of generated Rust (first-occurrence numbering of identifiers)
fn canon_stream(src: &str) -> Vec<String> {
    let s: Vec<char> = src.chars().collect();
    let n = s.len();
    let mut i = 0;
    let mut ids: std::collections::HashMap<String, usize> = Default::default();
    let mut out = Vec::new();
    let is_word = |c: char| c.is_alphanumeric() || c == '_';
    while i < n {
        let c = s[i];
        if c.is_whitespace() {
            i += 1;
        } else if c == '/' && i + 1 < n && s[i + 1] == '/' {
            while i < n && s[i] != '\n' {
                i += 1;
            }
        } else if c == '/' && i + 1 < n && s[i + 1] == '*' {
            let mut d = 1;
            i += 2;
            while i < n && d > 0 {
                if s[i] == '/' && i + 1 < n && s[i + 1] == '*' {
                    d += 1;
                    i += 2;
                } else if s[i] == '*' && i + 1 < n && s[i + 1] == '/' {
                    d -= 1;
                    i += 2;
                } else {
                    i += 1;
                }
            }
        } else if is_word(c) {
            let mut j = i;
            while j < n && is_word(s[j]) {
                j += 1;
            }
            let w: String = s[i..j].iter().collect();
            let mut k = j;
            while k < n && s[k] == '#' {
                k += 1;
            }
            if matches!(w.as_str(), "r" | "br") && k < n && s[k] == '"' {
                let h = k - j;
                let mut e = k + 1;
                while e < n && !(s[e] == '"' && e + 1 + h <= n && s[e + 1..e + 1 + h].iter().all(|&x| x == '#')) {
                    e += 1;
                }
                out.push(format!("R{}", s[k + 1..e.min(n)].iter().collect::<String>()));
                i = (e + 1 + h).min(n);
            } else if w.chars().next().unwrap().is_ascii_digit() {
                out.push(format!("N{w}"));
                i = j;
            } else {
                let next = ids.len();
                let id = *ids.entry(w).or_insert(next);
                out.push(format!("W{id}"));
                i = j;
            }
        } else if c == '"' {
            let mut j = i + 1;
            while j < n && s[j] != '"' {
                j += if s[j] == '\\' { 2 } else { 1 };
            }
            out.push("S".into()); // contents may mention names: kind only
            i = (j + 1).min(n);
        } else if c == '\'' {
            if i + 1 < n && s[i + 1] == '\\' {
                let mut j = i + 3;
                while j < n && s[j] != '\'' {
                    j += 1;
                }
                out.push(format!("C{}", s[i + 1..j.min(n)].iter().collect::<String>()));
                i = (j + 1).min(n);
            } else if i + 2 < n && s[i + 2] == '\'' {
                out.push(format!("C{}", s[i + 1]));
                i += 3;
            } else {
                let mut j = i + 1;
                while j < n && is_word(s[j]) {
                    j += 1;
                }
                let w: String = s[i..j].iter().collect();
                let next = ids.len();
                let id = *ids.entry(w).or_insert(next);
                out.push(format!("L{id}"));
                i = j.max(i + 1);
            }
        } else {
            out.push(format!("P{c}"));
            i += 1;
        }
    }
    out
}

fn body(s: &str) -> &str {
    let mut idx = 0;
    for _ in 0..2 {
        match s[idx..].find('\n') {
            Some(k) => idx += k + 1,
            None => return "",
        }
    }
    &s[idx..]
}

fn hash(s: &str) -> u64 {
    let mut x: u64 = 0xcbf29ce484222325;
    for b in s.as_bytes() {
        x = (x ^ *b as u64).wrapping_mul(0x100000001b3);
    }
    x
}

fn sexp_hex_after(s: &str, key: &str) -> Vec<String> {
    // all `x…` words that directly follow `(key ` in the dump
    let mut out = Vec::new();
    let pat = format!("({key} ");
    let mut from = 0;
    while let Some(k) = s[from..].find(&pat) {
        let a = from + k + pat.len();
        let e = s[a..].find(|c: char| c == ' ' || c == ')').map(|x| a + x).unwrap_or(s.len());
        out.push(s[a..e].to_string());
        from = e;
    }
    out
}

struct Viol {
    fingerprint: String,
    what: String,
    fields: Vec<(String, String)>,
}

fn main() {
    let o = parse_opts();
    let mut n_rustc = 4usize;
    let mut it = o.extra.iter();
    while let Some(a) = it.next() {
        if a == "--rustc" {
            n_rustc = it.next().unwrap().parse().unwrap();
        }
    }
    let mut r = Rng::new(o.seed);
    let mut h = Hist::default();
    let mut st = Streams::create(&o.out, "hyg");
    let mut viols: Vec<Viol> = Vec::new();
    let gdir = o.out.join("gen");

    // ---------------------------------------------------------------- (1a) prefix
    let mut texts: Vec<String> = Vec::new();
    for t in 0..N_TEMPLATES {
        texts.push(inst(t, &base_names()));
    }
    for d in ["/repo/lalrpop-test/src", "/repo/doc/calculator/src"] {
        if let Ok(rd) = std::fs::read_dir(d) {
            let mut es: Vec<_> = rd.flatten().map(|e| e.path()).collect();
            es.sort();
            for p in es.into_iter().filter(|p| p.extension().map(|e| e == "lalrpop").unwrap_or(false)) {
                if let Ok(t) = std::fs::read_to_string(&p) {
                    if t.len() < 4000 {
                        texts.push(t);
                    }
                }
            }
        }
    }
    let base_texts = texts.len();
    for _ in 0..o.n {
        let t = r.below(N_TEMPLATES);
        let mono = r.chance(1, 2);
        let names = gen_renaming(&mut r, mono, false);
        let mut g = inst(t, &names);
        // underscore runs elsewhere in the text: comments, string literals, action code
        for _ in 0..r.below(3) {
            let run = "_".repeat(2 + r.below(6));
            match r.below(3) {
                0 => write!(g, "// {run}\n").unwrap(),
                1 => g = g.replacen("grammar", &format!("/* x{run}y */ grammar"), 1),
                _ => write!(g, "// \"{run}\" a{run}\n").unwrap(),
            }
        }
        texts.push(g);
    }
    let mut prefix_lens = std::collections::BTreeMap::<usize, usize>::new();
    for (i, t) in texts.iter().enumerate() {
        let d = stage_dump(t, None, "parse");
        if !d.starts_with("ok ") {
            h.hit("prefix:parse-error");
            continue;
        }
        let p = sexp_hex_after(&d, "prefix");
        let Some(p) = p.first() else { continue };
        *prefix_lens.entry((p.len() - 1) / 2).or_insert(0) += 1;
        h.hit(if i < base_texts { "prefix:corpus" } else { "prefix:renamed-template" });
        st.case(&format!("prefix {}", enc_str(t)), p);
    }

    // ---------------------------------------------------------------- (1b) tier names
    for _ in 0..o.n / 2 {
        let k = 1 + r.below(3);
        let mut g = String::from("grammar;\n");
        let mut spec: Vec<String> = Vec::new();
        let nts = ["E", "Tm", "E1", "Q"];
        for (i, name) in nts.iter().take(k).enumerate() {
            let with_prec = r.chance(2, 3);
            let alts = 1 + r.below(4);
            let mut lv: Vec<u32> = Vec::new();
            write!(g, "{}{name}: () = {{\n", if i == 0 { "pub " } else { "" }).unwrap();
            let mut cur = 0u32;
            for a in 0..alts {
                if with_prec && (a == 0 || r.chance(1, 2)) {
                    cur = r.below(12) as u32;
                    write!(g, "    #[precedence(level=\"{cur}\")]\n").unwrap();
                }
                if with_prec {
                    lv.push(cur);
                }
                write!(g, "    \"{name}{a}\" => (),\n").unwrap();
            }
            g.push_str("};\n");
            spec.push(format!("{}:{}", enc_str(name), if lv.is_empty() { "-".to_string() } else { lv.iter().map(|x| x.to_string()).collect::<Vec<_>>().join(".") }));
        }
        let d = stage_dump(&g, None, "precedence");
        if !d.starts_with("ok ") {
            h.hit("tiers:stage-error");
            continue;
        }
        h.hit("tiers:ok");
        st.case(&format!("tiers {}", spec.join(";")), &sexp_hex_after(&d, "nt").join(","));
    }
    let corr_cases = st.count;
    st.finish();

    // ---------------------------------------------------------------- (2) renamings through the real Configuration
    let base = base_names();
    let mut pairs = 0usize;
    let mut shape_checked = 0usize;
    let mut distinct = std::collections::BTreeSet::new();
    let mut compiled_candidates: Vec<(usize, Names, Option<String>)> = Vec::new();
    let mut sample = String::new();
    for i in 0..o.n / 4 {
        let t = i % N_TEMPLATES;
        let monotone = r.chance(2, 3);
        let unprefixed = r.chance(1, 5);
        let names = gen_renaming(&mut r, monotone, unprefixed);
        let ga = inst(t, &base);
        let gb = inst(t, &names);
        distinct.insert(hash(&gb));
        let ra = generate_parser(&gdir, "a", &ga, |_| {});
        let rb = generate_parser(&gdir, "b", &gb, |_| {});
        pairs += 1;
        h.hit(&format!("template:{t}"));
        if sample.is_empty() && i == 3 {
            sample = gb.clone();
        }
        match (&ra, &rb) {
            (Ok(a), Ok(b)) => {
                h.hit("pair:both-accepted");
                if monotone {
                    // informational only: item order in the generated file follows name order (also relative to
                    // generated names), so equality up to renaming is not implied by hygiene
                    shape_checked += 1;
                    if canon_stream(body(a)) == canon_stream(body(b)) {
                        h.hit("shape:equal-up-to-first-occurrence-renaming");
                    } else {
                        h.hit("shape:differs (item order / coinciding words)");
                    }
                }
                if compiled_candidates.len() < n_rustc {
                    compiled_candidates.push((t, names.clone(), None));
                }
            }
            (Err(_), Err(_)) => h.hit("pair:both-rejected"),
            (x, y) => {
                h.hit("pair:accept-differs");
                let msg = y.as_ref().err().cloned().unwrap_or_default();
                viols.push(Viol {
                    // a user nonterminal that happens to be called like a precedence tier `{N}{level}` is the known collision
                    fingerprint: if t == 0 && msg.contains("two nonterminals declared with the name") { "tier-name-collision".to_string() } else { format!("rename-accept:t{t}:{:016x}", hash(&gb)) },
                    what: "an injective renaming of the user's identifiers changes whether lalrpop accepts the grammar".into(),
                    fields: vec![("grammar_a".into(), ga.clone()), ("grammar_b".into(), gb.clone()),
                                 ("lalrpop_on_a".into(), x.as_ref().map(|_| "accepted".to_string()).unwrap_or_else(|e| e.clone())),
                                 ("lalrpop_on_b".into(), y.as_ref().map(|_| "accepted".to_string()).unwrap_or_else(|e| e.clone()))],
                });
            }
        }
    }

    // deterministic role probes: each CamelCase item name of the generated module in each role
    let mut forced: Vec<(usize, Names, Option<String>)> = Vec::new();
    for u in POOL_UNPREFIXED.iter().take(if n_rustc >= 24 { 4 } else { 1 }) {
        for role in 0..4 {
            let mut nm = base_names();
            let t = match role {
                0 => { nm.nt[0] = u.to_string(); 0 }
                1 => { nm.b[0] = u.to_string(); 4 }
                2 => { nm.p = u.to_string(); 2 }
                _ => { nm.t = u.to_string(); 3 }
            };
            let gb = inst(t, &nm);
            let ra = generate_parser(&gdir, "a", &inst(t, &base), |_| {});
            let rb = generate_parser(&gdir, "b", &gb, |_| {});
            h.hit("probe:unprefixed-name-in-role");
            if ra.is_ok() != rb.is_ok() {
                viols.push(Viol {
                    fingerprint: format!("rename-accept:role{role}:{u}"),
                    what: "an injective renaming of the user's identifiers changes whether lalrpop accepts the grammar".into(),
                    fields: vec![("grammar_a".into(), inst(t, &base)), ("grammar_b".into(), gb), ("lalrpop_on_b".into(), rb.map(|_| "accepted".to_string()).unwrap_or_else(|e| e))],
                });
            } else if ra.is_ok() && n_rustc > 0 {
                forced.push((t, nm, Some(format!("{u}:{}", ["nonterminal", "binding", "grammar-parameter", "type-parameter"][role]))));
            }
        }
    }
    forced.extend(compiled_candidates.drain(..));
    compiled_candidates = forced;

    // deterministic probe: tier name collision
    {
        let g = |helper: &str| format!("grammar;\npub E: i32 = {{\n    #[precedence(level=\"1\")]\n    <n:Num> => n,\n    #[precedence(level=\"2\")] #[assoc(side=\"left\")]\n    <l:E> \"+\" <r:E> => l + r,\n}};\nNum: i32 = {{ \"1\" => 1, \"(\" <{helper}> \")\" }};\n{helper}: i32 = {{ \"2\" => 2 }};\n");
        let (ga, gb) = (g("Helper"), g("E1"));
        let ra = generate_parser(&gdir, "pa", &ga, |_| {});
        let rb = generate_parser(&gdir, "pb", &gb, |_| {});
        if ra.is_ok() != rb.is_ok() {
            viols.push(Viol {
                fingerprint: "tier-name-collision".into(),
                what: "precedence tier names `{N}{level}` are not prefixed: renaming the nonterminal `Helper` to `E1` next to a nonterminal `E` with levels 1 and 2 makes lalrpop reject the grammar".into(),
                fields: vec![("grammar_a".into(), ga), ("grammar_b".into(), gb),
                             ("lalrpop_on_a".into(), ra.map(|_| "accepted".to_string()).unwrap_or_else(|e| e)),
                             ("lalrpop_on_b".into(), rb.map(|_| "accepted".to_string()).unwrap_or_else(|e| e))],
            });
        }
    }

    // ---------------------------------------------------------------- (3) rustc sample
    let mut compiled = 0usize;
    let mut outputs_compared = 0usize;
    let mut cands = compiled_candidates.clone();
    let mut attempt = 0;
    while n_rustc > 0 && !cands.is_empty() && attempt < 4 {
        attempt += 1;
        let mut files: Vec<(String, String)> = Vec::new();
        let mut main = String::from("#![allow(warnings)]\n");
        let mut body_main = String::from("fn main() {\n");
        for (k, (t, names, _)) in cands.iter().enumerate() {
            for (side, nm) in [("a", &base), ("b", names)] {
                let text = inst(*t, nm);
                if let Ok(src) = generate_parser(&gdir, "m", &text, |_| {}) {
                    files.push((format!("src/g{k}{side}.rs"), src));
                    writeln!(main, "mod g{k}{side};").unwrap();
                    for inp in INPUTS[*t] {
                        writeln!(body_main, "    {{ let input = {inp:?}; println!(\"{k} {side} {{}}\", match g{k}{side}::{} {{ Ok(v) => format!(\"ok {{:?}}\", v), Err(e) => format!(\"err {{:?}}\", e) }}); }}", call(*t, nm)).unwrap();
                    }
                }
            }
        }
        body_main.push_str("}\n");
        main.push_str(&body_main);
        files.push(("src/main.rs".into(), main));
        let cdir = o.out.join(format!("crate{attempt}"));
        match build_scratch_crate(&cdir, "hyg_scratch", &files) {
            Ok(exe) => {
                compiled = cands.len();
                let out = std::process::Command::new(exe).output().unwrap();
                let text = String::from_utf8_lossy(&out.stdout).into_owned();
                let mut by: std::collections::BTreeMap<(String, String), Vec<String>> = Default::default();
                for l in text.lines() {
                    let mut p = l.splitn(3, ' ');
                    let (k, side, rest) = (p.next().unwrap_or(""), p.next().unwrap_or(""), p.next().unwrap_or(""));
                    by.entry((k.to_string(), side.to_string())).or_default().push(rest.to_string());
                }
                for (k, (t, names, _)) in cands.iter().enumerate() {
                    let a = by.get(&(k.to_string(), "a".to_string()));
                    let b = by.get(&(k.to_string(), "b".to_string()));
                    outputs_compared += a.map(|v| v.len()).unwrap_or(0);
                    h.hit("rustc:pair-run");
                    if a != b || a.is_none() {
                        viols.push(Viol {
                            fingerprint: format!("rename-results:t{t}"),
                            what: "parse results differ between a grammar and its renamed version".into(),
                            fields: vec![("grammar_a".into(), inst(*t, &base)), ("grammar_b".into(), inst(*t, names)),
                                         ("results_a".into(), format!("{a:?}")), ("results_b".into(), format!("{b:?}"))],
                        });
                    }
                }
                break;
            }
            Err(e) => {
                // find every module that does not compile, report them, drop them, try again with the rest
                let lines: Vec<&str> = e.lines().collect();
                let mut culprits: Vec<(usize, bool, String)> = Vec::new();
                let mut last_error = String::new();
                for l in &lines {
                    if l.starts_with("error") {
                        last_error = l.to_string();
                    }
                    if let Some(pos) = l.find("--> src/g") {
                        let rest = &l[pos + 9..];
                        let digits: String = rest.chars().take_while(|c| c.is_ascii_digit()).collect();
                        if let Ok(k) = digits.parse::<usize>() {
                            let is_b = rest[digits.len()..].starts_with('b');
                            if !culprits.iter().any(|c| c.0 == k) {
                                culprits.push((k, is_b, last_error.clone()));
                            }
                        }
                    }
                }
                if culprits.is_empty() || culprits.iter().any(|c| c.0 >= cands.len()) {
                    let first: String = lines.iter().filter(|l| l.starts_with("error") || l.contains("-->")).take(6).cloned().collect::<Vec<_>>().join("\n");
                    viols.push(Viol { fingerprint: "rename-rustc:unattributed".into(), what: "scratch crate does not compile".into(), fields: vec![("rustc".into(), first)] });
                    break;
                }
                for (k, is_b, err) in &culprits {
                    let (t, names, label) = cands[*k].clone();
                    h.hit("rustc:module-does-not-compile");
                    let code: String = err.split(':').next().unwrap_or("").to_string();
                    let fp = match (&label, is_b) {
                        (Some(l), true) => format!("unprefixed-name:{l}"),
                        _ => format!("rename-rustc:{}:t{t}:{}", if *is_b { "renamed" } else { "base" }, code.trim()),
                    };
                    viols.push(Viol {
                        fingerprint: fp,
                        what: if *is_b { "a renamed grammar that lalrpop accepts does not compile (its conventional version does)".into() } else { "template does not compile".into() },
                        fields: vec![("grammar_a".into(), inst(t, &base)), ("grammar_b".into(), inst(t, &names)), ("rustc".into(), err.clone())],
                    });
                }
                let mut ks: Vec<usize> = culprits.iter().map(|c| c.0).collect();
                ks.sort();
                for k in ks.into_iter().rev() {
                    cands.remove(k);
                }
            }
        }
    }

    let mut vf = String::new();
    for v in &viols {
        let mut f = format!("{{\"fingerprint\":{},\"what\":{}", json_str(&v.fingerprint), json_str(&v.what));
        for (k, val) in &v.fields {
            write!(f, ",{}:{}", json_str(k), json_str(val)).unwrap();
        }
        f.push_str("}\n");
        vf.push_str(&f);
    }
    std::fs::write(o.out.join("violations.jsonl"), vf).unwrap();
    let pl: Vec<String> = prefix_lens.iter().map(|(k, v)| format!("\"{k}\":{v}")).collect();
    println!(
        "{{\"correspondence_cases\":{corr_cases},\"pairs\":{pairs},\"shape_checked\":{shape_checked},\"distinct_renamed_grammars\":{},\"compiled_pairs\":{compiled},\"outputs_compared\":{outputs_compared},\"violations\":{},\"prefix_lengths\":{{{}}},\"sample_grammar\":{},\"hist\":{}}}",
        distinct.len(),
        viols.len(),
        pl.join(","),
        json_str(&sample),
        h.json()
    );
}
