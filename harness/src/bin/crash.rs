//! C22: real crashes of the generator.  For every crash point of a set of scenarios a child process
//! runs the real `Configuration::process_file` and is killed (RLIMIT_FSIZE → SIGXFSZ, or the guarded
//! crash points `LALRPOP_VERIF_CRASH_AT`) or gets a failing write (SIGXFSZ ignored → EFBIG); then a
//! normal non-forced build runs and the result is compared with a forced build (property) and with
//! `lpm_build` (crash.req / crash.impl).  Findings: crash.findings (JSON lines).
//!
//! modes: (master) `crash --seed S --out DIR [--workers W] [--exhaustive] [--only SCEN:POINT]`
//!        (worker) `crash … --slice K/W`      (child) `crash child DIR FORCE REPORT`
#[path = "wpd_common/mod.rs"]
mod common;
use common::*;
use std::fs;
use std::io::Write;
use std::path::{Path, PathBuf};
use std::process::{Command, Stdio};
use verif_harness::*;

unsafe extern "C" {
    fn setrlimit(resource: i32, rlim: *const [u64; 2]) -> i32;
    fn signal(sig: i32, handler: usize) -> usize;
    fn getrlimit(resource: i32, rlim: *mut [u64; 2]) -> i32;
    fn fork() -> i32;
    fn waitpid(pid: i32, status: *mut i32, options: i32) -> i32;
    fn _exit(code: i32) -> !;
}
const RLIMIT_FSIZE: i32 = 1;
const RLIMIT_CORE: i32 = 4;
const SIGXFSZ: i32 = 25;
const SIG_IGN: usize = 1;

#[derive(Clone, Debug)]
enum Point {
    /// file size limit n; kill = SIGXFSZ default action, else the write fails with EFBIG
    Limit(u64, bool),
    Named(&'static str),
}

impl Point {
    fn label(&self) -> String {
        match self {
            Point::Limit(n, true) => format!("limit:{n}:kill"),
            Point::Limit(n, false) => format!("limit:{n}:efbig"),
            Point::Named(s) => format!("named:{s}"),
        }
    }
}

#[derive(Clone)]
struct Scenario {
    name: String,
    text: Vec<u8>,
    /// content of the `.rs` file before the interrupted build
    pre: Option<Vec<u8>>,
    force: bool,
    report: bool,
    /// the grammar is replaced by this text after the crash, before the normal build
    after: Option<Vec<u8>>,
    /// a stale `<name>.rs.tmp` planted before the (interrupted) build
    pre_tmp: Option<Vec<u8>>,
    /// few crash points: the named boundaries and a sample of byte offsets
    sparse: bool,
}

const NAMED: &[&str] = &[
    "after_needs_rebuild",
    "after_remove",
    "after_generate",
    "after_create",
    "after_version_line",
    "after_hash_line",
    "after_body",
    "after_rename",
];

const SMALL: &str = "grammar;\npub T: () = \"a\" => ();\n";
const MEDIUM: &str = r#"grammar;
pub Expr: i64 = {
    <l:Expr> "+" <r:Factor> => l + r,
    <l:Expr> "-" <r:Factor> => l - r,
    Factor,
};
Factor: i64 = {
    <l:Factor> "*" <r:Term> => l * r,
    <l:Factor> "/" <r:Term> => l / r,
    Term,
};
Term: i64 = {
    r"[0-9]+" => 0,
    "(" <Expr> ")",
    "-" <Term> => -<>,
    "if" <c:Expr> "then" <a:Expr> "else" <b:Term> => if c != 0 { a } else { b },
};
pub List: Vec<i64> = { <mut v:(<Expr> ",")*> <e:Expr?> => { v.extend(e); v } };
"#;

fn child_main(args: &[String]) -> ! {
    let dir = PathBuf::from(&args[0]);
    let force = args[1] == "1";
    let report = args[2] == "1";
    let r = real_build(&dir, 0, force, report);
    std::process::exit(if r.is_ok() { 0 } else { 1 });
}

/// Run the real build in a forked copy of this (single-threaded) process with the crash
/// condition armed; returns how the child ended.
fn run_child(dir: &Path, sc: &Scenario, pt: &Point) -> String {
    let _ = std::io::stdout().flush();
    if let Point::Limit(n, false) = pt {
        // "a write failing at byte n": no process boundary needed. Soft limit only, SIGXFSZ ignored,
        // the write that would grow a file beyond n bytes is cut short / fails with EFBIG.
        unsafe {
            let mut old = [0u64, 0u64];
            getrlimit(RLIMIT_FSIZE, &mut old);
            signal(SIGXFSZ, SIG_IGN);
            let l = [*n, old[1]];
            setrlimit(RLIMIT_FSIZE, &l);
            let r = real_build(dir, 0, sc.force, sc.report);
            setrlimit(RLIMIT_FSIZE, &old);
            return if r.is_ok() { "ret-ok".into() } else { "ret-err".into() };
        }
    }
    unsafe {
        let pid = fork();
        if pid < 0 {
            return "fork-error".into();
        }
        if pid == 0 {
            let zero = [0u64, 0u64];
            setrlimit(RLIMIT_CORE, &zero);
            match pt {
                Point::Limit(n, kill) => {
                    let l = [*n, *n];
                    setrlimit(RLIMIT_FSIZE, &l);
                    if !*kill {
                        signal(SIGXFSZ, SIG_IGN);
                    }
                }
                Point::Named(name) => std::env::set_var("LALRPOP_VERIF_CRASH_AT", name),
            }
            let r = real_build(dir, 0, sc.force, sc.report);
            _exit(if r.is_ok() { 0 } else { 1 });
        }
        let mut status: i32 = 0;
        waitpid(pid, &mut status, 0);
        if status & 0x7f == 0 {
            format!("exit{}", (status >> 8) & 0xff)
        } else {
            format!("sig{}", status & 0x7f)
        }
    }
}

fn setup(dir: &Path, sc: &Scenario) {
    fs::create_dir_all(dir).unwrap();
    let _ = fs::remove_file(rspath(dir, 0));
    let _ = fs::remove_file(reppath(dir, 0));
    let _ = fs::remove_file(tmppath(dir, 0));
    fs::write(gpath(dir, 0), &sc.text).unwrap();
    if let Some(p) = &sc.pre {
        fs::write(rspath(dir, 0), p).unwrap();
    }
    if let Some(p) = &sc.pre_tmp {
        fs::write(tmppath(dir, 0), p).unwrap();
    }
}

fn scenarios(oracle: &mut Oracle, exhaustive: bool) -> Vec<Scenario> {
    let small = SMALL.as_bytes().to_vec();
    let medium = MEDIUM.as_bytes().to_vec();
    let other = b"grammar;\npub T: () = \"b\" => ();\n".to_vec();
    let stale = oracle.get(&other).full;
    let cur_small = oracle.get(&small).full;
    let conflict = b"grammar;\npub E: () = { E \"+\" E => (), \"n\" => () };\n".to_vec();
    let mut v = vec![
        Scenario { name: "small-none".into(), text: small.clone(), pre: None, force: false, report: false, after: None, pre_tmp: None, sparse: false },
        Scenario { name: "small-stale".into(), text: small.clone(), pre: stale.clone(), force: false, report: false, after: None, pre_tmp: None, sparse: false },
        Scenario { name: "small-none-report".into(), text: small.clone(), pre: None, force: false, report: true, after: None, pre_tmp: None, sparse: false },
        Scenario { name: "small-current-forced".into(), text: small.clone(), pre: cur_small, force: true, report: false, after: None, pre_tmp: None, sparse: false },
        Scenario { name: "medium-none".into(), text: medium.clone(), pre: None, force: false, report: false, after: None, pre_tmp: None, sparse: false },
        Scenario { name: "conflict-stale-report".into(), text: conflict, pre: stale.clone(), force: false, report: true, after: None, pre_tmp: None, sparse: false },
    ];
    // the grammar changes between the interrupted build and the next one (shorter / longer output), and a
    // stale temporary file is present before a build: whatever an earlier build left in `<name>.rs.tmp`
    // must not show up in the output
    let med_full = oracle.get(&medium).full;
    v.push(Scenario { name: "medium-then-small".into(), text: medium.clone(), pre: None, force: false, report: false,
                      after: Some(small.clone()), pre_tmp: None, sparse: true });
    v.push(Scenario { name: "small-then-medium".into(), text: small.clone(), pre: stale.clone(), force: false, report: false,
                      after: Some(medium.clone()), pre_tmp: None, sparse: true });
    v.push(Scenario { name: "small-stale-tmp-planted".into(), text: small.clone(), pre: None, force: false, report: false,
                      after: None, pre_tmp: med_full.clone(), sparse: true });
    v.push(Scenario { name: "medium-then-small-tmp-planted-forced".into(), text: medium.clone(), pre: stale.clone(), force: true,
                      report: false, after: Some(small.clone()), pre_tmp: med_full, sparse: true });
    if exhaustive {
        // one `pub` symbol only: with several, the report file is truncated and rewritten per symbol and the
        // forced-build oracle sees only the last report
        let medium1 = MEDIUM.replace("pub List", "List").into_bytes();
        let _ = medium;
        v.push(Scenario { name: "medium-stale-report".into(), text: medium1, pre: stale, force: false, report: true, after: None, pre_tmp: None, sparse: false });
    }
    v
}

/// crash points of a scenario: all named points, every byte limit of the header region and around
/// the end, and every `stride`-th byte in between (stride 1 = exhaustive)
fn points(total: u64, hdr: u64, stride: u64, sparse: bool, rng: &mut Rng) -> Vec<Point> {
    let mut v: Vec<Point> = NAMED.iter().map(|n| Point::Named(n)).collect();
    if sparse {
        // boundaries of the writes, the file end, and a sample of offsets in every region
        let mut ns = vec![0, 1, hdr.saturating_sub(1), hdr, hdr + 1, total.saturating_sub(1), total, total + 1];
        for _ in 0..stride {
            ns.push(rng.below((total + 2) as usize) as u64);
            ns.push(rng.below((hdr + 2) as usize) as u64);
        }
        for n in ns {
            v.push(Point::Limit(n, rng.chance(1, 6)));
        }
        return v;
    }
    let mut n = 0u64;
    while n <= total + 1 {
        let dense = n <= hdr + 48 || n + 24 >= total;
        // kill (forked child, SIGXFSZ) is expensive: every dense point, one in 24 elsewhere
        let kill = rng.chance(1, 24);
        v.push(Point::Limit(n, kill));
        if dense && !kill {
            v.push(Point::Limit(n, true));
        }
        n += if dense { 1 } else { 1 + rng.below((2 * stride - 1) as usize) as u64 };
    }
    v
}

struct Task {
    scen: usize,
    point: Point,
}

fn opt_val(extra: &[String], key: &str) -> Option<String> {
    extra.iter().position(|a| a == key).map(|k| extra[k + 1].clone())
}

fn main() {
    let argv: Vec<String> = std::env::args().collect();
    if argv.len() > 1 && argv[1] == "child" {
        child_main(&argv[2..]);
    }
    let opts = parse_opts();
    let mut stats_out = silence_stdio();
    let exhaustive = opts.extra.iter().any(|a| a == "--exhaustive");
    let workers: usize = opt_val(&opts.extra, "--workers").map(|s| s.parse().unwrap()).unwrap_or(8);
    let slice = opt_val(&opts.extra, "--slice");
    let only = opt_val(&opts.extra, "--only");
    let variant = opt_val(&opts.extra, "--variant").unwrap_or_else(|| "old".into());
    let root = opts.out.join("crash");
    fs::create_dir_all(&root).unwrap();
    let mut oracle = Oracle::new(root.join(format!("oracle-{}", slice.clone().unwrap_or_default().replace('/', "_"))));
    let scens = scenarios(&mut oracle, exhaustive);

    // deterministic task list (identical in master and workers)
    let mut rng = Rng::new(opts.seed);
    let mut tasks: Vec<Task> = vec![];
    let mut scen_info = vec![];
    for (si, sc) in scens.iter().enumerate() {
        let o = oracle.get(&sc.text);
        let total = o.full.as_ref().map(|f| f.len() as u64).unwrap_or(0);
        let hdr = (version_header().len() + 1 + o.hash.len() + 1) as u64;
        let replen = o.reports.last().map(|r| r.len() as u64).unwrap_or(0);
        let top = total.max(if sc.report { replen } else { 0 });
        let stride = if exhaustive {
            match sc.name.as_str() {
                "small-none" | "small-stale" | "conflict-stale-report" => 1,
                "small-none-report" | "small-current-forced" => 2,
                "medium-none" => 7,
                _ => 13,
            }
        } else if sc.name == "small-none" {
            3
        } else if top > 40_000 {
            211
        } else {
            61
        };
        let stride = if sc.sparse { if exhaustive { 150 } else { 12 } } else { stride };
        let pts = points(top, hdr, stride, sc.sparse, &mut rng);
        scen_info.push((sc.name.clone(), total, hdr, pts.len()));
        for p in pts {
            if let Some(o) = &only {
                if *o != format!("{}:{}", sc.name, p.label()) {
                    continue;
                }
            }
            tasks.push(Task { scen: si, point: p });
        }
    }

    if let Some(sl) = slice {
        // ---------------------------------------------------------------- worker
        let (k, w) = sl.split_once('/').unwrap();
        let (k, w): (usize, usize) = (k.parse().unwrap(), w.parse().unwrap());
        let dir = root.join(format!("w{k}"));
        let mut out = fs::File::create(root.join(format!("impl.{k}"))).unwrap();
        let mut fnd = fs::File::create(root.join(format!("findings.{k}"))).unwrap();
        for (ti, t) in tasks.iter().enumerate() {
            if ti % w != k {
                continue;
            }
            let sc = &scens[t.scen];
            let final_text = sc.after.clone().unwrap_or_else(|| sc.text.clone());
            let o = oracle.get(&final_text);
            setup(&dir, sc);
            mark(&dir, 1);
            let status = run_child(&dir, sc, &t.point);
            let mut a1 = format!("crash | {}", show_state(&dir, 1, &fresh_flags(&dir, 1)));
            let crashed = fs::read(rspath(&dir, 0)).ok();
            if let Some(t2) = &sc.after {
                // the grammar is edited after the crash
                mark(&dir, 1);
                fs::write(gpath(&dir, 0), t2).unwrap();
                a1 = format!("{a1}\t- | {}", show_state(&dir, 1, &fresh_flags(&dir, 1)));
            }
            mark(&dir, 1);
            let res = real_build(&dir, 0, false, sc.report);
            let fresh = fresh_flags(&dir, 1);
            let a2 = format!("{} | {}", if res.is_ok() { "ok" } else { "err" }, show_state(&dir, 1, &fresh));
            writeln!(out, "{ti}\t{a1}\t{a2}").unwrap();
            // property: after the normal build the output is what a forced build writes
            let cur = fs::read(rspath(&dir, 0)).ok();
            let mut kind: Option<&str> = None;
            if cur != o.full {
                kind = Some(match (&cur, &o.full) {
                    (Some(c), Some(f)) if f.starts_with(c) => "truncated-output-accepted",
                    (Some(c), Some(f)) if c.starts_with(f) => "stale-temporary-file-tail-in-output",
                    (Some(_), None) => "output-left-for-failing-grammar",
                    (None, Some(_)) => "no-output-after-rebuild",
                    _ => "wrong-output-after-rebuild",
                });
            } else if res.is_ok() != o.full.is_some() {
                kind = Some("rebuild-result-differs-from-forced-build");
            } else if sc.report && o.full.is_some() {
                let rep = fs::read(reppath(&dir, 0)).ok();
                if rep.as_ref() != o.reports.last() {
                    kind = Some("report-not-complete-after-rebuild");
                }
            }
            if let Some(kind) = kind {
                writeln!(
                    fnd,
                    "{{\"kind\":{},\"scenario\":{},\"point\":{},\"child\":{},\"crash_state_bytes\":{},\"after_rebuild_bytes\":{},\"forced_bytes\":{},\"rebuild\":{},\"grammar\":{},\"pre_output\":{},\"force\":{},\"report\":{},\"stale_tmp_planted_bytes\":{},\"grammar_replaced_after_crash\":{}}}",
                    json_str(kind),
                    json_str(&sc.name),
                    json_str(&t.point.label()),
                    json_str(&status),
                    crashed.as_ref().map(|c| c.len() as i64).unwrap_or(-1),
                    cur.as_ref().map(|c| c.len() as i64).unwrap_or(-1),
                    o.full.as_ref().map(|c| c.len() as i64).unwrap_or(-1),
                    json_str(if res.is_ok() { "ok" } else { "err" }),
                    json_str(&format!(
                        "{}{}{}",
                        String::from_utf8_lossy(&sc.text),
                        if sc.after.is_some() { "\n=== replaced after the crash by ===\n" } else { "" },
                        sc.after.as_ref().map(|t| String::from_utf8_lossy(t).to_string()).unwrap_or_default()
                    )),
                    json_str(match &sc.pre { None => "none", Some(p) if Some(p) == o.full.as_ref() => "current", Some(_) => "stale (output of another grammar)" }),
                    sc.force,
                    sc.report,
                    sc.pre_tmp.as_ref().map(|c| c.len() as i64).unwrap_or(-1),
                    sc.after.is_some()
                )
                .unwrap();
            }
        }
        return;
    }

    // -------------------------------------------------------------------- master
    let exe = std::env::current_exe().unwrap();
    let mut kids = vec![];
    for k in 0..workers {
        let mut c = Command::new(&exe);
        c.args(["--seed", &opts.seed.to_string(), "--out", opts.out.to_str().unwrap(), "--slice", &format!("{k}/{workers}")]);
        if exhaustive {
            c.arg("--exhaustive");
        }
        if let Some(o) = &only {
            c.args(["--only", o]);
        }
        kids.push(c.stdout(Stdio::null()).stderr(Stdio::null()).spawn().unwrap());
    }
    let mut worker_fail = 0;
    for mut k in kids {
        if !k.wait().map(|s| s.success()).unwrap_or(false) {
            worker_fail += 1;
        }
    }
    // merge answers
    let mut answers: Vec<Option<Vec<String>>> = (0..tasks.len()).map(|_| None).collect();
    let mut findings: Vec<String> = vec![];
    for k in 0..workers {
        if let Ok(t) = fs::read_to_string(root.join(format!("impl.{k}"))) {
            for line in t.lines() {
                let mut it = line.split('\t');
                let ti: usize = it.next().unwrap().parse().unwrap();
                answers[ti] = Some(it.map(|x| x.to_string()).collect());
            }
        }
        if let Ok(t) = fs::read_to_string(root.join(format!("findings.{k}"))) {
            findings.extend(t.lines().map(|s| s.to_string()));
        }
    }
    // request / implementation streams
    let mut st = Streams::create(&opts.out, "crash");
    st.case(&format!("variant {}", variant.replace(',', " ")), "ok");
    st.case(&format!("version {}", enc_str(&version_header())), "ok");
    let mdir = root.join("m");
    let mut cur_scen = usize::MAX;
    let mut missing = 0;
    let mut hist = Hist::default();
    for (ti, t) in tasks.iter().enumerate() {
        let sc = &scens[t.scen];
        if t.scen != cur_scen {
            cur_scen = t.scen;
            st.case(&oracle.def_line(&sc.text), "def hyp=true");
            if let Some(t2) = &sc.after {
                st.case(&oracle.def_line(t2), "def hyp=true");
            }
            st.case("reset 1", "ok");
            setup(&mdir, sc);
            let _ = fs::remove_file(rspath(&mdir, 0));
            let _ = fs::remove_file(tmppath(&mdir, 0));
            st.case(&format!("edit 0 {}", enc_bytes(&sc.text)), &format!("- | {}", show_state(&mdir, 1, &[false])));
            if let Some(p) = &sc.pre {
                fs::write(rspath(&mdir, 0), p).unwrap();
                st.case(&format!("setout 0 {}", enc_bytes(p)), &format!("- | {}", show_state(&mdir, 1, &[true])));
            }
            if let Some(p) = &sc.pre_tmp {
                fs::write(tmppath(&mdir, 0), p).unwrap();
                st.case(&format!("settmp 0 {}", enc_bytes(p)), &format!("- | {}", show_state(&mdir, 1, &[false])));
            }
            st.case("save", "ok");
        }
        let flags = format!("{}{}", if sc.force { " force" } else { "" }, if sc.report { " report" } else { "" });
        let want = if sc.after.is_some() { 3 } else { 2 };
        let ans: Vec<String> = match &answers[ti] {
            Some(a) if a.len() == want => a.clone(),
            _ => {
                missing += 1;
                vec!["<missing>".to_string(); want]
            }
        };
        let a1 = ans[0].clone();
        let a2 = ans[want - 1].clone();
        st.case("restore", "ok");
        match &t.point {
            Point::Limit(n, kill) => {
                hist.hit(if *kill { "limit:kill" } else { "limit:efbig" });
                st.case(&format!("crashlimit 0 {n}{flags}"), &a1)
            }
            Point::Named(name) => {
                hist.hit("named");
                st.case(&format!("crashat 0 {name}{flags}"), &a1)
            }
        }
        if let Some(t2) = &sc.after {
            st.case(&format!("edit 0 {}", enc_bytes(t2)), &ans[1]);
        }
        st.case(&format!("build 0{}", if sc.report { " report" } else { "" }), &a2);
    }
    let cases = st.count;
    st.finish();
    let mut f = fs::File::create(opts.out.join("crash.findings")).unwrap();
    for l in &findings {
        writeln!(f, "{l}").unwrap();
    }
    let info: Vec<String> = scen_info
        .iter()
        .map(|(n, total, hdr, pts)| format!("{{\"scenario\":{},\"output_bytes\":{total},\"header_bytes\":{hdr},\"crash_points\":{pts}}}", json_str(n)))
        .collect();
    writeln!(
        stats_out,
        "{{\"cases\":{cases},\"crash_points\":{},\"findings\":{},\"missing_answers\":{missing},\"worker_failures\":{worker_fail},\"scenarios\":[{}],\"hist\":{}}}",
        tasks.len(),
        findings.len(),
        info.join(","),
        hist.json()
    )
    .unwrap();
}
