//! C28 correspondence: real `lalrpop_util::ParseError` helpers vs the Lean model `lpm_err`.
//! Writes err.req / err.impl into --out; prints one JSON stats line.
use lalrpop_util::ParseError;
use verif_harness::*;

type PE = ParseError<i64, String, String>;

fn enc_expected(ex: &[String]) -> String {
    if ex.is_empty() {
        "-".into()
    } else {
        ex.iter().map(|s| enc_str(s)).collect::<Vec<_>>().join(",")
    }
}

fn enc_err(e: &PE) -> String {
    match e {
        ParseError::InvalidToken { location } => format!("IT:{location}"),
        ParseError::UnrecognizedEof { location, expected } => {
            format!("UE:{location}:{}", enc_expected(expected))
        }
        ParseError::UnrecognizedToken { token: (a, t, b), expected } => {
            format!("UT:{a}:{}:{b}:{}", enc_str(t), enc_expected(expected))
        }
        ParseError::ExtraToken { token: (a, t, b) } => format!("ET:{a}:{}:{b}", enc_str(t)),
        ParseError::User { error } => format!("US:{}", enc_str(error)),
    }
}

fn variant(e: &PE) -> &'static str {
    match e {
        ParseError::InvalidToken { .. } => "InvalidToken",
        ParseError::UnrecognizedEof { .. } => "UnrecognizedEof",
        ParseError::UnrecognizedToken { .. } => "UnrecognizedToken",
        ParseError::ExtraToken { .. } => "ExtraToken",
        ParseError::User { .. } => "User",
    }
}

const STRS: &[&str] = &["", "a", "b", "t0", "\"x\"", "r#\"\\d+\"#", "é", "a b", "`", "\n", "or", ","];

fn rand_str(r: &mut Rng) -> String {
    if r.chance(3, 4) {
        r.pick(STRS).to_string()
    } else {
        let n = r.below(6);
        (0..n)
            .map(|_| *r.pick(&['a', 'Z', '0', ' ', ',', '"', '\\', 'λ', '😀', '\t', ':', 'x']))
            .collect()
    }
}

fn rand_err(r: &mut Rng, big: bool) -> PE {
    let loc = |r: &mut Rng| if big { r.range(-1_000_000, 1_000_000) } else { r.range(0, 3) };
    let exp = |r: &mut Rng| {
        let n = if r.chance(1, 8) { r.below(12) } else { r.below(5) };
        (0..n).map(|_| rand_str(r)).collect::<Vec<_>>()
    };
    match r.below(5) {
        0 => ParseError::InvalidToken { location: loc(r) },
        1 => ParseError::UnrecognizedEof { location: loc(r), expected: exp(r) },
        2 => ParseError::UnrecognizedToken { token: (loc(r), rand_str(r), loc(r)), expected: exp(r) },
        3 => ParseError::ExtraToken { token: (loc(r), rand_str(r), loc(r)) },
        _ => ParseError::User { error: rand_str(r) },
    }
}

fn run_case(st: &mut Streams, h: &mut Hist, op: usize, k: i64, p: &str, e: PE) {
    let es = enc_err(&e);
    h.hit(&format!("variant:{}", variant(&e)));
    match op {
        0 => {
            h.hit("op:maploc-add");
            st.case(&format!("maploc add {k} {es}"), &enc_err(&e.map_location(|l| l + k)));
        }
        1 => {
            h.hit("op:maploc-mul");
            st.case(&format!("maploc mul {k} {es}"), &enc_err(&e.map_location(|l| l * k)));
        }
        2 => {
            h.hit("op:maploc-cnt");
            let mut n: i64 = 0;
            let r = e.map_location(|l| {
                let v = l * 10 + n;
                n += 1;
                v
            });
            st.case(&format!("maploc cnt {es}"), &format!("{} calls={n}", enc_err(&r)));
        }
        3 => {
            h.hit("op:maptok");
            st.case(
                &format!("maptok pre {} {es}", enc_str(p)),
                &enc_err(&e.map_token(|t| format!("{p}{t}"))),
            );
        }
        4 => {
            h.hit("op:maperr");
            st.case(
                &format!("maperr pre {} {es}", enc_str(p)),
                &enc_err(&e.map_error(|t| format!("{p}{t}"))),
            );
        }
        5 => {
            h.hit("op:display");
            st.case(&format!("display {es}"), &enc_str(&format!("{e}")));
        }
        _ => {
            h.hit("op:from");
            let r: PE = ParseError::from(p.to_string());
            st.case(&format!("from {}", enc_str(p)), &enc_err(&r));
        }
    }
}

fn main() {
    let o = parse_opts();
    let mut st = Streams::create(&o.out, "err");
    let mut h = Hist::default();
    let mut r = Rng::new(o.seed);
    // exhaustive part: locations 0..=2, tokens/errors from a 2-element set, expected lists of
    // length 0..=4 over a 2-element set, every operation
    let toks = ["a", "b"];
    let mut small: Vec<PE> = vec![];
    let mut exps: Vec<Vec<String>> = vec![vec![]];
    for len in 1..=4usize {
        for m in 0..(1u32 << len) {
            exps.push((0..len).map(|i| toks[((m >> i) & 1) as usize].to_string()).collect());
        }
    }
    for a in 0..=2i64 {
        small.push(ParseError::InvalidToken { location: a });
        for ex in &exps {
            small.push(ParseError::UnrecognizedEof { location: a, expected: ex.clone() });
        }
        for b in 0..=2i64 {
            for t in toks {
                small.push(ParseError::ExtraToken { token: (a, t.to_string(), b) });
                for ex in &exps {
                    small.push(ParseError::UnrecognizedToken {
                        token: (a, t.to_string(), b),
                        expected: ex.clone(),
                    });
                }
            }
        }
    }
    for t in toks {
        small.push(ParseError::User { error: t.to_string() });
    }
    let exhaustive = small.len() * 7;
    for e in &small {
        for op in 0..7 {
            run_case(&mut st, &mut h, op, 3, "p", e.clone());
        }
    }
    // random part
    for _ in 0..o.n {
        let big = r.chance(1, 2);
        let e = rand_err(&mut r, big);
        let op = r.below(7);
        let k = r.range(-5, 5);
        let p = rand_str(&mut r);
        run_case(&mut st, &mut h, op, k, &p, e);
    }
    let total = st.count;
    st.finish();
    println!(
        "{{\"cases\":{total},\"exhaustive_cases\":{exhaustive},\"random_cases\":{},\"hist\":{}}}",
        o.n,
        h.json()
    );
}
