//! C12/C18 correspondence: the real precedence pass (`expand_precedence`) and the real
//! `validate_precedence` (through `prevalidate::validate`) vs the Lean model `lpm_prec`.
//!
//! Streams (all into prec.req / prec.impl):
//!  * tame:  documented layouts; pipeline with validation (`stage_dump(resolve)` → model →
//!           `stage_dump(precedence)`), validator verdict vs model verdict
//!  * wild:  malformed attribute layers; expansion *without* prevalidation
//!           (`passes::resolve_unvalidated` → model → `passes::expand_unvalidated`), panics included
//! Prints one JSON stats line. `--replay FILE` runs the single grammar in FILE and prints its lines.
use lalrpop::verif_hooks as vh;
use std::collections::HashSet;
use verif_harness::*;

include!("../precgen.inc.rs");
use precgen::{Gen, Wild};

fn panic_msg(p: Box<dyn std::any::Any + Send>) -> String {
    p.downcast_ref::<String>()
        .cloned()
        .or_else(|| p.downcast_ref::<&str>().map(|s| s.to_string()))
        .unwrap_or_default()
}

/// canonical panic kind (the model prints the same words)
fn panic_kind(msg: &str) -> String {
    if msg.contains("unexpected associativity attribute on the first precedence level") {
        "firstLevelAssoc".into()
    } else if msg.contains("called `Option::unwrap()` on a `None` value") {
        "unwrapNone".into()
    } else if msg.contains("ParseIntError") {
        "levelParse".into()
    } else if msg.contains("ParseAssocError") {
        "assocParse".into()
    } else if let Some(rest) = msg.strip_prefix("ambiguous id `") {
        let id = rest.split('`').next().unwrap_or("");
        format!("ambiguousId {}", enc_str(id))
    } else if msg.contains("rest.next().is_none()") {
        "restNotEmpty".into()
    } else {
        format!("other {}", enc_str(msg))
    }
}

fn between<'a>(msg: &'a str, pre: &str, post: &str) -> Option<&'a str> {
    let a = msg.strip_prefix(pre)?;
    a.strip_suffix(post)
}

/// canonical validator verdict for the messages of `validate_precedence`; None = some other diagnostic
fn verr_kind(msg: &str) -> Option<String> {
    if msg == "missing precedence attribute on the first alternative" {
        return Some("missingFirst".into());
    }
    if let Some(v) = between(msg, "could not parse the precedence level `", "`, expected integer") {
        return Some(format!("levelParse {}", enc_str(v)));
    }
    if let Some(v) = between(msg, "invalid argument `", "` for precedence attribute, expected `level`") {
        return Some(format!("precArgName {}", enc_str(v)));
    }
    if msg == "missing argument for precedence attribute, expected `level`" {
        return Some("precNoArg".into());
    }
    if let Some(v) = between(
        msg,
        "could not parse the associativity `",
        "`, expected `left`, `right`, `none` or `all`",
    ) {
        return Some(format!("assocParse {}", enc_str(v)));
    }
    if let Some(v) = between(msg, "invalid argument `", "` for associativity attribute, expected `side`") {
        return Some(format!("assocArgName {}", enc_str(v)));
    }
    if msg == "missing argument for associativity attribute, expected `side`" {
        return Some("assocNoArg".into());
    }
    if let Some(v) = msg.strip_prefix("cannot set associativity on the first precedence level ") {
        return Some(format!("assocOnFirstLevel {v}"));
    }
    None
}

fn caught<F: FnOnce() -> String + std::panic::UnwindSafe>(f: F) -> Result<String, String> {
    std::panic::catch_unwind(f).map_err(panic_msg)
}

struct Out {
    st: Streams,
    h: Hist,
    distinct: HashSet<u64>,
    nontrivial: HashSet<u64>,
    pipeline_panics: Vec<String>,
}

fn fnv(s: &str) -> u64 {
    let mut h = 0xcbf29ce484222325u64;
    for b in s.bytes() {
        h ^= b as u64;
        h = h.wrapping_mul(0x100000001b3);
    }
    h
}

fn items_count(dump: &str) -> usize {
    dump.matches("(nt ").count()
}

/// one grammar through both streams' comparisons; `unvalidated` selects the hook pair
fn run_grammar(o: &mut Out, text: &str, unvalidated: bool) {
    // --- validator verdict (always through the real prevalidate) ---------------------------
    let parse = vh::stage_dump(text, None, "parse");
    let Some(parse_sexp) = parse.strip_prefix("ok ") else {
        o.h.hit("skip:parse-error");
        return;
    };
    let pre = vh::stage_dump(text, None, "prevalidate");
    let verdict = if pre.starts_with("ok ") {
        Some("ok".to_string())
    } else if let Some(hexmsg) = pre.strip_prefix("error prevalidate ") {
        let msg = dec_str(hexmsg).unwrap_or_default();
        verr_kind(&msg).map(|k| format!("error {k}"))
    } else {
        None
    };
    match &verdict {
        Some(v) => {
            o.h.hit(&format!("validate:{}", v.split(' ').take(2).collect::<Vec<_>>().join(" ")));
            let req = format!("validate {parse_sexp}");
            let k = fnv(&req);
            o.distinct.insert(k);
            if v != "ok" {
                o.nontrivial.insert(k);
            }
            o.st.case(&req, v);
        }
        None => o.h.hit("skip:other-prevalidate-error"),
    }
    // --- expansion ---------------------------------------------------------------------------
    let t1 = text.to_string();
    let resolved = if unvalidated {
        caught(move || vh::misc::passes::resolve_unvalidated(&t1, None))
    } else {
        caught(move || vh::stage_dump(&t1, None, "resolve"))
    };
    let resolved = match resolved {
        Ok(s) => s,
        Err(m) => {
            o.h.hit("skip:resolve-panicked");
            o.pipeline_panics.push(format!("resolve: {m}"));
            return;
        }
    };
    let Some(res_sexp) = resolved.strip_prefix("ok ") else {
        o.h.hit(if unvalidated { "skip:wild-resolve-error" } else { "skip:tame-rejected-before-precedence" });
        return;
    };
    let t2 = text.to_string();
    let expanded = if unvalidated {
        caught(move || vh::misc::passes::expand_unvalidated(&t2, None))
    } else {
        caught(move || vh::stage_dump(&t2, None, "precedence"))
    };
    let imp = match expanded {
        Ok(s) => s,
        Err(m) => {
            if !unvalidated {
                // a panic behind the validator: the C18 defect class (kept for the check to report)
                o.pipeline_panics.push(format!("{}\u{1}{}", m, text));
            }
            format!("panic {}", panic_kind(&m))
        }
    };
    let req = format!("expand {res_sexp}");
    let k = fnv(&req);
    o.distinct.insert(k);
    if imp.starts_with("panic") || (imp.starts_with("ok ") && items_count(&imp) > items_count(res_sexp)) {
        o.nontrivial.insert(k);
    }
    let tag = if imp.starts_with("ok ") {
        format!("expand:ok tiers+{}", items_count(&imp).saturating_sub(items_count(res_sexp)).min(6))
    } else {
        format!("expand:{}", imp.split(' ').take(2).collect::<Vec<_>>().join(" "))
    };
    o.h.hit(&tag);
    o.st.case(&req, &imp);
}

/// cfg stream: the segment of lower_helper behind conditional compilation (re-validation, resolve,
/// precedence) for a feature set; request = the grammar after cond_comp + resolve without any validation
fn run_cfg_grammar(o: &mut Out, text: &str, feats: &[&str]) {
    let pre = vh::stage_dump(text, Some(feats), "prevalidate");
    if !pre.starts_with("ok ") {
        o.h.hit("skip:cfg-stream-prevalidate-rejects");
        return;
    }
    let t1 = text.to_string();
    let f1: Vec<String> = feats.iter().map(|s| s.to_string()).collect();
    let f2 = f1.clone();
    let resolved = caught(move || {
        let fr: Vec<&str> = f1.iter().map(|s| s.as_str()).collect();
        vh::misc::passes::resolve_unvalidated(&t1, Some(&fr))
    });
    let Ok(resolved) = resolved else {
        o.h.hit("skip:resolve-panicked");
        return;
    };
    let Some(res_sexp) = resolved.strip_prefix("ok ") else {
        o.h.hit("skip:cfg-stream-resolve-error");
        return;
    };
    let t2 = text.to_string();
    let out = caught(move || {
        let fr: Vec<&str> = f2.iter().map(|s| s.as_str()).collect();
        vh::stage_dump(&t2, Some(&fr), "precedence")
    });
    let imp = match out {
        Ok(s) if s.starts_with("ok ") => s,
        Ok(s) => {
            if let Some(hexmsg) = s.strip_prefix("error revalidate ") {
                let msg = dec_str(hexmsg).unwrap_or_default();
                match verr_kind(&msg) {
                    Some(k) => format!("error {k}"),
                    None => format!("error other {hexmsg}"),
                }
            } else {
                o.h.hit("skip:cfg-stream-other-error");
                return;
            }
        }
        Err(m) => {
            o.pipeline_panics.push(format!("{}\u{1}{}\u{1}{}", m, text, feats.join(",")));
            format!("panic {}", panic_kind(&m))
        }
    };
    let req = format!("revalexpand {res_sexp}");
    let k = fnv(&req);
    o.distinct.insert(k);
    if !imp.starts_with("ok ") || items_count(&imp) > items_count(res_sexp) {
        o.nontrivial.insert(k);
    }
    o.h.hit(&format!("revalexpand:{}", imp.split(' ').take(2).collect::<Vec<_>>().join(" ").chars().take(40).collect::<String>()));
    o.st.case(&req, &imp);
}

// ------------------------------------------------------------------------------------------
// behavioural runs: random operator grammars compiled with rustc, parse trees vs the
// precedence-climbing oracle (`climb` requests of lpm_prec)

#[derive(Clone, Copy, PartialEq, Eq, Debug)]
enum Kind {
    BinLeft,
    BinRight,
    BinNone,
    PrefixRec,
    PrefixNone,
    PostfixRec,
    PostfixNone,
}

struct OpLevel {
    number: u32,
    kind: Kind,
    ops: Vec<&'static str>,
}

struct OpGrammar {
    levels: Vec<OpLevel>, // tightest first
    text: String,
    spec: String,
}

fn gen_op_grammar(r: &mut Rng) -> OpGrammar {
    let mut pool: Vec<&'static str> = vec!["+", "-", "*", "/", "^", "!", "~", "?", "%", "&", "|", "<", ">", "=", "@", "$"];
    let nlev = 1 + r.below(4);
    let mut numbers: Vec<u32> = vec![];
    let mut cur = r.below(3) as u32; // level of the atoms
    let atom_level = cur;
    for _ in 0..nlev {
        cur += 1 + r.below(4) as u32;
        numbers.push(cur);
    }
    let mut levels = vec![];
    for &number in &numbers {
        let kind = *r.pick(&[
            Kind::BinLeft, Kind::BinLeft, Kind::BinRight, Kind::BinRight, Kind::BinNone, Kind::PrefixRec, Kind::PrefixNone,
            Kind::PostfixRec, Kind::PostfixNone,
        ]);
        let nops = 1 + r.below(2);
        let mut ops = vec![];
        for _ in 0..nops {
            let i = r.below(pool.len());
            ops.push(pool.remove(i));
        }
        levels.push(OpLevel { number, kind, ops });
    }
    // alternatives as (level number, explicit assoc text or None, body); then laid out either grouped
    // per level (with inheritance) or interleaved with explicit attributes
    struct A {
        lvl: u32,
        assoc: Option<&'static str>,
        body: String,
    }
    let mut groups: Vec<Vec<A>> = vec![];
    let mut atoms = vec![A { lvl: atom_level, assoc: None, body: "<t:Term> => t".to_string() }];
    atoms.push(A { lvl: atom_level, assoc: None, body: "\"[\" <e:E> \"]\" => format!(\"[{e}]\")".to_string() });
    groups.push(atoms);
    for l in &levels {
        let mut g = vec![];
        for op in &l.ops {
            let (assoc, body): (Option<&'static str>, String) = match l.kind {
                Kind::BinLeft => (Some("left"), format!("<l:E> \"{op}\" <r:E> => format!(\"({{l}} {op} {{r}})\")")),
                Kind::BinRight => (Some("right"), format!("<l:E> \"{op}\" <r:E> => format!(\"({{l}} {op} {{r}})\")")),
                Kind::BinNone => (Some("none"), format!("<l:E> \"{op}\" <r:E> => format!(\"({{l}} {op} {{r}})\")")),
                Kind::PrefixRec => (*r.pick(&[None, Some("all"), Some("left"), Some("right")]), format!("\"{op}\" <e:E> => format!(\"({op} {{e}})\")")),
                Kind::PrefixNone => (Some("none"), format!("\"{op}\" <e:E> => format!(\"({op} {{e}})\")")),
                Kind::PostfixRec => (*r.pick(&[None, Some("all"), Some("left"), Some("right")]), format!("<e:E> \"{op}\" => format!(\"({{e}} {op})\")")),
                Kind::PostfixNone => (Some("none"), format!("<e:E> \"{op}\" => format!(\"({{e}} {op})\")")),
            };
            g.push(A { lvl: l.number, assoc, body });
        }
        groups.push(g);
    }
    let mut lines: Vec<String> = vec![];
    let grouped = r.chance(1, 2);
    if grouped {
        // groups in random order; inside a group the level (and an unchanged assoc) may be inherited
        let mut order: Vec<usize> = (0..groups.len()).collect();
        // the first alternative of the nonterminal must carry a precedence attribute: any group may come first
        for i in (1..order.len()).rev() {
            let j = r.below(i + 1);
            order.swap(i, j);
        }
        for gi in order {
            let mut prev_assoc: Option<&'static str> = None; // effective assoc of the previous alternative of this group
            for (k, a) in groups[gi].iter().enumerate() {
                let mut attrs = String::new();
                let eff = a.assoc.unwrap_or("all");
                let write_prec = k == 0 || r.chance(1, 3);
                if write_prec {
                    attrs.push_str(&format!("#[precedence(level=\"{}\")] ", a.lvl));
                    // a precedence attribute resets the associativity to `all`
                    if eff != "all" || (a.assoc.is_some() && r.chance(1, 2)) {
                        attrs.push_str(&format!("#[assoc(side=\"{eff}\")] "));
                    }
                } else {
                    // inherits the level; the associativity is inherited too unless written
                    let inherited = prev_assoc.unwrap_or("all");
                    if eff != inherited || r.chance(1, 3) {
                        attrs.push_str(&format!("#[assoc(side=\"{eff}\")] "));
                    }
                }
                if gi == 0 {
                    // atoms are on the lowest level: no assoc attribute allowed there
                    attrs = attrs.split("#[assoc").next().unwrap().to_string();
                }
                prev_assoc = Some(eff);
                lines.push(format!("    {attrs}{}", a.body));
            }
        }
    } else {
        let mut all: Vec<&A> = groups.iter().flatten().collect();
        for i in (1..all.len()).rev() {
            let j = r.below(i + 1);
            all.swap(i, j);
        }
        for a in all {
            let mut attrs = format!("#[precedence(level=\"{}\")] ", a.lvl);
            if let Some(s) = a.assoc {
                if a.lvl != atom_level {
                    attrs.push_str(&format!("#[assoc(side=\"{s}\")] "));
                }
            }
            lines.push(format!("    {attrs}{}", a.body));
        }
    }
    let text = format!(
        "grammar;\npub E: String = {{\n{},\n}};\nTerm: String = {{\n    <n:r\"n[0-9]\"> => n.to_string(),\n    \"(\" <e:E> \")\" => e,\n}};\n",
        lines.join(",\n")
    );
    let spec = levels
        .iter()
        .map(|l| {
            let k = match l.kind {
                Kind::BinLeft => "BL",
                Kind::BinRight => "BR",
                Kind::BinNone => "BN",
                Kind::PrefixRec => "PR",
                Kind::PrefixNone => "PN",
                Kind::PostfixRec => "SR",
                Kind::PostfixNone => "SN",
            };
            format!("{k}:{}", l.ops.join(","))
        })
        .collect::<Vec<_>>()
        .join(";");
    OpGrammar { levels, text, spec }
}

fn gen_expr(r: &mut Rng, g: &OpGrammar, depth: usize, out: &mut Vec<String>) {
    let bins: Vec<&str> = g.levels.iter().filter(|l| matches!(l.kind, Kind::BinLeft | Kind::BinRight | Kind::BinNone)).flat_map(|l| l.ops.iter().copied()).collect();
    let pres: Vec<&str> = g.levels.iter().filter(|l| matches!(l.kind, Kind::PrefixRec | Kind::PrefixNone)).flat_map(|l| l.ops.iter().copied()).collect();
    let posts: Vec<&str> = g.levels.iter().filter(|l| matches!(l.kind, Kind::PostfixRec | Kind::PostfixNone)).flat_map(|l| l.ops.iter().copied()).collect();
    let k = if depth >= 4 { 0 } else { r.below(10) };
    match k {
        0 | 1 | 2 => out.push(format!("n{}", r.below(4))),
        3 | 4 | 5 if !bins.is_empty() => {
            gen_expr(r, g, depth + 1, out);
            out.push(r.pick(&bins).to_string());
            gen_expr(r, g, depth + 1, out);
        }
        6 if !pres.is_empty() => {
            out.push(r.pick(&pres).to_string());
            gen_expr(r, g, depth + 1, out);
        }
        7 if !posts.is_empty() => {
            gen_expr(r, g, depth + 1, out);
            out.push(r.pick(&posts).to_string());
        }
        8 => {
            let (a, b) = if r.chance(2, 3) { ("(", ")") } else { ("[", "]") };
            out.push(a.into());
            gen_expr(r, g, depth + 1, out);
            out.push(b.into());
        }
        _ => out.push(format!("n{}", r.below(4))),
    }
}

fn run_e2e(opts: &Opts, ngrammars: usize, ninputs: usize) -> String {
    let mut r = Rng::new(opts.seed ^ 0xE2E);
    let mut st = Streams::create(&opts.out, "prece2e");
    let mut h = Hist::default();
    let gen_dir = opts.out.join("e2e_gen");
    let mut files: Vec<(String, String)> = vec![];
    let mut main = String::new();
    let mut accepted: Vec<(usize, OpGrammar, Vec<Vec<String>>)> = vec![];
    let mut rejected = 0;
    for gi in 0..ngrammars {
        let g = gen_op_grammar(&mut r);
        for l in &g.levels {
            h.hit(&format!("e2e-level:{:?}", l.kind));
        }
        h.hit(&format!("e2e-levels={}", g.levels.len()));
        match generate_parser(&gen_dir, &format!("g{gi}"), &g.text, |_| {}) {
            Ok(code) => {
                let mut inputs: Vec<Vec<String>> = vec![];
                for _ in 0..ninputs {
                    let mut toks = vec![];
                    gen_expr(&mut r, &g, 0, &mut toks);
                    if r.chance(1, 8) && !toks.is_empty() {
                        // damage: drop / duplicate a token
                        let i = r.below(toks.len());
                        if r.chance(1, 2) {
                            toks.remove(i);
                        } else {
                            let t = toks[i].clone();
                            toks.insert(i, t);
                        }
                    }
                    if toks.len() <= 40 {
                        inputs.push(toks);
                    }
                }
                files.push((format!("src/g{gi}.rs"), code));
                main.push_str(&format!("#[allow(warnings)] mod g{gi};\n"));
                accepted.push((gi, g, inputs));
            }
            Err(e) => {
                rejected += 1;
                h.hit(&format!("e2e-grammar-rejected:{}", e.chars().take(40).collect::<String>()));
            }
        }
    }
    main.push_str("fn main() {\n");
    for (gi, _, inputs) in &accepted {
        main.push_str(&format!("    {{ let p = g{gi}::EParser::new();\n      let inputs: &[&str] = &[\n"));
        for inp in inputs {
            main.push_str(&format!("        {:?},\n", inp.join(" ")));
        }
        main.push_str(&format!(
            "      ];\n      for (i, s) in inputs.iter().enumerate() {{ match p.parse(s) {{ Ok(t) => println!(\"{gi} {{i}} {{t}}\"), Err(_) => println!(\"{gi} {{i}} error\") }} }}\n    }}\n"
        ));
    }
    main.push_str("}\n");
    files.push(("src/main.rs".into(), main));
    let mut compared = 0;
    let mut build_error = String::new();
    if !accepted.is_empty() {
        match build_scratch_crate(&opts.out.join("e2e_crate"), "prec_e2e", &files) {
            Ok(exe) => {
                let o = std::process::Command::new(exe).output().unwrap();
                let text = String::from_utf8_lossy(&o.stdout).into_owned();
                let mut results: std::collections::HashMap<(usize, usize), String> = Default::default();
                for line in text.lines() {
                    let mut it = line.splitn(3, ' ');
                    let (Some(a), Some(b), Some(c)) = (it.next(), it.next(), it.next()) else { continue };
                    results.insert((a.parse().unwrap(), b.parse().unwrap()), c.to_string());
                }
                for (gi, g, inputs) in &accepted {
                    for (i, inp) in inputs.iter().enumerate() {
                        let imp = results.get(&(*gi, i)).cloned().unwrap_or_else(|| "<no output>".into());
                        h.hit(if imp == "error" { "e2e-result:error" } else { "e2e-result:tree" });
                        st.case(&format!("climb {} {}", g.spec, inp.join(" ")), &imp);
                        compared += 1;
                    }
                }
            }
            Err(e) => build_error = e.chars().take(3000).collect(),
        }
    }
    st.finish();
    // grammars kept for replays
    let gj: Vec<String> = accepted.iter().map(|(gi, g, _)| format!("{{\"index\":{gi},\"spec\":{},\"grammar\":{}}}", json_str(&g.spec), json_str(&g.text))).collect();
    std::fs::write(opts.out.join("prece2e.grammars.json"), format!("[{}]", gj.join(","))).unwrap();
    format!(
        "{{\"grammars\":{},\"accepted\":{},\"rejected\":{},\"compared\":{},\"build_error\":{},\"hist\":{}}}",
        ngrammars,
        accepted.len(),
        rejected,
        compared,
        json_str(&build_error),
        h.json()
    )
}

/// file_text.rs arithmetic: `line_col` values and whether `highlight` panics, vs the model
fn run_file_text(o: &mut Out, r: &mut Rng) {
    let n = r.below(5);
    let mut text = String::new();
    for i in 0..n {
        let w = r.below(7);
        for _ in 0..w {
            text.push(*r.pick(&['a', 'b', ' ', 'é', '😀', '\t', '"']));
        }
        if i + 1 < n || r.chance(1, 2) {
            text.push_str(if r.chance(1, 5) { "\r\n" } else { "\n" });
        }
    }
    let len = text.len();
    let lo = r.below(len + 3);
    let hi = if r.chance(1, 6) { r.below(len + 3) } else { lo + r.below(len + 3 - lo.min(len + 2)) };
    let (t1, t2) = (text.clone(), text.clone());
    let lc = caught(move || vh::misc::passes::file_text_line_col(&t1, lo, hi)).unwrap_or_else(|_| "panic".into());
    let hl = match caught(move || vh::misc::passes::file_text_highlight(&t2, lo, hi)) {
        Ok(_) => "ok".to_string(),
        Err(_) => "panic".to_string(),
    };
    for (cmd, imp) in [("linecol", lc), ("highlight", hl)] {
        let req = format!("{cmd} {} {lo} {hi}", enc_str(&text));
        let k = fnv(&req);
        o.distinct.insert(k);
        if text.contains('\n') {
            o.nontrivial.insert(k);
        }
        o.h.hit(&format!("filetext:{cmd} {}", if imp == "panic" { "panic" } else { "ok" }));
        o.st.case(&req, &imp);
    }
}

fn main() {
    let opts = parse_opts();
    std::panic::set_hook(Box::new(|_| {}));
    if let Some(i) = opts.extra.iter().position(|a| a == "--e2e") {
        let k: usize = opts.extra[i + 1].parse().unwrap();
        let m: usize = opts.extra.get(i + 2).and_then(|s| s.parse().ok()).unwrap_or(40);
        let stats = run_e2e(&opts, k, m);
        std::fs::write(opts.out.join("prece2e.stats.json"), &stats).unwrap();
        println!("{stats}");
        return;
    }
    let mut o = Out {
        st: Streams::create(&opts.out, "prec"),
        h: Hist::default(),
        distinct: HashSet::new(),
        nontrivial: HashSet::new(),
        pipeline_panics: vec![],
    };
    if let Some(f) = &opts.replay {
        let text = std::fs::read_to_string(f).unwrap();
        run_grammar(&mut o, &text, false);
        run_grammar(&mut o, &text, true);
        for feats in [&[][..], &["f"][..], &["x"][..], &["f", "g_h", "k"][..]] {
            run_cfg_grammar(&mut o, &text, feats);
        }
    } else {
        // fixed corpus first: the documented examples and the known witness
        let fixed: &[&str] = &[
            "grammar;\npub E: u32 = {\n #[precedence(level=\"1\")] \"a\" => 1,\n #[assoc(side=\"left\")] <l:E> \"+\" <r:E> => l + r,\n};\n",
            "grammar;\npub Expr: i32 = {\n #[precedence(level=\"0\")] Term,\n #[precedence(level=\"1\")] #[assoc(side=\"left\")]\n <l:Expr> \"*\" <r:Expr> => l * r,\n <l:Expr> \"/\" <r:Expr> => l / r,\n #[precedence(level=\"2\")] #[assoc(side=\"left\")]\n <l:Expr> \"+\" <r:Expr> => l + r,\n <l:Expr> \"-\" <r:Expr> => l - r,\n};\nTerm: i32 = { \"1\" => 1, \"(\" <Expr> \")\" };\n",
        ];
        for t in fixed {
            run_grammar(&mut o, t, false);
            run_grammar(&mut o, t, true);
        }
        let cfg_fixed = "grammar;\npub E: u32 = {\n #[cfg(feature=\"x\")] #[precedence(level=\"5\")] \"a\" => 1,\n #[assoc(side=\"left\")] <l:E> \"+\" <r:E> => l + r,\n #[precedence(level=\"1\")] \"b\" => 2,\n};\n";
        run_cfg_grammar(&mut o, cfg_fixed, &[]);
        run_cfg_grammar(&mut o, cfg_fixed, &["x"]);
        let mut r = Rng::new(opts.seed);
        for i in 0..opts.n {
            let wild = i % 3 == 2;
            let mut rr = r.fork();
            let mut g = Gen::new(&mut rr, if wild { Wild::Wild } else { Wild::Tame });
            let text = g.grammar();
            o.h.hit(&format!("gen:levels={}", g.stats.levels.min(6)));
            o.h.hit(&format!("gen:alts={}", g.stats.alts));
            o.h.hit(&format!("gen:rec-occurrences={}", g.stats.rec_occurrences.min(8)));
            if g.stats.nested_forms > 0 {
                o.h.hit("gen:has-nested-forms");
            }
            if g.stats.inherited > 0 {
                o.h.hit("gen:has-inherited-level");
            }
            if g.stats.macro_def {
                o.h.hit("gen:macro-definition");
            }
            o.h.hit(if wild { "stream:wild" } else { "stream:tame" });
            run_grammar(&mut o, &text, wild);
            if i % 2 == 0 {
                let mut rr = r.fork();
                run_file_text(&mut o, &mut rr);
            }
            if i % 4 == 0 {
                // cfg stream: tame layouts with cfg attributes on alternatives, random feature subset
                let mut rr = r.fork();
                let mut g = Gen::new(&mut rr, Wild::Tame);
                g.with_cfg = true;
                let text = g.grammar();
                let all = ["f", "g_h", "k"];
                let mask = r.below(8);
                let feats: Vec<&str> = (0..3).filter(|b| mask >> b & 1 == 1).map(|b| all[b]).collect();
                o.h.hit("stream:cfg");
                run_cfg_grammar(&mut o, &text, &feats);
            }
        }
    }
    let cases = o.st.count;
    o.st.finish();
    // panics behind the validator, for the check (one file per panic, message \x01 grammar)
    let pp: Vec<String> = o.pipeline_panics.iter().map(|s| json_str(s)).collect();
    std::fs::write(opts.out.join("prec.panics.json"), format!("[{}]", pp.join(","))).unwrap();
    println!(
        "{{\"cases\":{},\"distinct\":{},\"distinct_nontrivial\":{},\"pipeline_panics\":{},\"hist\":{}}}",
        cases,
        o.distinct.len(),
        o.nontrivial.len(),
        o.pipeline_panics.len(),
        o.h.json()
    );
}
