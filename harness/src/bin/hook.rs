//! Command-line access to the verif hooks (debugging aid):
//!   hook automaton FILE [feature...]      (LALRPOP_LANE_TABLE=disabled selects canonical LR(1)/LALR)
//!   hook stage STAGE FILE [feature...]
use lalrpop::verif_hooks as vh;
fn main() {
    let a: Vec<String> = std::env::args().collect();
    match a.get(1).map(|s| s.as_str()) {
        Some("automaton") => {
            let text = std::fs::read_to_string(&a[2]).unwrap();
            let feats: Vec<&str> = a[3..].iter().map(|s| s.as_str()).collect();
            print!("{}", vh::export_automaton(&text, Some(&feats)));
        }
        Some("stage") => {
            let text = std::fs::read_to_string(&a[3]).unwrap();
            let feats: Vec<&str> = a[4..].iter().map(|s| s.as_str()).collect();
            println!("{}", vh::stage_dump(&text, Some(&feats), &a[2]));
        }
        _ => eprintln!("usage: hook automaton FILE | hook stage STAGE FILE"),
    }
}
