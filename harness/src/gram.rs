//! Core context-free grammar generator (shared by the LR checks): LR-biased templates, fully
//! random grammars, mutations; rendering to `.lalrpop` text; sentence sampling.
use crate::Rng;

#[derive(Clone, Debug, PartialEq, Eq, Hash)]
pub enum S {
    T(usize),
    N(usize),
    /// the error-recovery symbol `!`
    Bang,
}

#[derive(Clone, Debug)]
pub struct Cfg {
    /// alternatives per nonterminal
    pub nts: Vec<Vec<Vec<S>>>,
    pub nterm: usize,
    /// which nonterminals are `pub`
    pub pubs: Vec<usize>,
    pub lalr: bool,
    pub origin: String,
}

pub fn term_name(i: usize) -> String {
    // terminal spellings that the built-in lexer can tell apart when space-separated
    let names = ["a", "b", "c", "d", "e", "f", "g", "h", "i", "j", "k", "l"];
    names[i % names.len()].to_string()
}

impl Cfg {
    pub fn uses_bang(&self) -> bool {
        self.nts.iter().flatten().flatten().any(|s| *s == S::Bang)
    }

    /// `.lalrpop` text with unit-typed nonterminals (for automaton export / table extraction).
    pub fn render_unit(&self, attrs: &str) -> String {
        let mut s = String::new();
        s.push_str(attrs);
        if self.lalr {
            s.push_str("#[LALR]\n");
        }
        s.push_str("grammar;\n");
        for (i, alts) in self.nts.iter().enumerate() {
            let vis = if self.pubs.contains(&i) { "pub " } else { "" };
            s.push_str(&format!("{vis}N{i}: () = {{\n"));
            for alt in alts {
                let body: Vec<String> = alt
                    .iter()
                    .map(|x| match x {
                        S::T(t) => format!("\"{}\"", term_name(*t)),
                        S::N(n) => format!("N{n}"),
                        S::Bang => "!".to_string(),
                    })
                    .collect();
                s.push_str(&format!("    {} => (),\n", body.join(" ")));
            }
            s.push_str("};\n");
        }
        s
    }

    /// minimal derivation height per nonterminal (None = unproductive)
    pub fn min_height(&self) -> Vec<Option<usize>> {
        let n = self.nts.len();
        let mut h: Vec<Option<usize>> = vec![None; n];
        loop {
            let mut changed = false;
            for i in 0..n {
                for alt in &self.nts[i] {
                    let mut m = Some(0usize);
                    for s in alt {
                        m = match (m, s) {
                            (Some(a), S::N(j)) => h[*j].map(|b| a.max(b)),
                            (Some(_), S::Bang) => None, // `!` never occurs in a sentence
                            (a, _) => a,
                        };
                    }
                    if let Some(m) = m {
                        let cand = m + 1;
                        if h[i].is_none_or(|x| cand < x) {
                            h[i] = Some(cand);
                            changed = true;
                        }
                    }
                }
            }
            if !changed {
                return h;
            }
        }
    }

    /// every nonterminal reachable from `start` derives some terminal string
    pub fn reduced_from(&self, start: usize) -> bool {
        let h = self.min_height();
        let mut seen = vec![false; self.nts.len()];
        let mut todo = vec![start];
        while let Some(n) = todo.pop() {
            if seen[n] {
                continue;
            }
            seen[n] = true;
            if h[n].is_none() {
                return false;
            }
            for alt in &self.nts[n] {
                for s in alt {
                    if let S::N(j) = s {
                        todo.push(*j);
                    }
                }
            }
        }
        true
    }

    /// random sentence of nonterminal `nt` (terminal indices of THIS Cfg), None if unproductive
    pub fn sample(&self, r: &mut Rng, nt: usize, budget: usize) -> Option<Vec<usize>> {
        let h = self.min_height();
        h[nt]?;
        let mut out = vec![];
        let mut size = 0usize;
        self.sample_rec(r, nt, budget, &h, &mut out, &mut size);
        Some(out)
    }

    fn sample_rec(&self, r: &mut Rng, nt: usize, budget: usize, h: &[Option<usize>], out: &mut Vec<usize>, size: &mut usize) {
        *size += 1;
        let alts: Vec<&Vec<S>> = self.nts[nt]
            .iter()
            .filter(|alt| alt.iter().all(|s| match s {
                S::N(j) => h[*j].is_some(),
                S::Bang => false,
                _ => true,
            }))
            .collect();
        // once over budget pick the alternative of least height
        let alt = if *size > budget {
            alts.iter()
                .min_by_key(|alt| alt.iter().map(|s| if let S::N(j) = s { h[*j].unwrap() } else { 0 }).max().unwrap_or(0))
                .unwrap()
        } else {
            alts[r.below(alts.len())]
        };
        for s in alt.iter() {
            match s {
                S::T(t) => out.push(*t),
                S::N(j) => self.sample_rec(r, *j, budget, h, out, size),
                S::Bang => {}
            }
        }
    }
}

fn t(i: usize) -> S {
    S::T(i)
}
fn n(i: usize) -> S {
    S::N(i)
}

/// hand-written LR shapes; each returns (alternatives per nonterminal, number of terminals)
fn templates() -> Vec<(&'static str, Vec<Vec<Vec<S>>>, usize)> {
    vec![
        ("left-list", vec![vec![vec![n(0), t(0)], vec![t(0)]]], 1),
        ("right-list-eps", vec![vec![vec![t(0), n(0)], vec![]]], 1),
        ("nest", vec![vec![vec![t(0), n(0), t(1)], vec![]]], 2),
        (
            "expr-ladder",
            vec![
                vec![vec![n(0), t(0), n(1)], vec![n(1)]],
                vec![vec![n(1), t(1), n(2)], vec![n(2)]],
                vec![vec![t(2), n(0), t(3)], vec![t(4)]],
            ],
            5,
        ),
        (
            "lr1-not-lalr",
            vec![
                vec![vec![t(0), n(1), t(2)], vec![t(0), n(2), t(3)], vec![t(1), n(2), t(2)], vec![t(1), n(1), t(3)]],
                vec![vec![t(4)]],
                vec![vec![t(4)]],
            ],
            5,
        ),
        (
            // LR(1)-not-LALR where the contexts are told apart across a NONTERMINAL edge:
            // G = a X d | a Y c | b X c | b Y d ; X = P e ; Y = P e ; P = p
            "lr1-not-lalr-nt-edge",
            vec![
                vec![vec![t(0), n(1), t(3)], vec![t(0), n(2), t(2)], vec![t(1), n(1), t(2)], vec![t(1), n(2), t(3)]],
                vec![vec![n(3), t(4)]],
                vec![vec![n(3), t(4)]],
                vec![vec![t(5)]],
            ],
            6,
        ),
        (
            // a state cloned during lane resolution that has reductions of its own and is also
            // reachable by a shorter path: G = X z | Y w | a U d | a V c | b U c | b V d | a Q g | a R h | b Q g | b R h ;
            // U = k X ; V = k Y ; X = e ; Y = e ; Q = k ; R = k
            "lr1-not-lalr-cloned-state",
            vec![
                vec![
                    vec![n(3), t(0)], vec![n(4), t(1)],
                    vec![t(2), n(1), t(3)], vec![t(2), n(2), t(4)], vec![t(5), n(1), t(4)], vec![t(5), n(2), t(3)],
                    vec![t(2), n(5), t(6)], vec![t(2), n(6), t(7)], vec![t(5), n(5), t(6)], vec![t(5), n(6), t(7)],
                ],
                vec![vec![t(8), n(3)]],
                vec![vec![t(8), n(4)]],
                vec![vec![t(9)]],
                vec![vec![t(9)]],
                vec![vec![t(8)]],
                vec![vec![t(8)]],
            ],
            10,
        ),
        (
            "lalr-not-slr",
            vec![
                vec![vec![n(1), t(0), n(2)], vec![n(2)]],
                vec![vec![t(1), n(2)], vec![t(2)]],
                vec![vec![n(1)]],
            ],
            3,
        ),
        (
            // lane-table paper G0 (lr1/lane_table/test.rs): X = a Y d | a Z c | b Y e | b Z d; Y = t W | u X; Z = t u; W = u V; V = ε
            "lane-g0",
            vec![
                vec![vec![t(0), n(1), t(3)], vec![t(0), n(2), t(2)], vec![t(1), n(1), t(4)], vec![t(1), n(2), t(3)]],
                vec![vec![t(5), n(3)], vec![t(6), n(0)]],
                vec![vec![t(5), t(6)]],
                vec![vec![t(6), n(4)]],
                vec![vec![]],
            ],
            7,
        ),
        (
            // G1: X = a Y d | a Z c | b Y e | b Z d; Y = t W | u X; Z = t u; W = u V; V = ε  with an extra epsilon lane
            "opt-prefix",
            vec![
                vec![vec![n(1), t(0), n(0)], vec![t(1)]],
                vec![vec![t(2)], vec![]],
            ],
            3,
        ),
        (
            "dangling-free-if",
            vec![
                vec![vec![t(0), n(0), t(1), n(0), t(2)], vec![t(3)]],
            ],
            4,
        ),
        (
            // a nonterminal with an empty alternative used in two contexts, one followed by EOF:
            // merged lookaheads make the parser reduce before it detects an error
            // S = c X e | d X ; X = a 0 | a B | a Opt ; B = 0 1 ; Opt = ε | q
            "merged-eps-context",
            vec![
                vec![vec![t(0), n(1), t(1)], vec![t(2), n(1)]],
                vec![vec![t(3), t(4)], vec![t(3), n(2)], vec![t(3), n(3)]],
                vec![vec![t(4), t(5)]],
                vec![vec![], vec![t(6)]],
            ],
            7,
        ),
        (
            // states that receive optional stack slots (recursive ascent): items of different
            // prefix lengths in one state, a callee popping only the upper part of the known stack
            // X = a Y q | a b t p ; Y = b t | b Z | b Q ; Z = t u ; Q = Y r
            "overlapping-prefixes",
            vec![
                vec![vec![t(0), n(1), t(4)], vec![t(0), t(1), t(2), t(3)]],
                vec![vec![t(1), t(2)], vec![t(1), n(2)], vec![t(1), n(3)]],
                vec![vec![t(2), t(5)]],
                vec![vec![n(1), t(6)]],
            ],
            7,
        ),
        (
            // same idea, nested one level deeper and with a left-recursive tail
            "overlapping-prefixes-2",
            vec![
                vec![vec![t(0), t(1), n(1), t(3)], vec![t(0), t(1), t(2), t(2), t(4)], vec![n(0), t(5)]],
                vec![vec![t(2)], vec![t(2), t(2)], vec![t(2), n(2)]],
                vec![vec![n(1), t(6)], vec![t(6)]],
            ],
            7,
        ),
        (
            "two-eps",
            vec![
                vec![vec![n(1), n(2), t(0)]],
                vec![vec![t(1)], vec![]],
                vec![vec![t(2)], vec![]],
            ],
            3,
        ),
        (
            "unit-chain",
            vec![vec![vec![n(1)]], vec![vec![n(2)]], vec![vec![t(0)], vec![t(1), n(0), t(1)]]],
            2,
        ),
        (
            "recover-list",
            vec![
                vec![vec![n(0), n(1)], vec![]],
                vec![vec![t(0), t(1)], vec![S::Bang, t(1)]],
            ],
            2,
        ),
        (
            // E = id | ( E ) | ( ! ) ; list of E separated by ","
            "recover-paren",
            vec![
                vec![vec![n(1)], vec![n(0), t(3), n(1)]],
                vec![vec![t(0)], vec![t(1), n(1), t(2)], vec![t(1), S::Bang, t(2)]],
            ],
            4,
        ),
        (
            // optional prefix, recovery in the middle, empty reductions around it
            "recover-eps",
            vec![
                vec![vec![n(1), n(2), t(0)]],
                vec![vec![t(1)], vec![]],
                vec![vec![S::Bang], vec![t(2)], vec![n(3), t(2)]],
                vec![vec![]],
            ],
            3,
        ),
        (
            "recover-stmts",
            vec![
                vec![vec![], vec![n(0), n(1)]],
                vec![vec![t(0), n(2), t(1)], vec![S::Bang, t(1)]],
                vec![vec![t(2)], vec![n(2), t(3), t(2)], vec![]],
            ],
            4,
        ),
        (
            // an empty reduction right after the error symbol (under the lookahead recovery resumed with)
            "recover-then-eps",
            vec![
                vec![vec![n(1), n(2), t(0)], vec![n(0), t(3), n(1), n(2), t(0)]],
                vec![vec![t(1)], vec![S::Bang]],
                vec![vec![], vec![t(2)]],
            ],
            4,
        ),
        (
            "recover-eps-list",
            vec![
                vec![vec![n(1)], vec![n(0), n(2), n(1)]],
                vec![vec![], vec![n(1), t(0)]],
                vec![vec![t(1)], vec![S::Bang, t(1)]],
            ],
            2,
        ),
        (
            "recover-top",
            vec![vec![vec![n(1), t(0)], vec![S::Bang]], vec![vec![t(1)], vec![n(1), t(1)]]],
            2,
        ),
        (
            "recover-nest",
            vec![
                vec![vec![t(0), n(1), t(1)]],
                vec![vec![n(1), t(2)], vec![t(2)], vec![S::Bang]],
            ],
            3,
        ),
    ]
}

pub fn n_templates() -> usize {
    templates().len()
}

fn random_sym(r: &mut Rng, nnt: usize, nterm: usize, bang: bool) -> S {
    if bang && r.chance(1, 12) {
        S::Bang
    } else if r.chance(3, 5) {
        S::T(r.below(nterm))
    } else {
        S::N(r.below(nnt))
    }
}

fn mutate(r: &mut Rng, g: &mut Cfg, bang: bool) {
    let nnt = g.nts.len();
    let i = r.below(nnt);
    match r.below(6) {
        0 => {
            // add an alternative
            let len = r.below(4);
            let alt = (0..len).map(|_| random_sym(r, nnt, g.nterm, bang)).collect();
            g.nts[i].push(alt);
        }
        1 => {
            // delete a symbol
            let k = r.below(g.nts[i].len());
            if !g.nts[i][k].is_empty() {
                let j = r.below(g.nts[i][k].len());
                g.nts[i][k].remove(j);
            }
        }
        2 => {
            // insert a symbol
            let k = r.below(g.nts[i].len());
            let j = r.below(g.nts[i][k].len() + 1);
            let s = random_sym(r, nnt, g.nterm, bang);
            g.nts[i][k].insert(j, s);
        }
        3 => {
            // replace a symbol
            let k = r.below(g.nts[i].len());
            if !g.nts[i][k].is_empty() {
                let j = r.below(g.nts[i][k].len());
                g.nts[i][k][j] = random_sym(r, nnt, g.nterm, bang);
            }
        }
        4 => {
            // drop an alternative (keep at least one)
            if g.nts[i].len() > 1 {
                let k = r.below(g.nts[i].len());
                g.nts[i].remove(k);
            }
        }
        _ => {
            // new nonterminal used somewhere
            if nnt < 6 {
                let len = 1 + r.below(3);
                let alt: Vec<S> = (0..len).map(|_| random_sym(r, nnt + 1, g.nterm, bang)).collect();
                g.nts.push(vec![alt]);
                let k = r.below(g.nts[i].len());
                let j = r.below(g.nts[i][k].len() + 1);
                g.nts[i][k].insert(j, S::N(nnt));
            }
        }
    }
}

/// the `i`-th grammar of a run: every template once (unmutated) first, then the random streams
pub fn gen_cfg_indexed(r: &mut Rng, i: usize, allow_bang: bool) -> Cfg {
    let ts = templates();
    if i < ts.len() {
        let (name, nts, nterm) = ts[i].clone();
        let g = Cfg { nts, nterm, pubs: vec![0], lalr: false, origin: name.to_string() };
        if allow_bang || !g.uses_bang() {
            return g;
        }
    }
    gen_cfg(r, allow_bang)
}

/// a grammar that certainly uses `!` (recovery-focused runs)
pub fn gen_cfg_recovery(r: &mut Rng) -> Cfg {
    for _ in 0..50 {
        let g = gen_cfg_with(r, true, true);
        if g.uses_bang() {
            return g;
        }
    }
    gen_cfg_with(r, true, true)
}

/// one generated grammar; `stream` 0 = template (renamed), 1 = mutated template, 2 = fully random
pub fn gen_cfg(r: &mut Rng, allow_bang: bool) -> Cfg {
    gen_cfg_with(r, allow_bang, false)
}

fn gen_cfg_with(r: &mut Rng, allow_bang: bool, prefer_bang: bool) -> Cfg {
    let ts: Vec<_> = if prefer_bang {
        templates().into_iter().filter(|(name, _, _)| name.starts_with("recover")).collect()
    } else {
        templates()
    };
    let stream = r.below(10);
    let mut g = if stream < 8 {
        let (name, nts, nterm) = ts[r.below(ts.len())].clone();
        Cfg { nts, nterm, pubs: vec![0], lalr: false, origin: name.to_string() }
    } else {
        let nnt = 1 + r.below(4);
        let nterm = 1 + r.below(4);
        let nts = (0..nnt)
            .map(|_| {
                let na = 1 + r.below(3);
                (0..na)
                    .map(|_| {
                        let len = r.below(4);
                        (0..len).map(|_| random_sym(r, nnt, nterm, false)).collect()
                    })
                    .collect()
            })
            .collect();
        Cfg { nts, nterm, pubs: vec![0], lalr: false, origin: "random".into() }
    };
    if !allow_bang && g.uses_bang() {
        for alts in g.nts.iter_mut() {
            alts.retain(|a| !a.contains(&S::Bang));
            if alts.is_empty() {
                alts.push(vec![S::T(0)]);
            }
        }
    }
    if stream >= 3 && stream < 8 {
        let k = 1 + r.below(3);
        for _ in 0..k {
            mutate(r, &mut g, allow_bang);
        }
        g.origin = format!("{}+mut{}", g.origin, k);
    }
    // random permutation of terminal names keeps templates from always using the same spelling
    if r.chance(1, 2) && g.nterm > 1 {
        let shift = 1 + r.below(g.nterm - 1);
        let nterm = g.nterm;
        for s in g.nts.iter_mut().flatten().flatten() {
            if let S::T(t) = s {
                *t = (*t + shift) % nterm;
            }
        }
    }
    // sometimes a second pub start
    if g.nts.len() > 1 && r.chance(1, 6) {
        let k = 1 + r.below(g.nts.len() - 1);
        g.pubs.push(k);
    }
    g
}
