//! Generators shared by the lexer-area harness binaries (`lexer`, `redfa`, `relit`):
//! random regex syntax, literals, terminal sets and inputs. Included with `#[path]`.
#![allow(dead_code)]
use verif_harness::Rng;

pub const ASCII_CHARS: &[char] = &['a', 'b', 'c', 'x', '0', '1', ' ', '+', '-', '.', '_', '\n', '\t'];
pub const UNI_CHARS: &[char] = &['é', 'ê', 'è', 'λ', 'я', '中', '😀', '\u{e9}', '\u{3a9}', '\u{2028}', '\u{a0}', 'ß', 'K', '\u{212a}'];
pub const META_CHARS: &[char] = &['\\', '.', '+', '*', '?', '(', ')', '|', '[', ']', '{', '}', '^', '$', '#', '&', '-', '~', '"', '\''];

#[derive(Clone, Copy)]
pub struct GenCfg {
    /// allow look-around, lazy repetition, named groups
    pub unsupported: bool,
    /// allow `\w`, `\p{L}`, `.` and other big Unicode classes (slow in lalrpop's own DFA builder)
    pub big_classes: bool,
    /// allow non-ASCII literals and classes
    pub non_ascii: bool,
    /// allow flags such as `(?i)`, `(?s)`, `(?x)`
    pub flags: bool,
}

impl GenCfg {
    pub fn full() -> Self {
        GenCfg { unsupported: true, big_classes: true, non_ascii: true, flags: true }
    }
    pub fn small() -> Self {
        GenCfg { unsupported: false, big_classes: false, non_ascii: true, flags: false }
    }
}

pub fn pick_s<'a>(r: &mut Rng, xs: &[&'a str]) -> &'a str {
    xs[r.below(xs.len())]
}

pub fn pick_char(r: &mut Rng, cfg: &GenCfg) -> char {
    if cfg.non_ascii && r.chance(1, 4) {
        *r.pick(UNI_CHARS)
    } else {
        *r.pick(&ASCII_CHARS[..8])
    }
}

fn lit_char(c: char, out: &mut String) {
    if META_CHARS.contains(&c) || c == ' ' && false {
        out.push('\\');
        out.push(c);
    } else if c == '\n' {
        out.push_str("\\n");
    } else if c == '\t' {
        out.push_str("\\t");
    } else {
        out.push(c);
    }
}

fn class_item(r: &mut Rng, cfg: &GenCfg, out: &mut String, sample: &mut Option<char>) {
    match r.below(8) {
        0 | 1 | 2 => {
            let c = pick_char(r, cfg);
            if "\\[]^-&~".contains(c) {
                out.push('\\');
            }
            out.push(c);
            *sample = Some(c);
        }
        3 | 4 => {
            let (a, b) = *r.pick(&[('a', 'c'), ('a', 'z'), ('0', '9'), ('b', 'x'), ('A', 'Z'), (' ', '0')]);
            out.push(a);
            out.push('-');
            out.push(b);
            *sample = Some(if r.chance(1, 2) { a } else { b });
        }
        5 if cfg.non_ascii => {
            let (a, b) = *r.pick(&[('é', 'ê'), ('à', 'ÿ'), ('α', 'ω'), ('\u{80}', '\u{ff}'), ('\u{c3}', '\u{c3}'), ('\u{a9}', '\u{aa}')]);
            out.push(a);
            out.push('-');
            out.push(b);
            *sample = Some(if r.chance(1, 2) { a } else { b });
        }
        6 => {
            let (t, c) = *r.pick(&[("\\d", '7'), ("\\s", ' '), ("[:alpha:]", 'q'), ("[:digit:]", '3')]);
            out.push_str(t);
            *sample = Some(c);
        }
        7 if cfg.big_classes => {
            let (t, c) = *r.pick(&[("\\w", 'w'), ("\\p{Lu}", 'É'), ("\\p{Greek}", 'λ'), ("\\W", '+')]);
            out.push_str(t);
            *sample = Some(c);
        }
        _ => {
            let c = *r.pick(&['a', 'b', '0']);
            out.push(c);
            *sample = Some(c);
        }
    }
}

/// A random regex in Rust regex syntax.
pub fn gen_regex(r: &mut Rng, depth: usize, cfg: &GenCfg) -> String {
    gen_regex_sample(r, depth, cfg).0
}

/// A random regex together with a string that (usually) matches it.
pub fn gen_regex_sample(r: &mut Rng, depth: usize, cfg: &GenCfg) -> (String, String) {
    let mut s = String::new();
    let mut sample = String::new();
    if cfg.flags && depth >= 2 && r.chance(1, 12) {
        s.push_str(pick_s(r, &["(?i)", "(?s)", "(?x)", "(?U)", "(?m)"]));
    }
    gen_alt(r, depth, cfg, &mut s, &mut sample);
    (s, sample)
}

fn gen_alt(r: &mut Rng, depth: usize, cfg: &GenCfg, out: &mut String, sample: &mut String) {
    let n = if depth > 0 && r.chance(1, 4) { 2 + r.below(2) } else { 1 };
    let chosen = r.below(n);
    for i in 0..n {
        if i > 0 {
            out.push('|');
        }
        let mut tmp = String::new();
        gen_cat(r, depth, cfg, out, &mut tmp);
        if i == chosen {
            sample.push_str(&tmp);
        }
    }
}

fn gen_cat(r: &mut Rng, depth: usize, cfg: &GenCfg, out: &mut String, sample: &mut String) {
    let n = match r.below(10) {
        0 => 0,
        1..=4 => 1,
        5..=7 => 2,
        _ => 3,
    };
    for _ in 0..n {
        gen_rep(r, depth, cfg, out, sample);
    }
}

fn gen_rep(r: &mut Rng, depth: usize, cfg: &GenCfg, out: &mut String, sample: &mut String) {
    let mut one = String::new();
    gen_atom(r, depth, cfg, out, &mut one);
    let (suffix, lo, hi): (&str, usize, usize) = match r.below(14) {
        0 | 1 => ("*", 0, 3),
        2 | 3 => ("+", 1, 3),
        4 => ("?", 0, 1),
        5 => *r.pick(&[("{2}", 2, 2), ("{0}", 0, 0), ("{1}", 1, 1), ("{3}", 3, 3)]),
        6 => *r.pick(&[("{1,2}", 1, 2), ("{0,2}", 0, 2), ("{2,3}", 2, 3), ("{0,1}", 0, 1), ("{1,3}", 1, 3)]),
        7 => *r.pick(&[("{2,}", 2, 4), ("{0,}", 0, 2), ("{1,}", 1, 3), ("{3,}", 3, 4)]),
        8 if cfg.unsupported && r.chance(1, 3) => *r.pick(&[("*?", 0, 2), ("+?", 1, 2), ("??", 0, 1), ("{1,2}?", 1, 2)]),
        _ => ("", 1, 1),
    };
    out.push_str(suffix);
    let k = lo + r.below(hi - lo + 1);
    for _ in 0..k {
        sample.push_str(&one);
    }
}

fn gen_atom(r: &mut Rng, depth: usize, cfg: &GenCfg, out: &mut String, sample: &mut String) {
    let k = r.below(20);
    match k {
        0..=7 => {
            let c = pick_char(r, cfg);
            lit_char(c, out);
            sample.push(c);
        }
        8 => {
            let c = *r.pick(META_CHARS);
            lit_char(c, out);
            sample.push(c);
        }
        9 | 10 => {
            out.push('[');
            let neg = r.chance(1, 6);
            if neg {
                out.push('^');
            }
            let n = 1 + r.below(3);
            let mut c = None;
            for _ in 0..n {
                class_item(r, cfg, out, &mut c);
            }
            out.push(']');
            sample.push(if neg { 'z' } else { c.unwrap_or('a') });
        }
        11 => {
            let (t, c) = *r.pick(&[("\\d", '5'), ("\\s", ' '), ("[a-z]", 'k'), ("[0-9]", '0'), ("[ab]", 'b')]);
            out.push_str(t);
            sample.push(c);
        }
        12 if cfg.big_classes => {
            let (t, c) = *r.pick(&[(".", 'é'), ("\\w", 'λ'), ("\\p{L}", 'я'), ("\\S", '+'), ("\\D", 'x'), ("(?s:.)", '\n'), ("\\pN", '7')]);
            out.push_str(t);
            sample.push(c);
        }
        13 | 14 | 15 if depth > 0 => {
            out.push_str(if r.chance(1, 2) { "(" } else { "(?:" });
            gen_alt(r, depth - 1, cfg, out, sample);
            out.push(')');
        }
        16 if cfg.unsupported && r.chance(1, 2) => {
            let (t, c) = *r.pick(&[("^", ""), ("$", ""), ("\\b", ""), ("\\B", ""), ("(?P<n>a)", "a"), ("(?<m>b)", "b"), ("\\A", ""), ("\\z", "")]);
            out.push_str(t);
            sample.push_str(c);
        }
        17 if cfg.flags && depth > 0 => {
            out.push_str(pick_s(r, &["(?i:", "(?s:", "(?-u:", "(?x: "]));
            gen_alt(r, depth - 1, cfg, out, sample);
            out.push(')');
        }
        18 if cfg.non_ascii => {
            let (t, c) = *r.pick(&[("\\u{e9}", 'é'), ("\\x{3bb}", 'λ'), ("\\xe9", 'é'), ("\\u00e9", 'é'), ("é", 'é'), ("[é-ê]", 'ê'), ("[^é]", 'e')]);
            out.push_str(t);
            sample.push(c);
        }
        _ => {
            let c = *r.pick(&['a', 'b', 'c']);
            lit_char(c, out);
            sample.push(c);
        }
    }
}

/// A random quoted-terminal text: any characters, including regex meta characters and non-ASCII.
pub fn gen_literal(r: &mut Rng, cfg: &GenCfg) -> String {
    let n = 1 + r.below(4);
    let mut s = String::new();
    for _ in 0..n {
        let c = match r.below(10) {
            0..=5 => pick_char(r, cfg),
            6 | 7 => *r.pick(META_CHARS),
            8 if cfg.non_ascii => *r.pick(UNI_CHARS),
            _ => *r.pick(ASCII_CHARS),
        };
        s.push(c);
    }
    s
}

/// Characters worth trying against a set of pattern texts: every char that occurs in them, plus a few others.
pub fn alphabet_of(patterns: &[String], cfg: &GenCfg) -> Vec<char> {
    let mut v: Vec<char> = vec!['a', 'b', ' ', 'x', '0'];
    for p in patterns {
        for c in p.chars() {
            if !v.contains(&c) && (c.is_alphanumeric() || c == ' ' || !c.is_ascii()) {
                v.push(c);
            }
        }
    }
    if cfg.non_ascii {
        for c in ['é', 'ê', 'λ'] {
            if !v.contains(&c) {
                v.push(c);
            }
        }
    }
    v
}

pub fn gen_input(r: &mut Rng, alphabet: &[char], max_len: usize) -> String {
    let n = r.below(max_len + 1);
    (0..n).map(|_| *r.pick(alphabet)).collect()
}

/// all strings of length <= k over the alphabet (in length-lexicographic order)
pub fn all_strings(alphabet: &[char], k: usize) -> Vec<String> {
    let mut out = vec![String::new()];
    let mut layer = vec![String::new()];
    for _ in 0..k {
        let mut next = vec![];
        for s in &layer {
            for &c in alphabet {
                let mut t = s.clone();
                t.push(c);
                next.push(t);
            }
        }
        out.extend(next.iter().cloned());
        layer = next;
    }
    out
}
