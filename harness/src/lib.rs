//! Shared helpers for the correspondence harness: PRNG, protocol encoding, case files.
pub mod gram;
pub mod lr;

use std::fmt::Write as _;
use std::io::Write;

/// splitmix64: every random choice in a run derives from one seed.
#[derive(Clone)]
pub struct Rng(pub u64);

impl Rng {
    pub fn new(seed: u64) -> Self {
        Rng(seed ^ 0x9E37_79B9_7F4A_7C15)
    }
    pub fn next(&mut self) -> u64 {
        self.0 = self.0.wrapping_add(0x9E37_79B9_7F4A_7C15);
        let mut z = self.0;
        z = (z ^ (z >> 30)).wrapping_mul(0xBF58_476D_1CE4_E5B9);
        z = (z ^ (z >> 27)).wrapping_mul(0x94D0_49BB_1331_11EB);
        z ^ (z >> 31)
    }
    /// uniform in 0..n (n > 0)
    pub fn below(&mut self, n: usize) -> usize {
        (self.next() % (n as u64)) as usize
    }
    pub fn range(&mut self, lo: i64, hi: i64) -> i64 {
        lo + (self.next() % ((hi - lo + 1) as u64)) as i64
    }
    pub fn chance(&mut self, num: u32, den: u32) -> bool {
        (self.next() % den as u64) < num as u64
    }
    pub fn pick<'a, T>(&mut self, xs: &'a [T]) -> &'a T {
        &xs[self.below(xs.len())]
    }
    pub fn fork(&mut self) -> Rng {
        Rng(self.next())
    }
}

pub fn enc_bytes(b: &[u8]) -> String {
    let mut s = String::with_capacity(1 + 2 * b.len());
    s.push('x');
    for x in b {
        write!(s, "{:02x}", x).unwrap();
    }
    s
}
pub fn enc_str(s: &str) -> String {
    enc_bytes(s.as_bytes())
}
pub fn dec_bytes(s: &str) -> Option<Vec<u8>> {
    let h = s.strip_prefix('x')?;
    if h.len() % 2 != 0 {
        return None;
    }
    (0..h.len() / 2)
        .map(|i| u8::from_str_radix(&h[2 * i..2 * i + 2], 16).ok())
        .collect()
}
pub fn dec_str(s: &str) -> Option<String> {
    String::from_utf8(dec_bytes(s)?).ok()
}

/// Command-line options shared by all harness binaries.
pub struct Opts {
    pub seed: u64,
    pub n: usize,
    pub out: std::path::PathBuf,
    pub replay: Option<std::path::PathBuf>,
    pub extra: Vec<String>,
}

pub fn parse_opts() -> Opts {
    let mut o = Opts {
        seed: 1,
        n: 1000,
        out: std::path::PathBuf::from("."),
        replay: None,
        extra: vec![],
    };
    let mut it = std::env::args().skip(1);
    while let Some(a) = it.next() {
        match a.as_str() {
            "--seed" => o.seed = it.next().unwrap().parse().unwrap(),
            "--n" => o.n = it.next().unwrap().parse().unwrap(),
            "--out" => o.out = it.next().unwrap().into(),
            "--replay" => o.replay = Some(it.next().unwrap().into()),
            _ => o.extra.push(a),
        }
    }
    std::fs::create_dir_all(&o.out).unwrap();
    o
}

/// Request / implementation-answer streams written side by side.
pub struct Streams {
    pub req: std::io::BufWriter<std::fs::File>,
    pub imp: std::io::BufWriter<std::fs::File>,
    pub count: usize,
}

impl Streams {
    pub fn create(dir: &std::path::Path, name: &str) -> Self {
        let req = std::fs::File::create(dir.join(format!("{name}.req"))).unwrap();
        let imp = std::fs::File::create(dir.join(format!("{name}.impl"))).unwrap();
        Streams {
            req: std::io::BufWriter::new(req),
            imp: std::io::BufWriter::new(imp),
            count: 0,
        }
    }
    pub fn case(&mut self, req: &str, imp: &str) {
        debug_assert!(!req.contains('\n') && !imp.contains('\n'));
        writeln!(self.req, "{req}").unwrap();
        writeln!(self.imp, "{imp}").unwrap();
        self.count += 1;
    }
    pub fn finish(mut self) {
        self.req.flush().unwrap();
        self.imp.flush().unwrap();
    }
}

/// Minimal JSON string escaping for the stats line.
pub fn json_str(s: &str) -> String {
    let mut o = String::from("\"");
    for c in s.chars() {
        match c {
            '"' => o.push_str("\\\""),
            '\\' => o.push_str("\\\\"),
            '\n' => o.push_str("\\n"),
            '\r' => o.push_str("\\r"),
            '\t' => o.push_str("\\t"),
            c if (c as u32) < 0x20 => write!(o, "\\u{:04x}", c as u32).unwrap(),
            c => o.push(c),
        }
    }
    o.push('"');
    o
}

/// Histogram helper: counts by label, printed as a JSON object.
#[derive(Default)]
pub struct Hist(pub std::collections::BTreeMap<String, u64>);
impl Hist {
    pub fn hit(&mut self, k: &str) {
        *self.0.entry(k.to_string()).or_insert(0) += 1;
    }
    pub fn json(&self) -> String {
        let parts: Vec<String> = self
            .0
            .iter()
            .map(|(k, v)| format!("{}:{}", json_str(k), v))
            .collect();
        format!("{{{}}}", parts.join(","))
    }
}

/// Generate parser source for `grammar_text` with the real lalrpop (`Configuration::process_file`)
/// in `dir` (file `<stem>.lalrpop` → `<stem>.rs`). Returns the generated text or the error.
/// stdout/stderr diagnostics of lalrpop go to the process' own stdout/stderr.
pub fn generate_parser(
    dir: &std::path::Path,
    stem: &str,
    grammar_text: &str,
    configure: impl FnOnce(&mut lalrpop::Configuration),
) -> Result<String, String> {
    std::fs::create_dir_all(dir).map_err(|e| e.to_string())?;
    let src = dir.join(format!("{stem}.lalrpop"));
    let out = dir.join(format!("{stem}.rs"));
    let _ = std::fs::remove_file(&out);
    std::fs::write(&src, grammar_text).map_err(|e| e.to_string())?;
    let mut cfg = lalrpop::Configuration::new();
    cfg.force_build(true).log_quiet();
    configure(&mut cfg);
    match std::panic::catch_unwind(std::panic::AssertUnwindSafe(|| cfg.process_file(&src))) {
        Ok(Ok(())) => std::fs::read_to_string(&out).map_err(|e| e.to_string()),
        Ok(Err(e)) => Err(format!("error: {e}")),
        Err(p) => {
            let msg = p
                .downcast_ref::<String>()
                .cloned()
                .or_else(|| p.downcast_ref::<&str>().map(|s| s.to_string()))
                .unwrap_or_default();
            Err(format!("panic: {msg}"))
        }
    }
}

/// Build a scratch binary crate that depends on /repo/lalrpop-util by path.
/// `files` are (path relative to the crate root, content), e.g. ("src/main.rs", …), ("src/g1.rs", …).
/// All scratch crates share one target directory (so lalrpop-util and regex are compiled once).
/// Returns the executable path, or rustc's stderr on a compile error.
pub fn build_scratch_crate(
    dir: &std::path::Path,
    name: &str,
    files: &[(String, String)],
) -> Result<std::path::PathBuf, String> {
    std::fs::create_dir_all(dir.join("src")).map_err(|e| e.to_string())?;
    let cargo_toml = format!(
        "[package]\nname = \"{name}\"\nversion = \"0.0.0\"\nedition = \"2021\"\n\n[workspace]\n\n\
         [dependencies]\nlalrpop-util = {{ path = \"/repo/lalrpop-util\", features = [\"lexer\", \"unicode\", \"std\"] }}\n\n\
         [profile.dev]\nopt-level = 0\ndebug = false\nincremental = false\n"
    );
    std::fs::write(dir.join("Cargo.toml"), cargo_toml).map_err(|e| e.to_string())?;
    let _ = std::fs::copy("/verif/harness/Cargo.lock", dir.join("Cargo.lock"));
    for (rel, content) in files {
        let p = dir.join(rel);
        if let Some(parent) = p.parent() {
            std::fs::create_dir_all(parent).map_err(|e| e.to_string())?;
        }
        std::fs::write(&p, content).map_err(|e| e.to_string())?;
    }
    let target = std::env::var("VERIF_SCRATCH_TARGET")
        .unwrap_or_else(|_| "/verif/harness/target/scratch".to_string());
    let out = std::process::Command::new("cargo")
        .args(["build", "--offline", "--quiet"])
        .current_dir(dir)
        .env("CARGO_NET_OFFLINE", "true")
        .env("CARGO_TARGET_DIR", &target)
        .env("RUSTFLAGS", "-Awarnings")
        .output()
        .map_err(|e| e.to_string())?;
    if !out.status.success() {
        return Err(String::from_utf8_lossy(&out.stderr).into_owned());
    }
    Ok(std::path::Path::new(&target).join("debug").join(name))
}
